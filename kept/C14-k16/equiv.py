"""Equivalence check for the datetime / timedelta conversions that sit under
bytes()/len()/pickle (Timestamp / Duration on the wire) and under to_dict()/to_json()
(their JSON strings): betterproto._Timestamp.from_datetime / timestamp_to_json and
betterproto._Duration.from_timedelta / delta_to_json.

Oracles: the formulas written out below (float based, the way they were originally
written), google.protobuf's Timestamp / Duration, and whole-message round trips.

Run as:  PYTHONPATH=/tmp/wt/R11C14/src /venv/bin/python equiv.py
"""
import copy
import json
import pickle
import random
from dataclasses import dataclass
from datetime import datetime, timedelta, timezone
from typing import Dict, List, Optional

from google.protobuf import duration_pb2, timestamp_pb2

import betterproto
from betterproto import _Duration, _Timestamp

rnd = random.Random(2014)
UTC = timezone.utc
EPOCH = datetime(1970, 1, 1, tzinfo=UTC)
CHECKS = 0


# ------------------------------------------------------------------------- oracles
def ref_timestamp_json(dt):
    nanos = dt.microsecond * 1e3
    if dt.tzinfo is not None:
        dt = dt.astimezone(timezone.utc)
    result = dt.replace(microsecond=0, tzinfo=None).isoformat()
    if (nanos % 1e9) == 0:
        return f"{result}Z"
    if (nanos % 1e6) == 0:
        return f"{result}.{int(nanos // 1e6):03d}Z"
    if (nanos % 1e3) == 0:
        return f"{result}.{int(nanos // 1e3):06d}Z"
    raise AssertionError("a datetime has no sub-microsecond part")


def ref_seconds_nanos(dt):
    offset = dt - EPOCH
    offset_us = (offset.days * 24 * 60 * 60 + offset.seconds) * 10**6 + offset.microseconds
    seconds, us = divmod(offset_us, 10**6)
    return seconds, us * 1000


def ref_duration_json(delta):
    total_us = (delta.days * 86400 + delta.seconds) * 10**6 + delta.microseconds
    sign = "-" if total_us < 0 else ""
    seconds, us = divmod(abs(total_us), 10**6)
    if us % 1000 == 0:
        return f"{sign}{seconds}.{us // 1000:03d}s"
    return f"{sign}{seconds}.{us:06d}s"


def ref_duration_seconds_nanos(delta):
    total_us = (delta.days * 86400 + delta.seconds) * 10**6 + delta.microseconds
    seconds, us = divmod(abs(total_us), 10**6)
    if total_us < 0:
        seconds, us = -seconds, -us
    return seconds, us * 1000


# ------------------------------------------------------------------------ datetimes
def interesting_datetimes():
    out = [
        EPOCH,
        EPOCH - timedelta(microseconds=1),
        EPOCH + timedelta(microseconds=1),
        EPOCH + timedelta(microseconds=999),
        EPOCH + timedelta(microseconds=1000),
        EPOCH + timedelta(microseconds=999000),
        EPOCH + timedelta(microseconds=999999),
        datetime(1, 1, 1, tzinfo=UTC),
        datetime(1, 1, 1, 0, 0, 0, 1, tzinfo=UTC),
        datetime(9999, 12, 31, 23, 59, 59, 999999, tzinfo=UTC),
        datetime(9999, 12, 31, 23, 59, 59, 999000, tzinfo=UTC),
        datetime(2242, 12, 31, 23, 0, 0, 1, tzinfo=UTC),
        datetime(1969, 12, 31, 23, 0, 0, 1, tzinfo=UTC),
        datetime(2038, 1, 19, 3, 14, 7, tzinfo=UTC),
        datetime(2038, 1, 19, 3, 14, 8, tzinfo=UTC),
        datetime(1901, 12, 13, 20, 45, 52, tzinfo=UTC),
        datetime(2000, 2, 29, 23, 59, 59, 500000, tzinfo=UTC),
    ]
    zones = [
        timezone(timedelta(hours=5, minutes=30)),
        timezone(timedelta(hours=-11)),
        timezone(timedelta(hours=14)),
        timezone(timedelta(seconds=37)),
        timezone(timedelta(microseconds=5)),  # sub-second offsets are legal
        timezone(timedelta(hours=-23, minutes=-59, seconds=-59, microseconds=-999999)),
    ]
    for tz in zones:
        out.append(datetime(2020, 6, 15, 12, 30, 45, 123456, tzinfo=tz))
        out.append(datetime(2020, 6, 15, 0, 0, 0, 0, tzinfo=tz))
        out.append(datetime(1970, 1, 1, 0, 0, 0, 999000, tzinfo=tz))
        out.append(datetime(5000, 1, 1, 0, 0, 0, 999999, tzinfo=tz))
    span = (datetime(9999, 12, 30, tzinfo=UTC) - datetime(1, 1, 2, tzinfo=UTC)) // timedelta(
        microseconds=1
    )
    for _ in range(20000):
        dt = datetime(1, 1, 2, tzinfo=UTC) + timedelta(microseconds=rnd.randrange(span))
        which = rnd.random()
        if which < 0.3:
            dt = dt.replace(microsecond=0)
        elif which < 0.6:
            dt = dt.replace(microsecond=dt.microsecond // 1000 * 1000)
        if rnd.random() < 0.3:
            dt = dt.astimezone(rnd.choice(zones))
        out.append(dt)
    return out


def test_timestamp_json_every_microsecond():
    """All 10**6 fractional parts: digits, padding and the dropped '.' for zero."""
    global CHECKS
    base = datetime(2021, 3, 4, 5, 6, 7, tzinfo=UTC)
    for us in range(10**6):
        dt = base.replace(microsecond=us)
        got = _Timestamp.timestamp_to_json(dt)
        if us == 0:
            want = "2021-03-04T05:06:07Z"
        elif us % 1000 == 0:
            want = "2021-03-04T05:06:07.%03dZ" % (us // 1000)
        else:
            want = "2021-03-04T05:06:07.%06dZ" % us
        assert got == want, (us, got, want)
    CHECKS += 10**6
    for us in list(range(0, 3000)) + list(range(997000, 10**6)) + [
        rnd.randrange(10**6) for _ in range(30000)
    ]:
        dt = base.replace(microsecond=us)
        assert _Timestamp.timestamp_to_json(dt) == ref_timestamp_json(dt), us
        CHECKS += 1


def test_timestamps():
    global CHECKS
    for dt in interesting_datetimes():
        CHECKS += 1
        # JSON string
        got = _Timestamp.timestamp_to_json(dt)
        assert got == ref_timestamp_json(dt), (dt, got)
        # naive datetimes are rendered as they are
        naive = dt.replace(tzinfo=None)
        assert _Timestamp.timestamp_to_json(naive) == ref_timestamp_json(naive), naive
        # wire form
        ts = _Timestamp.from_datetime(dt)
        assert type(ts) is _Timestamp
        assert (ts.seconds, ts.nanos) == ref_seconds_nanos(dt), dt
        assert type(ts.seconds) is int and type(ts.nanos) is int
        assert 0 <= ts.nanos < 10**9
        assert ts.to_datetime() == dt
        if dt.utcoffset().microseconds == 0:
            # google.protobuf agrees (it does not cope with sub-second UTC offsets)
            pb = timestamp_pb2.Timestamp()
            pb.FromDatetime(dt)
            assert (pb.seconds, pb.nanos) == (ts.seconds, ts.nanos), dt
            assert bytes(ts) == pb.SerializeToString(), dt
            assert pb.ToJsonString() == got, (dt, pb.ToJsonString(), got)
    # a naive datetime cannot be put on the wire
    for bad in (datetime(2020, 1, 1), datetime(1970, 1, 1)):
        try:
            _Timestamp.from_datetime(bad)
        except TypeError:
            pass
        else:
            raise AssertionError("naive datetime accepted")


# ------------------------------------------------------------------------- durations
def interesting_deltas():
    out = [
        timedelta(0),
        timedelta(microseconds=1),
        timedelta(microseconds=-1),
        timedelta(microseconds=999),
        timedelta(microseconds=1000),
        timedelta(microseconds=-1000),
        timedelta(microseconds=999999),
        timedelta(microseconds=-999999),
        timedelta(seconds=1),
        timedelta(seconds=-1),
        timedelta(seconds=-1, microseconds=500000),
        timedelta(seconds=1, microseconds=-500000),
        timedelta(milliseconds=1500),
        timedelta(milliseconds=-1500),
        timedelta(microseconds=100),  # 1e-4 s: str(float) would print 0.0001
        timedelta(microseconds=10),  # 1e-5 s: str(float) would print 1e-05
        timedelta(days=3652500),
        timedelta(days=-3652500),
        timedelta.max,
        timedelta.min,
        timedelta.resolution,
        timedelta(microseconds=2**53 + 1),
        timedelta(microseconds=-(2**53) - 1),
    ]
    top = timedelta.max // timedelta(microseconds=1)
    for _ in range(20000):
        scale = rnd.choice([10**3, 10**6, 10**9, 10**12, 10**15, top])
        us = rnd.randrange(-scale, scale)
        which = rnd.random()
        if which < 0.3:
            us = us // 10**6 * 10**6
        elif which < 0.6:
            us = us // 1000 * 1000
        out.append(timedelta(microseconds=us))
    return out


def test_durations():
    global CHECKS
    for td in interesting_deltas():
        CHECKS += 1
        got = _Duration.delta_to_json(td)
        assert got == ref_duration_json(td), (td, got)
        assert got.endswith("s") and len(got.split(".")[1]) in (4, 7), got
        # parsing the string gives the value back
        assert _Duration.delta_from_json(got) == td, (td, got)
        d = _Duration.from_timedelta(td)
        assert type(d) is _Duration
        assert (d.seconds, d.nanos) == ref_duration_seconds_nanos(td), td
        assert d.to_timedelta() == td
        if abs(d.seconds) > 315576000000:
            continue  # google.protobuf limits durations to about 10000 years
        pb = duration_pb2.Duration()
        pb.FromTimedelta(td)
        assert (pb.seconds, pb.nanos) == (d.seconds, d.nanos), td
        assert bytes(d) == pb.SerializeToString(), td
        # google reads our JSON string as the same duration
        back = duration_pb2.Duration()
        back.FromJsonString(got)
        assert (back.seconds, back.nanos) == (d.seconds, d.nanos), (td, got)


# ------------------------------------------------------------------- whole messages
@dataclass(eq=False, repr=False)
class Event(betterproto.Message):
    name: str = betterproto.string_field(1)
    at: datetime = betterproto.message_field(2)
    took: timedelta = betterproto.message_field(3)
    seen: List[datetime] = betterproto.message_field(4)
    laps: List[timedelta] = betterproto.message_field(5)
    marks: Dict[str, datetime] = betterproto.map_field(
        6, betterproto.TYPE_STRING, betterproto.TYPE_MESSAGE
    )
    waits: Dict[int, timedelta] = betterproto.map_field(
        7, betterproto.TYPE_INT32, betterproto.TYPE_MESSAGE
    )
    until: Optional[datetime] = betterproto.message_field(8, optional=True)
    grace: Optional[timedelta] = betterproto.message_field(9, optional=True)
    start: datetime = betterproto.message_field(10, group="when")
    delay: timedelta = betterproto.message_field(11, group="when")


def rand_dt():
    us = rnd.randrange(-(10**16), 2 * 10**17)
    which = rnd.random()
    if which < 0.3:
        us = us // 10**6 * 10**6
    elif which < 0.6:
        us = us // 1000 * 1000
    return rnd.choice([EPOCH, EPOCH + timedelta(microseconds=us)])


def rand_td():
    us = rnd.randrange(-(10**15), 10**15)
    which = rnd.random()
    if which < 0.3:
        us = us // 10**6 * 10**6
    elif which < 0.6:
        us = us // 1000 * 1000
    return rnd.choice([timedelta(0), timedelta(microseconds=us)])


def rand_event():
    kw = {}
    if rnd.random() < 0.5:
        kw["name"] = rnd.choice(["", "e"])
    if rnd.random() < 0.6:
        kw["at"] = rand_dt()
    if rnd.random() < 0.6:
        kw["took"] = rand_td()
    if rnd.random() < 0.5:
        kw["seen"] = [rand_dt() for _ in range(rnd.randrange(4))]
    if rnd.random() < 0.5:
        kw["laps"] = [rand_td() for _ in range(rnd.randrange(4))]
    if rnd.random() < 0.5:
        kw["marks"] = {rnd.choice(["", "a", "b"]): rand_dt() for _ in range(rnd.randrange(3))}
    if rnd.random() < 0.5:
        kw["waits"] = {rnd.randrange(-3, 4): rand_td() for _ in range(rnd.randrange(3))}
    if rnd.random() < 0.5:
        kw["until"] = rnd.choice([None, rand_dt()])
    if rnd.random() < 0.5:
        kw["grace"] = rnd.choice([None, rand_td()])
    pick = rnd.choice([None, "start", "delay"])
    if pick == "start":
        kw["start"] = rand_dt()
    elif pick == "delay":
        kw["delay"] = rand_td()
    return Event(**kw)


def expected_dict(m):
    """to_dict() of an Event, spelled out with the reference string formats."""
    out = {}
    raw = m.__dict__
    unset = betterproto.PLACEHOLDER
    if raw["name"] not in (unset, ""):
        out["name"] = raw["name"]
    if raw["at"] is not unset and raw["at"] != EPOCH:
        out["at"] = ref_timestamp_json(raw["at"])
    if raw["took"] is not unset and raw["took"] != timedelta(0):
        out["took"] = ref_duration_json(raw["took"])
    if raw["seen"] is not unset and raw["seen"]:
        out["seen"] = [ref_timestamp_json(x) for x in raw["seen"]]
    if raw["laps"] is not unset and raw["laps"]:
        out["laps"] = [ref_duration_json(x) for x in raw["laps"]]
    if raw["marks"] is not unset and raw["marks"]:
        out["marks"] = {k: ref_timestamp_json(v) for k, v in raw["marks"].items()}
    if raw["waits"] is not unset and raw["waits"]:
        out["waits"] = {k: ref_duration_json(v) for k, v in raw["waits"].items()}
    if raw["until"] not in (unset, None):
        out["until"] = ref_timestamp_json(raw["until"])
    if raw["grace"] not in (unset, None):
        out["grace"] = ref_duration_json(raw["grace"])
    which = betterproto.which_one_of(m, "when")[0]
    if which == "start":
        out["start"] = ref_timestamp_json(raw["start"])
    elif which == "delay":
        out["delay"] = ref_duration_json(raw["delay"])
    return out


def test_messages():
    global CHECKS
    for _ in range(1500):
        m = rand_event()
        CHECKS += 1
        data = bytes(m)
        assert len(m) == len(data)
        d = m.to_dict()
        assert d == expected_dict(m), (d, expected_dict(m))
        js = m.to_json()
        assert json.loads(js) == {
            k: ({str(kk): vv for kk, vv in v.items()} if isinstance(v, dict) else v)
            for k, v in d.items()
        }
        # observers changed nothing
        assert bytes(m) == data
        # JSON and wire round trips agree with the original
        assert Event().from_dict(d) == m
        assert Event().from_json(js) == m
        assert bytes(Event().from_dict(d)) == data
        parsed = Event().parse(data)
        assert parsed == m and bytes(parsed) == data
        assert parsed.to_dict() == d
        for c in (copy.copy(m), copy.deepcopy(m), pickle.loads(pickle.dumps(m))):
            assert c == m
            assert bytes(c) == data
            assert c.to_dict() == d
            assert betterproto.which_one_of(c, "when")[0] == betterproto.which_one_of(m, "when")[0]
        # with defaults included every field shows up, in the reference format
        full = m.to_dict(include_default_values=True)
        at = m.__dict__["at"]
        assert full["at"] == ref_timestamp_json(EPOCH if at is betterproto.PLACEHOLDER else at)
        took = m.__dict__["took"]
        assert full["took"] == ref_duration_json(
            timedelta(0) if took is betterproto.PLACEHOLDER else took
        )
        assert bytes(m) == data


def main():
    test_timestamp_json_every_microsecond()
    test_timestamps()
    test_durations()
    test_messages()
    print(f"keep2 equiv: OK ({CHECKS} checks)")


if __name__ == "__main__":
    main()
