"""C07 keep1: dict / JSON loading (Message._from_dict_init, from_dict, from_json).

Exercises the conversion of every kind of JSON value to its Python value, for
singular and repeated fields, oneof members, maps, wrappers, timestamps and
durations, with both spellings of the keys, with ``None`` and unknown keys, and
the error paths; compares the outcome with hard-coded expectations and with
google.protobuf's json_format; then runs random histories of operations on a
message with several oneof groups and checks oneof exclusivity after each step.
"""

import copy
import json
import math
import pickle
import random
from dataclasses import dataclass
from datetime import datetime, timedelta, timezone
from typing import Dict, List, Optional

import betterproto
from google.protobuf import descriptor_pb2, descriptor_pool, json_format, message_factory


class Color(betterproto.Enum):
    NONE = 0
    RED = 1
    BLUE = 2


@dataclass(eq=False, repr=False)
class Sub(betterproto.Message):
    v: int = betterproto.int32_field(1)
    name: str = betterproto.string_field(2, group="which")
    num: int = betterproto.int64_field(3, group="which")


@dataclass(eq=False, repr=False)
class Big(betterproto.Message):
    # group "a": scalars, group "b": string / enum / message, group "c": 64-bit, bytes, float
    a_int: int = betterproto.int32_field(1, group="a")
    a_flag: bool = betterproto.bool_field(2, group="a")
    a_uint: int = betterproto.uint32_field(3, group="a")
    b_str: str = betterproto.string_field(4, group="b")
    b_color: Color = betterproto.enum_field(5, group="b")
    b_sub: Sub = betterproto.message_field(6, group="b")
    c_long: int = betterproto.int64_field(7, group="c")
    c_bytes: bytes = betterproto.bytes_field(8, group="c")
    c_double: float = betterproto.double_field(9, group="c")
    c_fixed: int = betterproto.fixed64_field(10, group="c")
    plain: int = betterproto.int32_field(11)
    text: str = betterproto.string_field(12)
    ints: List[int] = betterproto.int32_field(13)
    longs: List[int] = betterproto.sint64_field(14)
    colors: List[Color] = betterproto.enum_field(15)
    subs: List[Sub] = betterproto.message_field(16)
    blobs: List[bytes] = betterproto.bytes_field(17)
    floats: List[float] = betterproto.float_field(18)
    color: Color = betterproto.enum_field(19)
    child: Sub = betterproto.message_field(20)
    ulong: int = betterproto.uint64_field(21)
    ratio: float = betterproto.float_field(22)


@dataclass(eq=False, repr=False)
class Extras(betterproto.Message):
    when: datetime = betterproto.message_field(1)
    span: timedelta = betterproto.message_field(2)
    whens: List[datetime] = betterproto.message_field(3)
    spans: List[timedelta] = betterproto.message_field(4)
    maybe_long: Optional[int] = betterproto.message_field(5, wraps=betterproto.TYPE_INT64)
    maybe_bytes: Optional[bytes] = betterproto.message_field(6, wraps=betterproto.TYPE_BYTES)
    maybe_flag: Optional[bool] = betterproto.message_field(7, wraps=betterproto.TYPE_BOOL)
    by_name: Dict[str, int] = betterproto.map_field(8, betterproto.TYPE_STRING, betterproto.TYPE_INT64)
    by_id: Dict[int, Sub] = betterproto.map_field(9, betterproto.TYPE_INT32, betterproto.TYPE_MESSAGE)
    by_flag: Dict[bool, Color] = betterproto.map_field(10, betterproto.TYPE_BOOL, betterproto.TYPE_ENUM)
    by_when: Dict[str, datetime] = betterproto.map_field(11, betterproto.TYPE_STRING, betterproto.TYPE_MESSAGE)
    by_span: Dict[str, timedelta] = betterproto.map_field(12, betterproto.TYPE_STRING, betterproto.TYPE_MESSAGE)
    by_blob: Dict[str, bytes] = betterproto.map_field(13, betterproto.TYPE_STRING, betterproto.TYPE_BYTES)
    opt_color: Optional[Color] = betterproto.enum_field(14, optional=True, group="_opt_color")
    opt_long: Optional[int] = betterproto.int64_field(15, optional=True, group="_opt_long")
    t_when: datetime = betterproto.message_field(16, group="t")
    t_span: timedelta = betterproto.message_field(17, group="t")
    t_wrapped: Optional[int] = betterproto.message_field(18, wraps=betterproto.TYPE_UINT64, group="t")


def raw(m, name):
    return object.__getattribute__(m, name)


def loaders(cls):
    """The three ways a dict gets into a message: class call, fresh instance, JSON text."""
    return [
        lambda d: cls.from_dict(d),
        lambda d: cls().from_dict(d),
        lambda d: cls().from_json(json.dumps(d)),
    ]


# --------------------------------------------------------------------------
def check_conversions():
    cases = [
        # key, JSON value, field, expected python value
        ("aInt", 0, "a_int", 0),
        ("aInt", -5, "a_int", -5),
        ("a_int", 7, "a_int", 7),
        ("aFlag", False, "a_flag", False),
        ("aFlag", True, "a_flag", True),
        ("aUint", 4294967295, "a_uint", 4294967295),
        ("bStr", "", "b_str", ""),
        ("bStr", "héllo", "b_str", "héllo"),
        ("bColor", "NONE", "b_color", Color.NONE),
        ("bColor", "BLUE", "b_color", Color.BLUE),
        ("bColor", 0, "b_color", 0),
        ("bColor", 2, "b_color", 2),
        ("b_color", 7, "b_color", 7),
        ("cLong", "0", "c_long", 0),
        ("cLong", "-9223372036854775808", "c_long", -(2**63)),
        ("cLong", 12, "c_long", 12),
        ("cBytes", "", "c_bytes", b""),
        ("cBytes", "AAEC/w==", "c_bytes", b"\x00\x01\x02\xff"),
        ("cDouble", 0.0, "c_double", 0.0),
        ("cDouble", 1.5, "c_double", 1.5),
        ("cDouble", "Infinity", "c_double", math.inf),
        ("cDouble", "-Infinity", "c_double", -math.inf),
        ("cFixed", "18446744073709551615", "c_fixed", 2**64 - 1),
        ("plain", 3, "plain", 3),
        ("text", "t", "text", "t"),
        ("ints", [1, 0, -1], "ints", [1, 0, -1]),
        ("ints", [], "ints", []),
        ("longs", ["1", "-2", 3], "longs", [1, -2, 3]),
        ("colors", ["RED", 2, "NONE", 9], "colors", [Color.RED, 2, Color.NONE, 9]),
        ("colors", [], "colors", []),
        ("blobs", ["", "/w=="], "blobs", [b"", b"\xff"]),
        ("floats", [1, "Infinity", 0.25], "floats", [1.0, math.inf, 0.25]),
        ("color", "RED", "color", Color.RED),
        ("color", 1, "color", 1),
        ("ulong", "18446744073709551615", "ulong", 2**64 - 1),
        ("ratio", "-Infinity", "ratio", -math.inf),
        ("ratio", 2, "ratio", 2.0),
    ]
    for load in loaders(Big):
        for key, value, field, want in cases:
            m = load({key: value})
            got = getattr(m, field)
            assert got == want, (key, value, got, want)
            if isinstance(want, list):
                assert [type(x) for x in got] == [type(x) for x in want], (key, got)
            else:
                assert type(got) is type(want), (key, value, got, want)
            group = Big._betterproto.oneof_group_by_field.get(field)
            if group:
                assert betterproto.which_one_of(m, group) == (field, want)
        # NaN needs its own comparison
        m = load({"cDouble": "NaN", "floats": ["NaN"]})
        assert math.isnan(m.c_double) and math.isnan(m.floats[0])
        # enum strings really become members; ints stay what they were
        m = load({"colors": ["RED", 1], "bColor": "RED"})
        assert m.colors[0] is Color.RED and type(m.colors[1]) is int
        assert m.b_color is Color.RED
        # sub-messages, singular and repeated, with their own oneof
        m = load({"bSub": {}, "child": {"v": 3, "num": "0"}, "subs": [{}, {"name": ""}, {"v": 1}]})
        assert betterproto.which_one_of(m, "b")[0] == "b_sub"
        assert isinstance(m.b_sub, Sub) and bytes(m.b_sub) == b""
        assert m.child.v == 3 and betterproto.which_one_of(m.child, "which") == ("num", 0)
        assert [bytes(s) for s in m.subs] == [b"", b"\x12\x00", b"\x08\x01"]
        assert betterproto.which_one_of(m.subs[1], "which") == ("name", "")
        assert betterproto.which_one_of(m.subs[2], "which") == ("", None)
        # None and unknown keys are skipped
        m = load({"aInt": None, "bStr": None, "nope": 1, "alsoNope": {"x": 1}, "ints": None})
        assert bytes(m) == b""
        assert betterproto.which_one_of(m, "a") == ("", None)
        assert raw(m, "a_int") is betterproto.PLACEHOLDER
        m = load({})
        assert bytes(m) == b"" and m.to_dict() == {}

    # values that need no conversion are handed over as they are (same object)
    ints, text = [1, 2, 3], "some text"
    kwargs = Big._from_dict_init({"ints": ints, "text": text, "aInt": 5, "nope": 0, "plain": None})
    assert kwargs == {"ints": ints, "text": text, "a_int": 5}
    assert kwargs["ints"] is ints and kwargs["text"] is text
    assert list(kwargs) == ["ints", "text", "a_int"]
    # converted lists are new lists
    longs = ["1"]
    kwargs = Big._from_dict_init({"longs": longs})
    assert kwargs == {"longs": [1]} and longs == ["1"]
    # order of the result follows the order of the mapping; a key given twice
    # in two spellings keeps the first position and the last value
    kwargs = Big._from_dict_init({"bStr": "x", "aInt": 1, "b_str": "y"})
    assert list(kwargs.items()) == [("b_str", "y"), ("a_int", 1)]

    # the list-or-single decision only looks at the value, not at the field
    kwargs = Big._from_dict_init(
        {"cLong": ["1", 2], "bColor": ["RED", 5], "cBytes": ["/w=="], "ratio": ["NaN"], "bSub": [{"v": 1}]}
    )
    assert kwargs["c_long"] == [1, 2] and kwargs["b_color"] == [Color.RED, 5]
    assert kwargs["c_bytes"] == [b"\xff"] and math.isnan(kwargs["ratio"][0])
    assert isinstance(kwargs["b_sub"], list) and kwargs["b_sub"][0].v == 1
    assert Big._from_dict_init({"ints": (1, 2)})["ints"] == (1, 2)

    # error paths
    for bad, exc in [
        ({"bColor": "PURPLE"}, ValueError),
        ({"colors": ["RED", "PURPLE"]}, ValueError),
        ({"cLong": "twelve"}, ValueError),
        ({"longs": ["1", "x"]}, ValueError),
        ({"cLong": {"x": 1}}, TypeError),
        ({"cBytes": "A"}, ValueError),
        ({"bSub": 5}, AttributeError),
        ({"subs": [5]}, AttributeError),
        ({"ratio": "fast"}, ValueError),
    ]:
        for load in loaders(Big)[:2]:
            before = Big(a_int=1)
            try:
                load(bad)
            except exc:
                pass
            else:
                raise AssertionError(f"{bad} was accepted")
            # an instance is not touched when the conversion fails
            try:
                before.from_dict(bad)
            except exc:
                pass
            assert bytes(before) == b"\x08\x01"


def check_extras():
    utc = timezone.utc
    for load in loaders(Extras):
        m = load(
            {
                "when": "2020-01-02T03:04:05Z",
                "span": "1.500s",
                "whens": ["1970-01-01T00:00:00Z", "2001-02-03T04:05:06.789Z"],
                "spans": ["0s", "-2.5s"],
                "maybeLong": "12",
                "maybeBytes": "/w==",
                "maybeFlag": False,
                "byName": {"a": "1", "b": 2},
                "byId": {"1": {"v": 1}, "2": {}},
                "byFlag": {"true": "RED", "false": 2},
                "byWhen": {"x": "1970-01-01T00:00:01Z"},
                "bySpan": {"y": "3s"},
                "byBlob": {"z": "AAE="},
                "optColor": "NONE",
                "optLong": "0",
            }
        )
        assert m.when == datetime(2020, 1, 2, 3, 4, 5, tzinfo=utc)
        assert m.span == timedelta(seconds=1.5)
        assert m.whens == [
            datetime(1970, 1, 1, tzinfo=utc),
            datetime(2001, 2, 3, 4, 5, 6, 789000, tzinfo=utc),
        ]
        assert m.spans == [timedelta(0), timedelta(seconds=-2.5)]
        assert m.maybe_long == 12 and type(m.maybe_long) is int
        assert m.maybe_bytes == b"\xff"
        assert m.maybe_flag is False
        assert m.by_name == {"a": 1, "b": 2}
        assert set(m.by_id) == {1, 2} and m.by_id[1].v == 1 and bytes(m.by_id[2]) == b""
        assert m.by_flag == {True: Color.RED, False: 2} and m.by_flag[True] is Color.RED
        assert m.by_when == {"x": datetime(1970, 1, 1, 0, 0, 1, tzinfo=utc)}
        assert m.by_span == {"y": timedelta(seconds=3)}
        assert m.by_blob == {"z": b"\x00\x01"}
        assert m.opt_color is Color.NONE and m.opt_long == 0
        assert betterproto.which_one_of(m, "_opt_color") == ("opt_color", Color.NONE)
        assert betterproto.which_one_of(m, "t") == ("", None)
        # oneof members of well-known types
        m = load({"tWhen": "1970-01-01T00:00:00Z"})
        assert betterproto.which_one_of(m, "t") == ("t_when", datetime(1970, 1, 1, tzinfo=utc))
        m = load({"tSpan": "0s"})
        assert betterproto.which_one_of(m, "t") == ("t_span", timedelta(0))
        m = load({"tWrapped": "0"})
        assert betterproto.which_one_of(m, "t") == ("t_wrapped", 0)
        m = load({"t_wrapped": "18446744073709551615", "maybeLong": None, "byName": {}})
        assert betterproto.which_one_of(m, "t") == ("t_wrapped", 2**64 - 1)
        assert m.maybe_long is None and m.by_name == {}
    # an empty map is passed on as an (empty) map, a None map not at all
    assert Extras._from_dict_init({"byName": {}, "byId": None}) == {"by_name": {}}
    for bad, exc in [
        ({"when": "not a date"}, ValueError),
        ({"spans": ["1s", "later"]}, ValueError),
        ({"byFlag": {"true": "PURPLE"}}, ValueError),
        ({"byId": {"one": {}}}, ValueError),
        ({"maybeLong": "x"}, ValueError),
    ]:
        try:
            Extras.from_dict(bad)
        except exc:
            pass
        else:
            raise AssertionError(f"{bad} was accepted")


# --------------------------------------------------------------------------
# google.protobuf as a reference for what a JSON document selects
def reference_class():
    F = descriptor_pb2.FieldDescriptorProto
    fd = descriptor_pb2.FileDescriptorProto(name="c07_keep1.proto", package="c07k1", syntax="proto3")
    color = fd.enum_type.add(name="Color")
    for name, number in [("NONE", 0), ("RED", 1), ("BLUE", 2)]:
        color.value.add(name=name, number=number)
    sub = fd.message_type.add(name="Sub")
    sub.oneof_decl.add(name="which")
    sub.field.add(name="v", number=1, type=F.TYPE_INT32, label=F.LABEL_OPTIONAL)
    sub.field.add(name="name", number=2, type=F.TYPE_STRING, label=F.LABEL_OPTIONAL, oneof_index=0)
    sub.field.add(name="num", number=3, type=F.TYPE_INT64, label=F.LABEL_OPTIONAL, oneof_index=0)
    big = fd.message_type.add(name="Big")
    for name in "abc":
        big.oneof_decl.add(name=name)
    spec = [
        ("a_int", 1, F.TYPE_INT32, 0, None),
        ("a_flag", 2, F.TYPE_BOOL, 0, None),
        ("a_uint", 3, F.TYPE_UINT32, 0, None),
        ("b_str", 4, F.TYPE_STRING, 1, None),
        ("b_color", 5, F.TYPE_ENUM, 1, ".c07k1.Color"),
        ("b_sub", 6, F.TYPE_MESSAGE, 1, ".c07k1.Sub"),
        ("c_long", 7, F.TYPE_INT64, 2, None),
        ("c_bytes", 8, F.TYPE_BYTES, 2, None),
        ("c_double", 9, F.TYPE_DOUBLE, 2, None),
        ("c_fixed", 10, F.TYPE_FIXED64, 2, None),
        ("plain", 11, F.TYPE_INT32, None, None),
        ("text", 12, F.TYPE_STRING, None, None),
    ]
    for name, number, ftype, oneof, type_name in spec:
        field = big.field.add(name=name, number=number, type=ftype, label=F.LABEL_OPTIONAL)
        if oneof is not None:
            field.oneof_index = oneof
        if type_name:
            field.type_name = type_name
    pool = descriptor_pool.DescriptorPool()
    pool.Add(fd)
    return message_factory.GetMessageClass(pool.FindMessageTypeByName("c07k1.Big"))


def check_against_reference():
    RefBig = reference_class()
    values = {
        "aInt": [0, 1, -1, 2147483647],
        "aFlag": [False, True],
        "aUint": [0, 4294967295],
        "bStr": ["", "x", "héllo"],
        "bColor": ["NONE", "BLUE", 0, 1],
        "bSub": [{}, {"v": 2}, {"name": ""}, {"num": "0"}, {"v": 1, "num": "-5"}],
        "cLong": ["0", "-1", "9223372036854775807", 5],
        "cBytes": ["", "AAEC"],
        "cDouble": [0.0, -2.5, "Infinity"],
        "cFixed": ["0", "18446744073709551615"],
        "plain": [0, 9],
        "text": ["", "t"],
    }
    group_of = {"a": ["aInt", "aFlag", "aUint"], "b": ["bStr", "bColor", "bSub"], "c": ["cLong", "cBytes", "cDouble", "cFixed"]}
    rng = random.Random(11)
    docs = []
    for key, options in values.items():
        docs.extend({key: v} for v in options)
    for _ in range(400):
        doc = {}
        for members in group_of.values():
            if rng.random() < 0.7:
                key = rng.choice(members)
                doc[key] = rng.choice(values[key])
        for key in ("plain", "text"):
            if rng.random() < 0.5:
                doc[key] = rng.choice(values[key])
        items = list(doc.items())
        rng.shuffle(items)
        docs.append(dict(items))
    for doc in docs:
        ref = json_format.ParseDict(doc, RefBig())
        want = ref.SerializeToString(deterministic=True)
        for load in loaders(Big):
            m = load(doc)
            assert bytes(m) == want, (doc, bytes(m), want)
            for group in "abc":
                assert betterproto.which_one_of(m, group)[0] == (ref.WhichOneof(group) or ""), doc


# --------------------------------------------------------------------------
GROUPS = {
    "a": ["a_int", "a_flag", "a_uint"],
    "b": ["b_str", "b_color", "b_sub"],
    "c": ["c_long", "c_bytes", "c_double", "c_fixed"],
}
GROUP_OF = {n: g for g, ns in GROUPS.items() for n in ns}
NUMBER = {name: meta.number for name, meta in Big._betterproto.meta_by_field_name.items()}
NAME_OF = {v: k for k, v in NUMBER.items()}
VALUES = {
    "a_int": [0, 1, -1],
    "a_flag": [False, True],
    "a_uint": [0, 77],
    "b_str": ["", "x"],
    "b_color": [Color.NONE, Color.BLUE],
    "b_sub": [lambda: Sub(), lambda: Sub(v=4), lambda: Sub(name="")],
    "c_long": [0, -3, 2**40],
    "c_bytes": [b"", b"\x00\xff"],
    "c_double": [0.0, 2.5],
    "c_fixed": [0, 2**63],
    "plain": [0, 5],
}


def camel(name):
    head, *rest = name.split("_")
    return head + "".join(p.title() for p in rest)


def to_json_value(name, value):
    if name in ("c_long", "c_fixed"):
        return str(value)
    if name == "c_bytes":
        import base64

        return base64.b64encode(value).decode()
    if name == "b_color":
        return Color(value).name
    if name == "b_sub":
        return value.to_dict()
    return value


def pick(rng, name):
    value = rng.choice(VALUES[name])
    return value() if callable(value) else value


def top_level_numbers(data):
    pos, out = 0, []

    def varint(pos):
        shift = result = 0
        while True:
            b = data[pos]
            pos += 1
            result |= (b & 0x7F) << shift
            shift += 7
            if not b & 0x80:
                return result, pos

    while pos < len(data):
        key, pos = varint(pos)
        wire = key & 7
        if wire == 0:
            _, pos = varint(pos)
        elif wire == 1:
            pos += 8
        elif wire == 5:
            pos += 4
        else:
            size, pos = varint(pos)
            pos += size
        out.append(key >> 3)
    assert pos == len(data)
    return out


def check_state(m, model, trail):
    numbers = top_level_numbers(bytes(m))
    as_dict = m.to_dict()
    for group, members in GROUPS.items():
        selected = model[group]
        name, value = betterproto.which_one_of(m, group)
        assert name == (selected[0] if selected else ""), (trail, group, name)
        if selected and selected[0] != "b_sub":
            assert value == selected[1] and getattr(m, name) == selected[1], (trail, name, value)
        for other in members:
            if selected and other == selected[0]:
                continue
            try:
                getattr(m, other)
            except AttributeError:
                pass
            else:
                raise AssertionError((trail, f"reading {other} did not raise"))
        want_numbers = [NUMBER[selected[0]]] if selected else []
        assert [n for n in numbers if NAME_OF[n] in members] == want_numbers, (trail, group, numbers)
        want_keys = [camel(selected[0])] if selected else []
        assert [k for k in as_dict if k in {camel(x) for x in members}] == want_keys, (trail, as_dict)
    assert m.plain == model["plain"], trail


def random_doc(rng):
    chosen = {}
    for members in GROUPS.values():
        if rng.random() < 0.6:
            name = rng.choice(members)
            chosen[name] = pick(rng, name)
    if rng.random() < 0.4:
        chosen["plain"] = pick(rng, "plain")
    items = list(chosen.items())
    rng.shuffle(items)
    return dict(items)


def histories():
    rng = random.Random(2024)
    for _ in range(250):
        model = {"a": None, "b": None, "c": None, "plain": 0}

        def note(name, value):
            if name == "plain":
                model["plain"] = value
            else:
                model[GROUP_OF[name]] = (name, value)

        given = random_doc(rng)
        if rng.random() < 0.5:
            m = Big(**given)
            trail = [f"Big({sorted(given)})"]
        else:
            spell = camel if rng.random() < 0.5 else (lambda n: n)
            m = Big.from_dict({spell(k): to_json_value(k, v) for k, v in given.items()})
            trail = [f"Big.from_dict({sorted(given)})"]
        for k, v in given.items():
            note(k, v)
        check_state(m, model, trail)
        for _ in range(rng.randrange(1, 10)):
            op = rng.choice(["set", "from_dict", "from_dict", "from_json", "plain", "parse", "copy", "deepcopy", "pickle"])
            if op == "set":
                name = rng.choice(list(GROUP_OF))
                value = pick(rng, name)
                setattr(m, name, value)
                note(name, value)
                trail.append(f"{name}={value!r}")
            elif op in ("from_dict", "from_json"):
                given = random_doc(rng)
                spell = camel if rng.random() < 0.5 else (lambda n: n)
                doc = {spell(k): to_json_value(k, v) for k, v in given.items()}
                if rng.random() < 0.3:
                    doc["unknownKey"] = 1
                    absent = [n for n in GROUP_OF if n not in given]
                    doc[camel(rng.choice(absent))] = None
                result = m.from_dict(doc) if op == "from_dict" else m.from_json(json.dumps(doc))
                assert result is m
                for k, v in given.items():
                    note(k, v)
                trail.append(f"{op}({list(doc)})")
            elif op == "plain":
                value = pick(rng, "plain")
                m.plain = value
                note("plain", value)
                trail.append(f"plain={value}")
            elif op == "parse":
                other = Big(**random_doc(rng))
                data = bytes(other)
                m.parse(data)
                for n in top_level_numbers(data):
                    name = NAME_OF[n]
                    note(name, object.__getattribute__(other, name))
                trail.append("parse")
            else:
                m = {"copy": copy.copy, "deepcopy": copy.deepcopy, "pickle": lambda x: pickle.loads(pickle.dumps(x))}[op](m)
                trail.append(op)
            check_state(m, model, trail)


def main():
    check_conversions()
    check_extras()
    check_against_reference()
    histories()
    print("ok")


if __name__ == "__main__":
    main()
