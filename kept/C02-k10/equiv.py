"""C02 keep2 equivalence check: oneof bookkeeping of Message.__setattr__.

* state-level checks of what an assignment does to the group selection and to the
  other members (raw slots), for every member of several groups;
* betterproto -> google.protobuf: random assignment sequences are replayed on both
  implementations and the emitted bytes are decoded by the reference;
* google.protobuf -> betterproto: reference serializations are re-encoded by a small
  spec-level re-encoder (duplicated oneof members with last-one-wins, duplicated
  singular scalars, field permutation, non-minimal varints, interleaved unknown
  fields, packed / unpacked / chunked repeated scalars) and decoded by betterproto.
"""
import copy
import random
import struct
from dataclasses import dataclass
from datetime import datetime, timedelta, timezone
from typing import List, Optional

import betterproto
from betterproto import PLACEHOLDER
from google.protobuf import descriptor_pb2, descriptor_pool, message_factory, timestamp_pb2  # noqa: F401

UTC = timezone.utc
EPOCH = datetime(1970, 1, 1, tzinfo=UTC)
rnd = random.Random(20802)
F = descriptor_pb2.FieldDescriptorProto


# ------------------------------------------------------------------ betterproto schema
class Color(betterproto.Enum):
    ZERO = 0
    RED = 1
    NEG = -1


@dataclass(eq=False, repr=False)
class Sub(betterproto.Message):
    x: int = betterproto.int32_field(1)
    s: str = betterproto.string_field(2)


@dataclass(eq=False, repr=False)
class Empty(betterproto.Message):
    pass


@dataclass(eq=False, repr=False)
class O(betterproto.Message):
    plain: int = betterproto.int32_field(1)
    a_i32: int = betterproto.int32_field(2, group="a")
    a_str: str = betterproto.string_field(3, group="a")
    a_sub: Sub = betterproto.message_field(4, group="a")
    a_bool: bool = betterproto.bool_field(5, group="a")
    a_enum: Color = betterproto.enum_field(6, group="a")
    a_bytes: bytes = betterproto.bytes_field(7, group="a")
    b_s64: int = betterproto.sint64_field(8, group="b")
    b_dbl: float = betterproto.double_field(9, group="b")
    b_empty: Empty = betterproto.message_field(10, group="b")
    b_f32: int = betterproto.fixed32_field(11, group="b")
    tail: str = betterproto.string_field(12)
    nums: List[int] = betterproto.int32_field(13)
    opt: Optional[int] = betterproto.int32_field(14, optional=True)
    only: int = betterproto.uint64_field(15, group="single")
    b_ts: datetime = betterproto.message_field(16, group="b")
    inner: Sub = betterproto.message_field(17)


GROUPS = {
    "a": ["a_i32", "a_str", "a_sub", "a_bool", "a_enum", "a_bytes"],
    "b": ["b_s64", "b_dbl", "b_empty", "b_f32", "b_ts"],
    "single": ["only"],
}
GROUP_OF = {m: g for g, ms in GROUPS.items() for m in ms}
NON_ONEOF = ["plain", "tail", "nums", "opt", "inner"]


# ------------------------------------------------------------------ reference schema
def build_reference():
    fd = descriptor_pb2.FileDescriptorProto(
        name="c02_keep2_equiv.proto", package="c02k2", syntax="proto3",
        dependency=["google/protobuf/timestamp.proto"],
    )
    e = fd.enum_type.add(name="Color")
    e.value.add(name="ZERO", number=0)
    e.value.add(name="RED", number=1)
    e.value.add(name="NEG", number=-1)
    sub = fd.message_type.add(name="Sub")
    sub.field.add(name="x", number=1, type=F.TYPE_INT32, label=F.LABEL_OPTIONAL)
    sub.field.add(name="s", number=2, type=F.TYPE_STRING, label=F.LABEL_OPTIONAL)
    fd.message_type.add(name="Empty")
    o = fd.message_type.add(name="O")
    for g in ("a", "b", "single", "_opt"):
        o.oneof_decl.add(name=g)
    A, B, S, OPT = 0, 1, 2, 3

    def add(name, number, type_, **kw):
        o.field.add(name=name, number=number, type=type_, label=kw.pop("label", F.LABEL_OPTIONAL), **kw)

    add("plain", 1, F.TYPE_INT32)
    add("a_i32", 2, F.TYPE_INT32, oneof_index=A)
    add("a_str", 3, F.TYPE_STRING, oneof_index=A)
    add("a_sub", 4, F.TYPE_MESSAGE, type_name=".c02k2.Sub", oneof_index=A)
    add("a_bool", 5, F.TYPE_BOOL, oneof_index=A)
    add("a_enum", 6, F.TYPE_ENUM, type_name=".c02k2.Color", oneof_index=A)
    add("a_bytes", 7, F.TYPE_BYTES, oneof_index=A)
    add("b_s64", 8, F.TYPE_SINT64, oneof_index=B)
    add("b_dbl", 9, F.TYPE_DOUBLE, oneof_index=B)
    add("b_empty", 10, F.TYPE_MESSAGE, type_name=".c02k2.Empty", oneof_index=B)
    add("b_f32", 11, F.TYPE_FIXED32, oneof_index=B)
    add("tail", 12, F.TYPE_STRING)
    add("nums", 13, F.TYPE_INT32, label=F.LABEL_REPEATED)
    add("opt", 14, F.TYPE_INT32, oneof_index=OPT, proto3_optional=True)
    add("only", 15, F.TYPE_UINT64, oneof_index=S)
    add("b_ts", 16, F.TYPE_MESSAGE, type_name=".google.protobuf.Timestamp", oneof_index=B)
    add("inner", 17, F.TYPE_MESSAGE, type_name=".c02k2.Sub")
    pool = descriptor_pool.Default()
    pool.Add(fd)
    return message_factory.GetMessageClass(pool.FindMessageTypeByName("c02k2.O"))


RO = build_reference()

# ------------------------------------------------------------------ values
VALUES = {
    "a_i32": [0, 1, -1, 2**31 - 1, -(2**31), 300],
    "a_str": ["", "x", "héllo", "z" * 200],
    "a_sub": [(0, ""), (5, ""), (0, "q"), (-7, "sub")],
    "a_bool": [False, True],
    "a_enum": [0, 1, -1, 42],
    "a_bytes": [b"", b"\x00", b"\x08\x01", b"\xff" * 130],
    "b_s64": [0, 1, -1, 2**63 - 1, -(2**63)],
    "b_dbl": [0.0, 1.5, -2.5, 1e300, float("inf")],
    "b_empty": [()],
    "b_f32": [0, 1, 2**32 - 1],
    "b_ts": [EPOCH, EPOCH + timedelta(seconds=1, microseconds=5), EPOCH - timedelta(microseconds=1),
             datetime(2024, 2, 29, 1, 2, 3, 456789, tzinfo=UTC)],
    "only": [0, 1, 2**64 - 1],
    "plain": [0, 1, -5, 2**31 - 1],
    "tail": ["", "t", "tail" * 40],
    "opt": [None, 0, 1, -1],
}


def bp_value(name, v):
    if name == "a_sub":
        return Sub(x=v[0], s=v[1])
    if name == "b_empty":
        return Empty()
    if name == "a_enum":
        return Color.try_value(v)
    return v


def ref_assign(r, name, v):
    if name == "a_sub":
        r.a_sub.Clear()
        r.a_sub.SetInParent()
        r.a_sub.x, r.a_sub.s = v
    elif name == "b_empty":
        r.b_empty.SetInParent()
    elif name == "b_ts":
        r.b_ts.FromDatetime(v)
    elif name == "opt" and v is None:
        r.ClearField("opt")
    else:
        setattr(r, name, v)


def ref_view(r):
    v = {"plain": r.plain, "tail": r.tail, "nums": list(r.nums),
         "opt": r.opt if r.HasField("opt") else None,
         "inner": (r.inner.x, r.inner.s)}
    for g in GROUPS:
        which = r.WhichOneof(g)
        if which is None:
            v[g] = (None, None)
        elif which == "a_sub":
            v[g] = (which, (r.a_sub.x, r.a_sub.s))
        elif which == "b_empty":
            v[g] = (which, ())
        elif which == "b_ts":
            v[g] = (which, r.b_ts.ToDatetime(tzinfo=UTC))
        else:
            v[g] = (which, getattr(r, which))
    return v


def raw(m, name):
    return object.__getattribute__(m, name)


def bp_view(m):
    """View of a betterproto message + consistency of the oneof bookkeeping."""
    v = {"plain": m.plain, "tail": m.tail, "nums": list(m.nums), "opt": m.opt,
         "inner": (m.inner.x, m.inner.s)}
    assert set(m._group_current) == set(GROUPS)
    for g, members in GROUPS.items():
        which, val = betterproto.which_one_of(m, g)
        assert m._group_current[g] == (which or None)
        for name in members:
            if name == which:
                assert raw(m, name) is not PLACEHOLDER
                assert getattr(m, name) is val or getattr(m, name) == val
            else:
                # every other member is unset and unreadable
                assert raw(m, name) is PLACEHOLDER, (g, which, name, raw(m, name))
                try:
                    getattr(m, name)
                except AttributeError:
                    pass
                else:
                    raise AssertionError((g, which, name))
        if not which:
            v[g] = (None, None)
        elif which == "a_sub":
            v[g] = (which, (val.x, val.s))
        elif which == "b_empty":
            assert isinstance(val, Empty)
            v[g] = (which, ())
        elif which == "a_enum":
            assert isinstance(val, Color)
            v[g] = (which, int(val))
        else:
            v[g] = (which, val)
    return v


def same(a, b, ctx):
    assert a == b, (ctx, a, b)
    for g in GROUPS:  # bool vs int, etc.
        x, y = a[g][1], b[g][1]
        if isinstance(x, bool) or isinstance(y, bool):
            assert type(x) is type(y), (ctx, g, x, y)


# ------------------------------------------------------------------ 1. state-level checks
n = 0
for group, members in GROUPS.items():
    for first in members:
        for second in members:
            for v1 in VALUES[first]:
                for v2 in VALUES[second]:
                    m = O(plain=3)
                    before_other = {g: m._group_current[g] for g in GROUPS if g != group}
                    m._serialized_on_wire = False
                    setattr(m, first, bp_value(first, v1))
                    assert m._serialized_on_wire is True
                    assert m._group_current[group] == first
                    setattr(m, second, bp_value(second, v2))
                    assert m._group_current[group] == second
                    assert list(m._group_current) == list(GROUPS)  # key order untouched
                    for name in members:
                        if name != second:
                            assert raw(m, name) is PLACEHOLDER
                    got = raw(m, second)
                    exp = bp_value(second, v2)
                    assert got == exp and type(got) is type(exp)
                    # other groups and plain fields untouched
                    assert {g: m._group_current[g] for g in GROUPS if g != group} == before_other
                    assert m.plain == 3
                    bp_view(m)
                    n += 1
# assigning plain fields never touches a selection
m = O(a_str="keep", b_f32=9, only=0)
for name in NON_ONEOF:
    for val in ([1, 2] if name == "nums" else [Sub(x=1)] if name == "inner" else VALUES[name]):
        setattr(m, name, val)
        assert m._group_current == {"a": "a_str", "b": "b_f32", "single": "only"}
        assert (raw(m, "a_str"), raw(m, "b_f32"), raw(m, "only")) == ("keep", 9, 0)
# constructor / copies keep the bookkeeping
m = O(a_enum=Color.NEG, b_ts=EPOCH, opt=0, nums=[1, -1])
for c in (m, copy.copy(m), copy.deepcopy(m), O().parse(bytes(m)), O.FromString(bytes(m))):
    vw = bp_view(c)
    assert vw["a"] == ("a_enum", -1) and vw["b"] == ("b_ts", EPOCH) and vw["single"] == (None, None)
    assert vw["opt"] == 0 and vw["nums"] == [1, -1]
# a class without oneofs, and the private attributes, are unaffected
s = Sub()
s.x = 4
s._unknown_fields = b""
assert s.x == 4 and s._group_current == {}
print("state checks ok:", n)

# ------------------------------------------------------------------ 2. betterproto -> reference
n = 0
ALL_SETTABLE = [m_ for ms in GROUPS.values() for m_ in ms] + ["plain", "tail", "opt"]
for i in range(3000):
    bp, ref = O(), RO()
    for _ in range(rnd.randrange(0, 9)):
        name = ALL_SETTABLE[rnd.randrange(len(ALL_SETTABLE))]
        v = VALUES[name][rnd.randrange(len(VALUES[name]))]
        setattr(bp, name, bp_value(name, v))
        ref_assign(ref, name, v)
    if rnd.random() < 0.5:
        nums = [rnd.choice([0, 1, -1, 127, 128, 2**31 - 1, -(2**31)]) for _ in range(rnd.randrange(5))]
        bp.nums = nums
        ref.nums.extend(nums)
    expected = ref_view(ref)
    same(bp_view(bp), expected, ("state", i))
    data = bytes(bp)
    assert len(bp) == len(data)
    same(ref_view(RO.FromString(data)), expected, ("bp->ref", i))
    same(bp_view(O().parse(ref.SerializeToString())), expected, ("ref->bp", i))
    same(bp_view(O().parse(data)), expected, ("bp->bp", i))
    n += 1
print("assignment sequences ok:", n)


# ------------------------------------------------------------------ 3. spec-level re-encoder
def varint(v, pad=0):
    assert 0 <= v < 2**64
    out = bytearray()
    while True:
        b = v & 0x7F
        v >>= 7
        if v:
            out.append(b | 0x80)
        else:
            out.append(b)
            break
    if pad:
        pad = min(pad, 10 - len(out))
        if pad > 0:
            out[-1] |= 0x80
            out += b"\x80" * (pad - 1) + b"\x00"
    return bytes(out)


def read_varint(buf, pos):
    shift = result = 0
    while True:
        b = buf[pos]
        pos += 1
        result |= (b & 0x7F) << shift
        shift += 7
        if not b & 0x80:
            return result, pos


def records(buf):
    pos, out = 0, []
    while pos < len(buf):
        key, pos = read_varint(buf, pos)
        num, wt = key >> 3, key & 7
        if wt == 0:
            v, pos = read_varint(buf, pos)
        elif wt == 1:
            v, pos = buf[pos:pos + 8], pos + 8
        elif wt == 5:
            v, pos = buf[pos:pos + 4], pos + 4
        else:
            assert wt == 2
            ln, pos = read_varint(buf, pos)
            v, pos = buf[pos:pos + ln], pos + ln
        out.append((num, wt, v))
    return out


def emit(recs, pad=False):
    out = bytearray()
    for num, wt, v in recs:
        p = (lambda: rnd.randrange(0, 4)) if pad else (lambda: 0)
        key = num << 3 | wt
        # (a tag is a 32-bit varint: at most 5 bytes, padded or not)
        out += varint(key, min(p(), 2, 5 - len(varint(key))))
        if wt == 0:
            out += varint(v, p() * 2)
        elif wt == 2:
            out += varint(len(v), min(p(), 3)) + v
        else:
            out += v
    return bytes(out)


def zz(v):
    return (v << 1) ^ (v >> 63)


def u64(v):
    return v & (2**64 - 1)


def member_record(name, v):
    """Spec-level encoding of one oneof member occurrence."""
    num = O._betterproto.meta_by_field_name[name].number
    if name in ("a_i32", "a_enum"):
        return (num, 0, u64(v))
    if name == "a_bool":
        return (num, 0, int(v))
    if name == "only":
        return (num, 0, v)
    if name == "b_s64":
        return (num, 0, u64(zz(v)))
    if name == "a_str":
        return (num, 2, v.encode())
    if name == "a_bytes":
        return (num, 2, v)
    if name == "a_sub":
        body = b""
        if v[0]:
            body += varint(1 << 3) + varint(u64(v[0]))
        if v[1]:
            body += varint(2 << 3 | 2) + varint(len(v[1].encode())) + v[1].encode()
        return (num, 2, body)
    if name == "b_empty":
        return (num, 2, b"")
    if name == "b_dbl":
        return (num, 1, struct.pack("<d", v))
    if name == "b_f32":
        return (num, 5, struct.pack("<I", v))
    if name == "b_ts":
        us = (v - EPOCH) // timedelta(microseconds=1)
        sec, frac = us // 10**6, us % 10**6
        body = b""
        if sec:
            body += varint(1 << 3) + varint(u64(sec))
        if frac:
            body += varint(2 << 3) + varint(frac * 1000)
        return (num, 2, body)
    raise AssertionError(name)


UNKNOWN = [
    (100, 0, 7), (101, 2, b"unknown"), (102, 5, b"\x01\x02\x03\x04"), (103, 1, b"\x00" * 8),
    (536870911, 0, 1), (18, 2, b""), (19, 0, 2**64 - 1),
]

n = 0
for i in range(3000):
    # the message the reference holds
    ref = RO()
    chosen = {}
    for g, members in GROUPS.items():
        if rnd.random() < 0.8:
            name = members[rnd.randrange(len(members))]
            chosen[g] = (name, VALUES[name][rnd.randrange(len(VALUES[name]))])
            ref_assign(ref, *chosen[g])
    for name in ("plain", "tail", "opt"):
        ref_assign(ref, name, VALUES[name][rnd.randrange(len(VALUES[name]))])
    nums = [rnd.choice([0, 1, -1, 300, -(2**31)]) for _ in range(rnd.randrange(6))]
    ref.nums.extend(nums)
    if rnd.random() < 0.5:
        ref.inner.x = rnd.choice([1, -1, 77])
    expected = ref_view(ref)
    recs = records(ref.SerializeToString())
    assert emit(recs) == ref.SerializeToString()

    # duplicated oneof members: earlier occurrences (other members or other values of
    # the same member) are inserted somewhere BEFORE the genuine, last occurrence
    out = []
    for rec in recs:
        name = O._betterproto.field_name_by_number.get(rec[0])
        if name in GROUP_OF:
            g = GROUP_OF[name]
            for _ in range(rnd.randrange(0, 4)):
                other = GROUPS[g][rnd.randrange(len(GROUPS[g]))]
                ov = VALUES[other][rnd.randrange(len(VALUES[other]))]
                out.insert(rnd.randrange(len(out) + 1), member_record(other, ov))
        elif name in ("plain", "opt") and rnd.random() < 0.5:
            # duplicated singular scalar: last one wins
            out.insert(rnd.randrange(len(out) + 1), (rec[0], 0, rnd.choice([0, 9, u64(-9)])))
        if name == "nums" and rec[1] == 2 and rnd.random() < 0.7:
            # packed run -> unpacked elements or several chunks
            elems, pos = [], 0
            while pos < len(rec[2]):
                e, pos = read_varint(rec[2], pos)
                elems.append(e)
            if rnd.random() < 0.5:
                out.extend((13, 0, e) for e in elems)
            else:
                cut = rnd.randrange(len(elems) + 1)
                out.append((13, 2, b"".join(varint(e, rnd.randrange(3)) for e in elems[:cut])))
                out.append((13, 2, b"".join(varint(e) for e in elems[cut:])))
            continue
        out.append(rec)
    # Repeated occurrences of the same MESSAGE-typed member are merged by the reference
    # (and that is not part of the property): drop an earlier message-typed occurrence
    # when the next record of its group is the same member.
    MESSAGE_MEMBERS = {4, 10, 16}
    kept = []
    for idx, rec in enumerate(out):
        name = O._betterproto.field_name_by_number.get(rec[0])
        if rec[0] in MESSAGE_MEMBERS:
            nxt = next((r for r in out[idx + 1:]
                        if GROUP_OF.get(O._betterproto.field_name_by_number.get(r[0])) == GROUP_OF[name]), None)
            if nxt is not None and nxt[0] == rec[0]:
                continue
        kept.append(rec)
    out = kept
    # permutation that keeps the relative order of (a) records of the same oneof group
    # and (b) records of the same field number
    def lane(rec):
        name = O._betterproto.field_name_by_number.get(rec[0])
        return GROUP_OF.get(name, rec[0])
    lanes = {}
    for rec in out:
        lanes.setdefault(lane(rec), []).append(rec)
    order = [k for k, rs in lanes.items() for _ in rs]
    rnd.shuffle(order)
    its = {k: iter(rs) for k, rs in lanes.items()}
    shuffled = [next(its[k]) for k in order]
    # interleaved unknown fields
    for _ in range(rnd.randrange(0, 4)):
        shuffled.insert(rnd.randrange(len(shuffled) + 1), UNKNOWN[rnd.randrange(len(UNKNOWN))])
    data = emit(shuffled, pad=rnd.random() < 0.5)

    # the reference itself reads the re-encoding as the same message ...
    same(ref_view(RO.FromString(data)), expected, ("re-encoder sanity", i))
    # ... and so does betterproto
    got = O().parse(data)
    same(bp_view(got), expected, ("ref->bp re-encoded", i))
    # what betterproto then writes is read back identically by the reference
    same(ref_view(RO.FromString(bytes(got))), expected, ("re-encoded bp->ref", i))
    n += 1
print("re-encoded decodes ok:", n)
print("ALL OK")
