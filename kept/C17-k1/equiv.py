"""Exercises decoding of packed repeated fields (Message.load's packed branch) for
every packable type: well-formed runs, several runs for one field, runs mixed with
unpacked occurrences, empty runs, runs whose length is not a multiple of the element
width, runs ending inside a varint, random payloads.  Results are compared with an
independent reference decoder written here and with google.protobuf.
"""
import io
import math
import random
import struct
from dataclasses import dataclass
from typing import List

import betterproto
from google.protobuf import descriptor_pb2, descriptor_pool, message_factory
from google.protobuf.message import DecodeError


class Color(betterproto.Enum):
    ZERO = 0
    ONE = 1
    NEG = -1


@dataclass(eq=False, repr=False)
class P(betterproto.Message):
    f_int32: List[int] = betterproto.int32_field(1)
    f_int64: List[int] = betterproto.int64_field(2)
    f_uint32: List[int] = betterproto.uint32_field(3)
    f_uint64: List[int] = betterproto.uint64_field(4)
    f_sint32: List[int] = betterproto.sint32_field(5)
    f_sint64: List[int] = betterproto.sint64_field(6)
    f_bool: List[bool] = betterproto.bool_field(7)
    f_enum: List[Color] = betterproto.enum_field(8)
    f_fixed32: List[int] = betterproto.fixed32_field(9)
    f_sfixed32: List[int] = betterproto.sfixed32_field(10)
    f_float: List[float] = betterproto.float_field(11)
    f_fixed64: List[int] = betterproto.fixed64_field(12)
    f_sfixed64: List[int] = betterproto.sfixed64_field(13)
    f_double: List[float] = betterproto.double_field(14)
    # singular scalars: a length-delimited occurrence is NOT a packed run
    s_int32: int = betterproto.int32_field(20)
    s_fixed32: int = betterproto.fixed32_field(21)
    s_double: float = betterproto.double_field(22)


KINDS = {
    # name: (number, element kind, struct fmt / varint flavour)
    "f_int32": (1, "varint", "int32"),
    "f_int64": (2, "varint", "int64"),
    "f_uint32": (3, "varint", "uint32"),
    "f_uint64": (4, "varint", "uint64"),
    "f_sint32": (5, "varint", "sint32"),
    "f_sint64": (6, "varint", "sint64"),
    "f_bool": (7, "varint", "bool"),
    "f_enum": (8, "varint", "enum"),
    "f_fixed32": (9, "fixed", "<I"),
    "f_sfixed32": (10, "fixed", "<i"),
    "f_float": (11, "fixed", "<f"),
    "f_fixed64": (12, "fixed", "<Q"),
    "f_sfixed64": (13, "fixed", "<q"),
    "f_double": (14, "fixed", "<d"),
}


# ---------------------------------------------------------------- google side
def _google_class():
    F = descriptor_pb2.FieldDescriptorProto
    fdp = descriptor_pb2.FileDescriptorProto(
        name="c17_keep1.proto", package="c17k1", syntax="proto3"
    )
    en = fdp.enum_type.add(name="Color")
    en.value.add(name="ZERO", number=0)
    en.value.add(name="ONE", number=1)
    en.value.add(name="NEG", number=-1)
    m = fdp.message_type.add(name="P")
    types = {
        "f_int32": F.TYPE_INT32, "f_int64": F.TYPE_INT64, "f_uint32": F.TYPE_UINT32,
        "f_uint64": F.TYPE_UINT64, "f_sint32": F.TYPE_SINT32, "f_sint64": F.TYPE_SINT64,
        "f_bool": F.TYPE_BOOL, "f_enum": F.TYPE_ENUM, "f_fixed32": F.TYPE_FIXED32,
        "f_sfixed32": F.TYPE_SFIXED32, "f_float": F.TYPE_FLOAT, "f_fixed64": F.TYPE_FIXED64,
        "f_sfixed64": F.TYPE_SFIXED64, "f_double": F.TYPE_DOUBLE,
    }  # fmt: skip
    for name, (number, _, _) in KINDS.items():
        f = m.field.add(
            name=name, number=number, type=types[name], label=F.LABEL_REPEATED
        )
        if name == "f_enum":
            f.type_name = ".c17k1.Color"
    m.field.add(name="s_int32", number=20, type=F.TYPE_INT32, label=F.LABEL_OPTIONAL)
    m.field.add(name="s_fixed32", number=21, type=F.TYPE_FIXED32, label=F.LABEL_OPTIONAL)
    m.field.add(name="s_double", number=22, type=F.TYPE_DOUBLE, label=F.LABEL_OPTIONAL)
    pool = descriptor_pool.DescriptorPool()
    pool.Add(fdp)
    return message_factory.GetMessageClass(pool.FindMessageTypeByName("c17k1.P"))


GP = _google_class()


def google_parse(data):
    g = GP()
    try:
        g.ParseFromString(data)
    except DecodeError:
        return None
    return g


# ------------------------------------------------------------ reference side
def varint(n):
    out = bytearray()
    while True:
        b = n & 0x7F
        n >>= 7
        if n:
            out.append(b | 0x80)
        else:
            out.append(b)
            return bytes(out)


def tag(number, wire):
    return varint(number << 3 | wire)


def ref_varint(buf, pos):
    """(value, newpos) or raises; at most 10 bytes."""
    result = 0
    for k in range(10):
        if pos >= len(buf):
            raise EOFError
        b = buf[pos]
        pos += 1
        result |= (b & 0x7F) << (7 * k)
        if not b & 0x80:
            return result, pos
    raise ValueError


def ref_convert(flavour, v):
    if flavour in ("int32", "enum"):
        v &= 0xFFFFFFFF
        v = v - (1 << 32) if v >= 1 << 31 else v
        return Color.try_value(v) if flavour == "enum" else v
    if flavour == "int64":
        v &= (1 << 64) - 1
        return v - (1 << 64) if v >= 1 << 63 else v
    if flavour in ("sint32", "sint64"):
        return (v >> 1) ^ -(v & 1)
    if flavour == "bool":
        return v > 0
    return v


def ref_packed(name, payload):
    """Independent decoder of one packed run: list of values, or raises."""
    _, kind, how = KINDS[name]
    out = []
    if kind == "fixed":
        width = struct.calcsize(how)
        if len(payload) % width:
            raise ValueError("bad packed length")
        for (v,) in struct.iter_unpack(how, payload):
            out.append(v)
        return out
    pos = 0
    while pos < len(payload):
        v, pos = ref_varint(payload, pos)
        out.append(ref_convert(how, v))
    return out


def same(a, b):
    if len(a) != len(b):
        return False
    for x, y in zip(a, b):
        if type(x) is not type(y) and not (
            isinstance(x, betterproto.Enum) and isinstance(y, betterproto.Enum)
        ):
            return False
        if isinstance(x, float):
            if struct.pack("<d", x) != struct.pack("<d", y):
                return False
        elif x != y:
            return False
    return True


def bp_parse(data):
    try:
        return P().parse(data)
    except Exception as e:  # noqa
        return e


def check_types(msg):
    for name, (_, kind, how) in KINDS.items():
        lst = getattr(msg, name)
        assert type(lst) is list, (name, lst)
        for v in lst:
            if how in ("<f", "<d"):
                assert type(v) is float, (name, v)
            elif how == "bool":
                assert type(v) is bool, (name, v)
            elif how == "enum":
                assert isinstance(v, Color), (name, v)
            else:
                assert type(v) is int, (name, v)
    assert type(msg.s_int32) is int
    assert type(msg.s_fixed32) is int
    assert type(msg.s_double) is float


def check_against_reference(name, runs, extra=b""):
    """``runs``: list of packed payloads for field ``name``, sent as separate
    length-delimited occurrences."""
    number = KINDS[name][0]
    data = b"".join(tag(number, 2) + varint(len(r)) + r for r in runs) + extra
    try:
        expected = []
        for r in runs:
            expected.extend(ref_packed(name, r))
    except Exception:
        expected = None
    got = bp_parse(data)
    if expected is None:
        assert isinstance(got, Exception), (name, runs, got)
        assert isinstance(got, (EOFError, ValueError, struct.error)), repr(got)
    else:
        assert not isinstance(got, Exception), (name, runs, got)
        assert same(getattr(got, name), expected), (name, runs, getattr(got, name))
        check_types(got)
        # nothing else was touched, and it can be encoded again
        for other in KINDS:
            if other != name:
                assert getattr(got, other) == [], (other, getattr(got, other))
        again = bp_parse(bytes(got))
        assert same(getattr(again, name), expected)
        # the stream API behaves the same
        via_load = P().load(io.BytesIO(data))
        assert same(getattr(via_load, name), expected)
    return data, expected, got


SAMPLES = {
    "int32": [0, 1, -1, 127, 128, 2**31 - 1, -(2**31), 300, -300],
    "int64": [0, 1, -1, 2**63 - 1, -(2**63), 2**31, -(2**31) - 1],
    "uint32": [0, 1, 127, 128, 16383, 16384, 2**32 - 1],
    "uint64": [0, 1, 2**32, 2**63, 2**64 - 1],
    "sint32": [0, 1, -1, 63, -64, 64, 2**31 - 1, -(2**31)],
    "sint64": [0, 1, -1, 2**63 - 1, -(2**63)],
    "bool": [True, False, True, True],
    "enum": [Color.ZERO, Color.ONE, Color.NEG, Color.try_value(77), Color.try_value(-5)],
    "<I": [0, 1, 2**32 - 1, 0xDEADBEEF],
    "<i": [0, 1, -1, 2**31 - 1, -(2**31)],
    "<f": [0.0, -0.0, 1.5, -2.25, math.inf, -math.inf, 3.4028234663852886e38],
    "<Q": [0, 1, 2**64 - 1, 2**63],
    "<q": [0, -1, 2**63 - 1, -(2**63)],
    "<d": [0.0, -0.0, 1.5, 1e308, 5e-324, math.inf, -math.inf],
}


def main():
    rnd = random.Random(1717)

    # 1. well-formed values: encode with betterproto (packed), decode, compare with
    #    google on the same bytes, in both directions.
    for name, (number, kind, how) in KINDS.items():
        values = SAMPLES[how]
        for n in range(len(values) + 1):
            for vals in (values[:n], values[n:], list(reversed(values))[:n]):
                m = P(**{name: list(vals)})
                data = bytes(m)
                back = P().parse(data)
                assert same(getattr(back, name), list(vals)), (name, vals)
                check_types(back)
                g = google_parse(data)
                assert g is not None
                gvals = list(getattr(g, name))
                assert len(gvals) == len(vals)
                for gv, v in zip(gvals, vals):
                    if isinstance(v, float):
                        assert struct.pack("<d", gv) == struct.pack("<d", v)
                    else:
                        assert gv == int(v), (name, gv, v)
                assert g.SerializeToString() == data
                # and google's own output decodes to the same thing
                assert bytes(P().parse(g.SerializeToString())) == data

    # NaN elements survive packed decoding
    for name, how in (("f_float", "<f"), ("f_double", "<d")):
        payload = struct.pack(how, math.nan) + struct.pack(how, 1.0)
        data = tag(KINDS[name][0], 2) + varint(len(payload)) + payload
        vals = getattr(P().parse(data), name)
        assert len(vals) == 2 and math.isnan(vals[0]) and vals[1] == 1.0

    # 2. one field sent as several packed runs and as a mix of packed runs and
    #    single (unpacked) occurrences: everything is concatenated in order
    for name, (number, kind, how) in KINDS.items():
        values = SAMPLES[how]
        whole = bytes(P(**{name: list(values)}))
        half = len(values) // 2
        split = bytes(P(**{name: list(values[:half])})) + bytes(
            P(**{name: list(values[half:])})
        )
        assert same(getattr(P().parse(split), name), list(values))
        assert bytes(P().parse(split)) == whole
        # unpacked singles
        wire = 0 if kind == "varint" else (5 if struct.calcsize(how) == 4 else 1)
        singles = b""
        for v in values:
            one = bytes(P(**{name: [v]}))
            # strip tag + length of the one-element packed run
            t = tag(number, 2)
            assert one.startswith(t)
            payload = one[len(t) + 1 :]
            assert one[len(t)] == len(payload)
            singles += tag(number, wire) + payload
        assert same(getattr(P().parse(singles), name), list(values)), name
        mixed = singles + whole + singles
        assert same(getattr(P().parse(mixed), name), list(values) * 3), name
        g = google_parse(mixed)
        assert g is not None and len(getattr(g, name)) == 3 * len(values)
        assert g.SerializeToString() == bytes(P().parse(mixed))

    # 3. empty run: accepted, adds nothing
    for name, (number, _, _) in KINDS.items():
        data, expected, got = check_against_reference(name, [b""])
        assert expected == [] and bytes(got) == b""
        assert google_parse(data) is not None
        check_against_reference(name, [b"", b"", b""])

    # 4. malformed runs of fixed-width elements: every length 0..40, random bytes;
    #    lengths that are not a multiple of the width are rejected, as google does
    for name, (number, kind, how) in KINDS.items():
        if kind != "fixed":
            continue
        width = struct.calcsize(how)
        for length in range(0, 41):
            for _ in range(4):
                payload = bytes(rnd.randrange(256) for _ in range(length))
                data, expected, got = check_against_reference(name, [payload])
                g = google_parse(data)
                assert (expected is None) == (length % width != 0)
                assert (g is None) == (expected is None), (name, length)
                if expected is not None and how not in ("<f", "<d"):
                    assert list(getattr(g, name)) == expected
                # a good run followed by a bad one is rejected as a whole;
                # a bad run is not rescued by a following good one
                good = struct.pack(how, SAMPLES[how][1])
                check_against_reference(name, [good, payload])
                check_against_reference(name, [payload, good, good])

    # 5. malformed runs of varints: truncated last element, over-long varints,
    #    random bytes
    for name, (number, kind, how) in KINDS.items():
        if kind != "varint":
            continue
        good = b"".join(
            bytes(P(**{name: [v]}))[len(tag(number, 2)) + 1 :] for v in SAMPLES[how]
        )
        data, expected, got = check_against_reference(name, [good])
        assert same(expected, list(SAMPLES[how])), (name, expected)
        # cut the run at every position
        for cut in range(len(good) + 1):
            data, expected, got = check_against_reference(name, [good[:cut]])
            g = google_parse(data)
            assert (g is None) == (expected is None), (name, cut)
            check_against_reference(name, [good, good[:cut]])
        # continuation bit on the last byte / eleven-byte varint
        for bad in (b"\x80", b"\x01\x80", b"\xff" * 9 + b"\x01", b"\xff" * 10 + b"\x01",
                    b"\x80" * 9 + b"\x00", b"\x80" * 10 + b"\x00"):  # fmt: skip
            data, expected, got = check_against_reference(name, [bad])
            g = google_parse(data)
            assert (g is None) == (expected is None), (name, bad)
        for _ in range(300):
            payload = bytes(rnd.randrange(256) for _ in range(rnd.randrange(0, 24)))
            check_against_reference(name, [payload])
            check_against_reference(name, [payload, good])

    # 6. a length-delimited occurrence of a *singular* scalar is no packed run: it
    #    is kept as an unknown field and the field keeps its value
    for number, attr, payload in (
        (20, "s_int32", b"\x01\x02\x03"),
        (21, "s_fixed32", b"\x01\x00\x00\x00"),
        (22, "s_double", b"\x00" * 8),
        (21, "s_fixed32", b"\x01\x00\x00"),
    ):
        occ = tag(number, 2) + varint(len(payload)) + payload
        m = P().parse(occ)
        assert getattr(m, attr) == 0 and type(getattr(m, attr)) in (int, float)
        assert bytes(m) == occ
        check_types(m)
        pre = bytes(P(s_int32=5, s_fixed32=6, s_double=7.0))
        m = P().parse(pre + occ)
        assert (m.s_int32, m.s_fixed32, m.s_double) == (5, 6, 7.0)
        assert bytes(m) == pre + occ

    # 7. the packed run followed by other fields / unknown fields
    for name, (number, kind, how) in KINDS.items():
        payload = bytes(P(**{name: list(SAMPLES[how])}))
        unknown = tag(99, 0) + b"\x05" + tag(98, 2) + b"\x02hi"
        m = P().parse(payload + unknown + bytes(P(s_int32=9)))
        assert same(getattr(m, name), list(SAMPLES[how]))
        assert m.s_int32 == 9
        assert bytes(m) == payload + bytes(P(s_int32=9)) + unknown

    print("OK")


if __name__ == "__main__":
    main()
