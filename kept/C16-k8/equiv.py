"""C16 equivalence check for the field framing around the scalar codecs
(_serialize_single / _len_single: key varint + payload for each of the 15 scalar kinds).

Every scalar kind is serialized as a single-field message with small and large field
numbers and compared byte for byte with google.protobuf; _serialize_single/_len_single
are also called directly and compared with an independently assembled expectation,
including the empty length-delimited cases, packed/unpacked repeated fields, maps and
the NotImplementedError for an unknown type.
"""
import math
import random
import struct
from dataclasses import dataclass
from typing import Dict, List

import betterproto
from betterproto import _len_single, _serialize_single
from google.protobuf import descriptor_pb2, descriptor_pool, message_factory

MASK64 = (1 << 64) - 1
rng = random.Random(0xC162)
F = descriptor_pb2.FieldDescriptorProto


def ref_varint(value: int) -> bytes:
    assert -(1 << 63) <= value < (1 << 64)
    value &= MASK64
    out = bytearray()
    while value > 0x7F:
        out.append(0x80 | (value & 0x7F))
        value >>= 7
    out.append(value)
    return bytes(out)


def zigzag(v: int) -> int:
    return (v << 1) ^ (v >> 63)


# kind -> (google type, wire type, payload encoder, lo, hi)
INT_KINDS = {
    "int32": (F.TYPE_INT32, 0, ref_varint, -(1 << 31), (1 << 31) - 1),
    "int64": (F.TYPE_INT64, 0, ref_varint, -(1 << 63), (1 << 63) - 1),
    "uint32": (F.TYPE_UINT32, 0, ref_varint, 0, (1 << 32) - 1),
    "uint64": (F.TYPE_UINT64, 0, ref_varint, 0, (1 << 64) - 1),
    "sint32": (F.TYPE_SINT32, 0, lambda v: ref_varint(zigzag(v)), -(1 << 31), (1 << 31) - 1),
    "sint64": (F.TYPE_SINT64, 0, lambda v: ref_varint(zigzag(v)), -(1 << 63), (1 << 63) - 1),
    "fixed32": (F.TYPE_FIXED32, 5, lambda v: struct.pack("<I", v), 0, (1 << 32) - 1),
    "fixed64": (F.TYPE_FIXED64, 1, lambda v: struct.pack("<Q", v), 0, (1 << 64) - 1),
    "sfixed32": (F.TYPE_SFIXED32, 5, lambda v: struct.pack("<i", v), -(1 << 31), (1 << 31) - 1),
    "sfixed64": (F.TYPE_SFIXED64, 1, lambda v: struct.pack("<q", v), -(1 << 63), (1 << 63) - 1),
}
OTHER_KINDS = {
    "bool": (F.TYPE_BOOL, 0, lambda v: b"\x01" if v else b"\x00"),
    "float": (F.TYPE_FLOAT, 5, lambda v: struct.pack("<f", v)),
    "double": (F.TYPE_DOUBLE, 1, lambda v: struct.pack("<d", v)),
    "string": (F.TYPE_STRING, 2, lambda v: ref_varint(len(v.encode())) + v.encode()),
    "bytes": (F.TYPE_BYTES, 2, lambda v: ref_varint(len(v)) + v),
}
ALL = {k: v[:3] for k, v in INT_KINDS.items()}
ALL.update(OTHER_KINDS)
assert len(ALL) == 15

FIELD_NUMBERS = [1, 2, 15, 16, 2047, 2048, 262143, 262144, (1 << 29) - 1]


def values_for(kind: str) -> list:
    if kind in INT_KINDS:
        lo, hi = INT_KINDS[kind][3:]
        vals = {lo, lo + 1, hi - 1, hi, 0, 1, 2}
        if lo < 0:
            vals.update((-1, -2))
        for k in list(range(0, 65, 7)) + [31, 32, 63, 64]:
            for d in (-1, 0, 1):
                for base in ((1 << k), -(1 << k)):
                    if lo <= base + d <= hi:
                        vals.add(base + d)
        for _ in range(150):
            vals.add(rng.randrange(lo, hi + 1))
            vals.add(max(lo, min(hi, rng.getrandbits(rng.randrange(1, 65)) * rng.choice((1, -1)))))
        return sorted(vals)
    if kind == "bool":
        return [False, True]
    if kind == "float":
        f32 = lambda x: struct.unpack("<f", struct.pack("<f", x))[0]
        vals = [0.0, 1.0, -1.0, 0.5, 1.5, 3.4028234663852886e38, -3.4028234663852886e38,
                1.401298464324817e-45, 1.1754943508222875e-38, 0.1, -0.1, 16777217.0,
                math.inf, -math.inf]
        vals += [f32(rng.uniform(-1e6, 1e6)) for _ in range(100)]
        vals += [rng.uniform(-1e30, 1e30) for _ in range(100)]
        return vals
    if kind == "double":
        vals = [0.0, 1.0, -1.0, 0.1, 5e-324, 2.2250738585072014e-308, 1.7976931348623157e308,
                -1.7976931348623157e308, math.inf, -math.inf, math.pi]
        vals += [rng.uniform(-1e300, 1e300) for _ in range(100)]
        vals += [struct.unpack("<d", struct.pack("<Q", rng.getrandbits(64)))[0] for _ in range(200)]
        return [v for v in vals if v == v]
    if kind == "string":
        return ["", "a", "x" * 127, "y" * 128, "z" * 300, "héllo 世界 \U0001f600", "\x00"]
    if kind == "bytes":
        return [b"", b"\x00", b"a" * 127, b"b" * 128, bytes(range(256)) * 70]
    raise AssertionError(kind)


# ---- google.protobuf reference message: one field per (kind, field number) ------------
fdp = descriptor_pb2.FileDescriptorProto(name="c16_keep2.proto", package="c16k2", syntax="proto3")
KINDS = list(ALL)
# assign each kind a distinct field number; rotate through FIELD_NUMBERS in several messages
ref_classes = []
bp_classes = []
for rot in range(len(FIELD_NUMBERS)):
    m = fdp.message_type.add(name="M%d" % rot)
    used = set()
    for i, kind in enumerate(KINDS):
        number = FIELD_NUMBERS[(i + rot) % len(FIELD_NUMBERS)]
        while number in used:  # 15 kinds > 9 numbers: make unique
            number += -3 if number > (1 << 28) else 3
        used.add(number)
        m.field.add(name="f_" + kind, number=number, type=ALL[kind][0], label=F.LABEL_OPTIONAL)
pool = descriptor_pool.DescriptorPool()
pool.Add(fdp)

PY_TYPES = {"bool": bool, "float": float, "double": float, "string": str, "bytes": bytes}
for rot, m in enumerate(fdp.message_type):
    ref_classes.append(message_factory.GetMessageClass(pool.FindMessageTypeByName("c16k2." + m.name)))
    namespace = {"__annotations__": {}}
    numbers = {}
    for fld in m.field:
        kind = fld.name[2:]
        namespace["__annotations__"][fld.name] = PY_TYPES.get(kind, int)
        namespace[fld.name] = getattr(betterproto, kind + "_field")(fld.number)
        numbers[kind] = fld.number
    cls = dataclass(eq=False, repr=False)(type("B%d" % rot, (betterproto.Message,), namespace))
    bp_classes.append((cls, numbers))

checked = 0
for kind in KINDS:
    wire, enc = ALL[kind][1:3]
    vals = values_for(kind)
    for (cls, numbers), Ref in zip(bp_classes, ref_classes):
        number = numbers[kind]
        key = ref_varint((number << 3) | wire)
        for v in vals:
            payload = enc(v)
            expected_field = key + payload

            # direct calls
            got = _serialize_single(number, kind, v)
            is_empty_len_delim = wire == 2 and len(v) == 0
            if is_empty_len_delim:
                assert got == b"", (kind, number, v, got)
                assert _len_single(number, kind, v) == 0
                assert _serialize_single(number, kind, v, serialize_empty=True) == expected_field
                assert _len_single(number, kind, v, serialize_empty=True) == len(expected_field)
            else:
                assert type(got) is bytes and got == expected_field, (kind, number, v, got, expected_field)
                assert _len_single(number, kind, v) == len(expected_field), (kind, number, v)
                assert _serialize_single(number, kind, v, serialize_empty=True) == expected_field

            # through a single-field message, against google.protobuf
            ours = cls(**{"f_" + kind: v})
            data = bytes(ours)
            ref = Ref(**{"f_" + kind: v}).SerializeToString()
            assert data == ref, (kind, number, v, data, ref)
            default = v == cls.__dataclass_fields__["f_" + kind].default or v in (0, False, "", b"")
            assert data == (b"" if default else expected_field), (kind, number, v)
            assert len(ours) == len(data), (kind, number, v)
            back = getattr(cls().parse(data), "f_" + kind)
            if kind == "float":
                assert struct.pack("<f", back) == struct.pack("<f", v), (number, v, back)
            else:
                assert back == v and type(back) is type(v), (kind, number, v, back)
            checked += 1

# ---- remaining branches of _serialize_single / _len_single ------------------------------
# wrapper (wraps) and message typed values
for v in (0, 1, 300, -1):
    w = betterproto.TYPE_INT64
    inner = b"" if v == 0 else b"\x08" + ref_varint(v)
    expected = b"\x12" + ref_varint(len(inner)) + inner
    assert _serialize_single(2, "message", v, wraps=w) == expected, (v,)
    assert _len_single(2, "message", v, wraps=w) == len(expected)
assert _serialize_single(2, "message", None, wraps=betterproto.TYPE_INT64) == b"\x12\x00"
assert _len_single(2, "message", None, wraps=betterproto.TYPE_INT64) == 2


@dataclass(eq=False, repr=False)
class Inner(betterproto.Message):
    a: int = betterproto.sint64_field(1)


assert _serialize_single(3, "message", Inner()) == b""
assert _len_single(3, "message", Inner()) == 0
assert _serialize_single(3, "message", Inner(), serialize_empty=True) == b"\x1a\x00"
assert _len_single(3, "message", Inner(), serialize_empty=True) == 2
assert _serialize_single(3, "message", Inner(a=-1)) == b"\x1a\x02\x08\x01"
assert _len_single(3, "message", Inner(a=-1)) == 4
# map entries are framed as length-delimited payloads
assert _serialize_single(4, "map", b"\x08\x01\x10\x02") == b"\x22\x04\x08\x01\x10\x02"
assert _len_single(4, "map", b"\x08\x01\x10\x02") == 6
assert _serialize_single(4, "map", b"") == b"" and _len_single(4, "map", b"") == 0
assert _serialize_single(4, "map", b"", serialize_empty=True) == b"\x22\x00"
# packed buffers arrive as bytearray with TYPE_BYTES and come back as bytes
out = _serialize_single(5, "bytes", bytearray(b"\x01\x02\x03"))
assert type(out) is bytes and out == b"\x2a\x03\x01\x02\x03"
out = _serialize_single(5, "bytes", bytearray())
assert type(out) is bytes and out == b""
# enums use the varint wire type
assert _serialize_single(6, "enum", -1) == b"\x30" + b"\xff" * 9 + b"\x01"
assert _len_single(6, "enum", -1) == 11
# unknown proto types
for fn in (_serialize_single, _len_single):
    for bad in ("group", "int", "", "INT32"):
        try:
            fn(1, bad, b"abc")
        except NotImplementedError as e:
            assert e.args == (bad,), e.args
        else:
            raise AssertionError(("accepted", bad))
# out-of-range values are still rejected by the codecs underneath
for fn in (_serialize_single, _len_single):
    for kind, v, exc in (("int64", -(1 << 63) - 1, ValueError), ("fixed32", -1, struct.error),
                         ("sfixed64", 1 << 63, struct.error)):
        try:
            fn(1, kind, v)
        except exc:
            pass
        else:
            raise AssertionError(("accepted", kind, v))


# ---- repeated (packed / unpacked) and map fields go through the same framing -----------
@dataclass(eq=False, repr=False)
class R(betterproto.Message):
    p: List[int] = betterproto.sint32_field(1)
    q: List[float] = betterproto.double_field(2)
    s: List[str] = betterproto.string_field(3)
    m: Dict[int, int] = betterproto.map_field(4, betterproto.TYPE_INT64, betterproto.TYPE_UINT64)
    f: List[int] = betterproto.fixed32_field(2000)


rfd = descriptor_pb2.FileDescriptorProto(name="c16_keep2_r.proto", package="c16k2r", syntax="proto3")
rm = rfd.message_type.add(name="R")
rm.field.add(name="p", number=1, type=F.TYPE_SINT32, label=F.LABEL_REPEATED)
rm.field.add(name="q", number=2, type=F.TYPE_DOUBLE, label=F.LABEL_REPEATED)
rm.field.add(name="s", number=3, type=F.TYPE_STRING, label=F.LABEL_REPEATED)
entry = rm.nested_type.add(name="MEntry")
entry.options.map_entry = True
entry.field.add(name="key", number=1, type=F.TYPE_INT64, label=F.LABEL_OPTIONAL)
entry.field.add(name="value", number=2, type=F.TYPE_UINT64, label=F.LABEL_OPTIONAL)
rm.field.add(name="m", number=4, type=F.TYPE_MESSAGE, type_name=".c16k2r.R.MEntry", label=F.LABEL_REPEATED)
rm.field.add(name="f", number=2000, type=F.TYPE_FIXED32, label=F.LABEL_REPEATED)
pool.Add(rfd)
RefR = message_factory.GetMessageClass(pool.FindMessageTypeByName("c16k2r.R"))

for _ in range(200):
    p = [rng.randrange(-(1 << 31), 1 << 31) for _ in range(rng.randrange(0, 40))]
    q = [rng.uniform(-1e9, 1e9) for _ in range(rng.randrange(0, 20))]
    s = [rng.choice(["", "a", "bc" * 70]) for _ in range(rng.randrange(0, 5))]
    f = [rng.getrandbits(32) for _ in range(rng.randrange(0, 40))]
    mm = {}
    if rng.random() < 0.7:
        mm[rng.choice([0, -1, 5, -(1 << 63)])] = rng.choice([0, 1, (1 << 64) - 1])
    ours = R(p=p, q=q, s=s, m=mm, f=f)
    ref = RefR(p=p, q=q, s=s, f=f)
    for k, v in mm.items():
        ref.m[k] = v
    data = bytes(ours)
    assert data == ref.SerializeToString(), (p, q, s, mm, f)
    assert len(ours) == len(data)
    back = R().parse(data)
    assert (back.p, back.q, back.s, back.m, back.f) == (p, q, s, mm, f)

print("equiv ok (%d single-field messages)" % checked)
