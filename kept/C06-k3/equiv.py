"""
C06 keep1 equivalence check: _serialize_single / _len_single (wire key selection and the
"emit an empty length-delimited value?" decision) behave exactly as before.

Part 1 drives the two functions directly over every proto type, many field numbers,
boundary values and every serialize_empty / wraps combination and compares with an
independent encoder written here.
Part 2 drives them through Message.dump / __len__ for the whole C06 matrix
(field kind x {unset, default, non-default} x {constructor, attribute, parse, from_dict})
and compares the bytes and the recovered presence with google.protobuf.
"""
import base64
import dataclasses
import io
import random
import struct
import sys
from typing import Optional

import betterproto
from betterproto import _len_single, _serialize_single
from google.protobuf import descriptor_pb2, descriptor_pool, json_format, message_factory
from google.protobuf import wrappers_pb2  # noqa: F401  (registers wrappers.proto)

# =============================================================================== part 1
VARINT = ["enum", "bool", "int32", "int64", "uint32", "uint64", "sint32", "sint64"]
FIXED32 = {"float": "<f", "fixed32": "<I", "sfixed32": "<i"}
FIXED64 = {"double": "<d", "fixed64": "<Q", "sfixed64": "<q"}


def varint(n: int) -> bytes:
    n &= (1 << 64) - 1
    out = bytearray()
    while True:
        b = n & 0x7F
        n >>= 7
        if n:
            out.append(b | 0x80)
        else:
            out.append(b)
            return bytes(out)


def expected(number, proto_type, value, serialize_empty, wraps):
    if proto_type in VARINT:
        if proto_type in ("sint32", "sint64"):
            value = (value << 1) ^ (value >> 63)
        return varint(number << 3) + varint(int(value))
    if proto_type in FIXED32:
        return varint((number << 3) | 5) + struct.pack(FIXED32[proto_type], value)
    if proto_type in FIXED64:
        return varint((number << 3) | 1) + struct.pack(FIXED64[proto_type], value)
    if proto_type == "string":
        payload = value.encode("utf-8")
    elif proto_type in ("bytes", "map"):
        payload = bytes(value)
    else:
        assert proto_type == "message"
        if wraps:
            payload = b"" if value is None else bytes(betterproto._get_wrapper(wraps)(value=value))
        else:
            payload = bytes(value)
    if payload or serialize_empty or wraps:
        return varint((number << 3) | 2) + varint(len(payload)) + payload
    return b""


@dataclasses.dataclass(eq=False, repr=False)
class Leaf(betterproto.Message):
    v: int = betterproto.int32_field(1)
    s: str = betterproto.string_field(2)


NUMBERS = [1, 2, 15, 16, 17, 127, 128, 2047, 2048, 16383, 16384, 2**21 - 1, 2**21, 2**29 - 1]
SAMPLES = {
    "enum": [0, 1, 127, 128, -1, 2**31 - 1, -(2**31)],
    "bool": [False, True],
    "int32": [0, 1, -1, 127, 128, 2**31 - 1, -(2**31)],
    "int64": [0, 1, -1, 2**63 - 1, -(2**63)],
    "uint32": [0, 1, 2**32 - 1],
    "uint64": [0, 1, 2**64 - 1],
    "sint32": [0, 1, -1, 63, -64, 64, 2**31 - 1, -(2**31)],
    "sint64": [0, 1, -1, 2**63 - 1, -(2**63)],
    "float": [0.0, -0.0, 1.5, -2.25, float("inf")],
    "fixed32": [0, 1, 2**32 - 1],
    "sfixed32": [0, -1, 2**31 - 1, -(2**31)],
    "double": [0.0, -0.0, 1e300, -1e-300, float("-inf")],
    "fixed64": [0, 1, 2**64 - 1],
    "sfixed64": [0, -1, 2**63 - 1, -(2**63)],
    "string": ["", "x", "é" * 64, "y" * 127, "y" * 128, "z" * 20000],
    "bytes": [b"", b"\x00", b"a" * 127, b"a" * 128, bytearray(), bytearray(b"\x01\x02"), b"q" * 70000],
    "map": [b"", b"\x08\x01\x12\x01x"],
    "message": [Leaf(), Leaf(v=0), Leaf(v=7, s="hello"), Leaf(s="w" * 300)],
}
WRAPPED = {
    "bool": [None, False, True],
    "bytes": [None, b"", b"\x00"],
    "double": [None, 0.0, 2.5],
    "float": [None, 0.0, 2.5],
    "int32": [None, 0, -1],
    "int64": [None, 0, 2**63 - 1],
    "string": [None, "", "s"],
    "uint32": [None, 0, 2**32 - 1],
    "uint64": [None, 0, 2**64 - 1],
}

n_direct = 0
for number in NUMBERS:
    for proto_type, values in SAMPLES.items():
        for value in values:
            for serialize_empty in (False, True):
                want = expected(number, proto_type, value, serialize_empty, "")
                got = _serialize_single(number, proto_type, value, serialize_empty=serialize_empty)
                assert type(got) is bytes and got == want, (number, proto_type, value, serialize_empty)
                size = _len_single(number, proto_type, value, serialize_empty=serialize_empty)
                assert type(size) is int and size == len(want), (number, proto_type, value)
                n_direct += 1
        # defaults of the keyword arguments
        assert _serialize_single(number, proto_type, values[0]) == expected(
            number, proto_type, values[0], False, ""
        )
        assert _len_single(number, proto_type, values[0]) == len(
            expected(number, proto_type, values[0], False, "")
        )
    for wraps, values in WRAPPED.items():
        for value in values:
            for serialize_empty in (False, True):
                want = expected(number, "message", value, serialize_empty, wraps)
                assert want, "a wrapper value is always written"
                got = _serialize_single(
                    number, "message", value, serialize_empty=serialize_empty, wraps=wraps
                )
                assert type(got) is bytes and got == want, (number, wraps, value)
                assert _len_single(
                    number, "message", value, serialize_empty=serialize_empty, wraps=wraps
                ) == len(want)
                n_direct += 1

for bad in ("group", "", "INT32", "sint", "Message"):
    for fn in (_serialize_single, _len_single):
        try:
            fn(1, bad, b"")
        except NotImplementedError as exc:
            assert exc.args == (bad,)
        else:
            raise AssertionError(f"{fn.__name__} accepted proto type {bad!r}")

# =============================================================================== part 2
F = descriptor_pb2.FieldDescriptorProto
PKG = "c06keep1"
SCALARS = [
    ("int32", F.TYPE_INT32, int, betterproto.int32_field, [0, 1, -1, 2**31 - 1, -(2**31)]),
    ("int64", F.TYPE_INT64, int, betterproto.int64_field, [0, 5, -1, 2**63 - 1, -(2**63)]),
    ("uint32", F.TYPE_UINT32, int, betterproto.uint32_field, [0, 1, 2**32 - 1]),
    ("uint64", F.TYPE_UINT64, int, betterproto.uint64_field, [0, 1, 2**64 - 1]),
    ("sint32", F.TYPE_SINT32, int, betterproto.sint32_field, [0, 1, -1, -(2**31)]),
    ("sint64", F.TYPE_SINT64, int, betterproto.sint64_field, [0, 1, -1, 2**63 - 1]),
    ("fixed32", F.TYPE_FIXED32, int, betterproto.fixed32_field, [0, 1, 2**32 - 1]),
    ("fixed64", F.TYPE_FIXED64, int, betterproto.fixed64_field, [0, 1, 2**64 - 1]),
    ("sfixed32", F.TYPE_SFIXED32, int, betterproto.sfixed32_field, [0, -1, 2**31 - 1]),
    ("sfixed64", F.TYPE_SFIXED64, int, betterproto.sfixed64_field, [0, -1, -(2**63)]),
    ("float", F.TYPE_FLOAT, float, betterproto.float_field, [0.0, 1.5, -2.25]),
    ("double", F.TYPE_DOUBLE, float, betterproto.double_field, [0.0, 1e300, -0.125]),
    ("bool", F.TYPE_BOOL, bool, betterproto.bool_field, [False, True]),
    ("string", F.TYPE_STRING, str, betterproto.string_field, ["", "x", "é" * 100]),
    ("bytes", F.TYPE_BYTES, bytes, betterproto.bytes_field, [b"", b"\x00", b"b" * 200]),
]
WRAPS = [
    ("bool", "BoolValue", bool, [False, True]),
    ("bytes", "BytesValue", bytes, [b"", b"\x01"]),
    ("double", "DoubleValue", float, [0.0, 2.5]),
    ("float", "FloatValue", float, [0.0, 2.5]),
    ("int32", "Int32Value", int, [0, -7]),
    ("int64", "Int64Value", int, [0, 2**63 - 1]),
    ("string", "StringValue", str, ["", "s"]),
    ("uint32", "UInt32Value", int, [0, 2**32 - 1]),
    ("uint64", "UInt64Value", int, [0, 2**64 - 1]),
]


class Color(betterproto.Enum):
    ZERO = 0
    ONE = 1
    BIG = 1000


@dataclasses.dataclass(eq=False, repr=False)
class Sub(betterproto.Message):
    v: int = betterproto.int32_field(1)
    t: str = betterproto.string_field(2)


fdp = descriptor_pb2.FileDescriptorProto(
    name=f"{PKG}.proto", package=PKG, syntax="proto3",
    dependency=["google/protobuf/wrappers.proto"],
)
e = fdp.enum_type.add(name="Color")
for member in Color:
    e.value.add(name=member.name, number=member.value)
sm = fdp.message_type.add(name="Sub")
sm.field.add(name="v", number=1, type=F.TYPE_INT32, label=F.LABEL_OPTIONAL)
sm.field.add(name="t", number=2, type=F.TYPE_STRING, label=F.LABEL_OPTIONAL)
am = fdp.message_type.add(name="All")
am.oneof_decl.add(name="grp")

bp_fields = []  # (name, hint, field)
KIND = {}  # field name -> (category, type name, values)
number = 0


def add(name, category, tname, ftype, hint, maker, values, type_name=None, **kw):
    global number
    number += 1
    f = am.field.add(name=name, number=number, type=ftype, label=F.LABEL_OPTIONAL)
    if type_name:
        f.type_name = type_name
    if category == "oneof":
        f.oneof_index = 0
        kw["group"] = "grp"
    elif category == "optional":
        f.proto3_optional = True
        am.oneof_decl.add(name=f"_{name}")
        kw["optional"] = True
        hint = Optional[hint]
    bp_fields.append((name, hint, maker(number, **kw)))
    KIND[name] = (category, tname, values)


SUBVALS = ["empty", "default-inside", "filled"]
for category in ("plain", "oneof", "optional"):
    for tname, ftype, hint, maker, values in SCALARS:
        add(f"{category[:2]}_{tname}", category, tname, ftype, hint, maker, values)
    add(f"{category[:2]}_enum", category, "enum", F.TYPE_ENUM, Color, betterproto.enum_field,
        [Color.ZERO, Color.ONE, Color.BIG], type_name=f".{PKG}.Color")
    add(f"{category[:2]}_sub", category, "sub", F.TYPE_MESSAGE, Sub, betterproto.message_field,
        SUBVALS, type_name=f".{PKG}.Sub")
for wraps, wname, hint, values in WRAPS:
    add(f"w_{wraps}", "wrapper", wraps, F.TYPE_MESSAGE, Optional[hint], betterproto.message_field,
        values, type_name=f".google.protobuf.{wname}", wraps=wraps)
# synthetic oneofs must come after the real ones, and their indices must be fixed up
real = 1
idx = real
for f in am.field:
    if f.proto3_optional:
        f.oneof_index = idx
        idx += 1

pool = descriptor_pool.Default()
pool.Add(fdp)
RefAll = message_factory.GetMessageClass(pool.FindMessageTypeByName(f"{PKG}.All"))
All = dataclasses.make_dataclass(
    "All", bp_fields, bases=(betterproto.Message,), eq=False, repr=False, module=__name__
)
ONEOF_MEMBERS = [n for n, (c, _, _) in KIND.items() if c == "oneof"]
PRESENCE_FIELDS = [n for n, (c, t, _) in KIND.items() if c != "plain" or t == "sub"]


def make_sub(which):
    return {"empty": Sub(), "default-inside": Sub(v=0), "filled": Sub(v=5, t="five")}[which]


def ref_set(ref, name, value):
    category, tname, _ = KIND[name]
    if tname == "sub":
        sub = getattr(ref, name)
        sub.SetInParent()
        if value == "filled":
            sub.v, sub.t = 5, "five"
    elif category == "wrapper":
        getattr(ref, name).value = value
    else:
        setattr(ref, name, int(value) if tname == "enum" else value)


def bp_value(name, value):
    return make_sub(value) if KIND[name][1] == "sub" else value


def sub_is_present(name, value):
    """Sub() assigned to a *plain* field is, by the property, not present."""
    return not (KIND[name] == ("plain", "sub", SUBVALS) and value == "empty")


def dump_delimited(msg):
    buf = io.BytesIO()
    msg.dump(buf, delimit=betterproto.SIZE_DELIMITED)
    return buf.getvalue()


def check_wire(msg, want, ctx):
    data = bytes(msg)
    assert data == want, (ctx, data, want)
    assert len(msg) == len(want), (ctx, len(msg), len(want))
    assert dump_delimited(msg) == varint(len(want)) + want, ctx


def check_presence(msg, ref, ctx):
    which = ref.WhichOneof("grp") or ""
    assert betterproto.which_one_of(msg, "grp")[0] == which, (ctx, which)
    for name in PRESENCE_FIELDS:
        assert msg.is_set(name) == ref.HasField(name), (ctx, name)
        if KIND[name] == ("plain", "sub", SUBVALS):
            assert betterproto.serialized_on_wire(getattr(msg, name)) == ref.HasField(name), ctx


# ---- fresh message
fresh = All()
check_wire(fresh, b"", "fresh")
check_presence(fresh, RefAll(), "fresh")
for name, (category, tname, values) in KIND.items():
    if category == "oneof":
        continue
    got = getattr(All(), name)
    if category in ("optional", "wrapper"):
        assert got is None, name
    elif tname == "sub":
        assert got == Sub() and not betterproto.serialized_on_wire(got), name
    else:
        assert got == values[0] and type(got) is type(values[0]), name
check_wire(fresh, b"", "fresh after reads")

# ---- one field at a time, every way of setting it
n_cases = 0
for name, (category, tname, values) in KIND.items():
    for value in values:
        ctx = (name, value if not isinstance(value, (str, bytes)) else value[:8])
        ref = RefAll()
        present = sub_is_present(name, value)
        if present:
            ref_set(ref, name, value)
        want = ref.SerializeToString(deterministic=True)
        if category == "plain" and tname != "sub" and value == values[0]:
            assert want == b"", ctx  # implicit presence, default value: never emitted

        # constructor
        m1 = All(**{name: bp_value(name, value)})
        check_wire(m1, want, ctx + ("ctor",))
        # attribute assignment
        m2 = All()
        setattr(m2, name, bp_value(name, value))
        check_wire(m2, want, ctx + ("attr",))
        if tname == "sub" and category == "plain" and value != "empty":
            m2b = All()
            sub = getattr(m2b, name)
            if value == "filled":
                sub.v, sub.t = 5, "five"
            else:
                sub.v = 0
            check_wire(m2b, want, ctx + ("in place",))
        # parse
        m3 = All().parse(want)
        check_wire(m3, want, ctx + ("parse",))
        check_presence(m3, ref, ctx + ("parse",))
        # from_dict
        as_json = json_format.MessageToDict(ref, preserving_proto_field_name=True)
        for m4 in (All.from_dict(as_json), All().from_dict(as_json)):
            check_wire(m4, want, ctx + ("from_dict", as_json))
            check_presence(All().parse(bytes(m4)), ref, ctx + ("from_dict",))
        if category != "plain" or tname == "sub":
            for m in (m1, m2):
                check_presence(All().parse(bytes(m)), ref, ctx + ("roundtrip",))
        n_cases += 1

# ---- combinations of several fields
rng = random.Random(606)
names = list(KIND)
for _ in range(400):
    chosen = rng.sample(names, rng.randint(2, 12))
    seen_oneof = False
    kwargs, ref = {}, RefAll()
    for name in sorted(chosen, key=names.index):
        category, tname, values = KIND[name]
        if category == "oneof":
            if seen_oneof:
                continue
            seen_oneof = True
        value = rng.choice(values)
        kwargs[name] = bp_value(name, value)
        if sub_is_present(name, value):
            ref_set(ref, name, value)
    want = ref.SerializeToString(deterministic=True)
    ctx = ("combo", sorted(kwargs))
    built = All(**kwargs)
    check_wire(built, want, ctx)
    assigned = All()
    for name, value in kwargs.items():
        setattr(assigned, name, value)
    check_wire(assigned, want, ctx)
    parsed = All().parse(want)
    check_wire(parsed, want, ctx)
    check_presence(parsed, ref, ctx)
    as_json = json_format.MessageToDict(ref, preserving_proto_field_name=True)
    check_wire(All.from_dict(as_json), want, ctx)

print(f"C06 keep1 equiv: OK ({n_direct} direct calls, {n_cases} single-field cases, 400 combinations)")
