"""Exercises the field splitters load_fields (stream) and parse_fields (buffer) and
Message.parse/load built on them: valid encodings, every truncation point, every
single-byte corruption, wire-type substitution on every field, random byte strings.
Each outcome (the exact list of ParsedField tuples, or the exception class) is
compared with an independent reference splitter written here; accept/reject is
compared with google.protobuf where the two libraries are specified to agree.
"""
import io
import random
import struct
import sys
from dataclasses import dataclass
from typing import Dict, List

import betterproto
from betterproto import ParsedField, load_fields, parse_fields
from google.protobuf import descriptor_pb2, descriptor_pool, message_factory
from google.protobuf.message import DecodeError


# ------------------------------------------------------------------ messages
@dataclass(eq=False, repr=False)
class Inner(betterproto.Message):
    x: int = betterproto.int32_field(1)
    s: str = betterproto.string_field(2)


@dataclass(eq=False, repr=False)
class M(betterproto.Message):
    i32: int = betterproto.int32_field(1)
    u64: int = betterproto.uint64_field(2)
    s64: int = betterproto.sint64_field(3)
    flag: bool = betterproto.bool_field(4)
    f32: int = betterproto.fixed32_field(5)
    sf64: int = betterproto.sfixed64_field(6)
    flt: float = betterproto.float_field(7)
    dbl: float = betterproto.double_field(8)
    text: str = betterproto.string_field(9)
    blob: bytes = betterproto.bytes_field(10)
    inner: Inner = betterproto.message_field(11)
    nums: List[int] = betterproto.int32_field(12)
    names: List[str] = betterproto.string_field(13)
    table: Dict[str, int] = betterproto.map_field(
        14, betterproto.TYPE_STRING, betterproto.TYPE_INT32
    )
    far: int = betterproto.int32_field(1000)
    fixes: List[int] = betterproto.fixed64_field(70000)


FIELD_TYPES = {
    "i32": int, "u64": int, "s64": int, "flag": bool, "f32": int, "sf64": int,
    "flt": float, "dbl": float, "text": str, "blob": bytes, "inner": Inner,
    "nums": list, "names": list, "table": dict, "far": int, "fixes": list,
}  # fmt: skip


def _google_class():
    F = descriptor_pb2.FieldDescriptorProto
    fdp = descriptor_pb2.FileDescriptorProto(
        name="c17_keep2.proto", package="c17k2", syntax="proto3"
    )
    inner = fdp.message_type.add(name="Inner")
    inner.field.add(name="x", number=1, type=F.TYPE_INT32, label=F.LABEL_OPTIONAL)
    inner.field.add(name="s", number=2, type=F.TYPE_STRING, label=F.LABEL_OPTIONAL)
    m = fdp.message_type.add(name="M")
    entry = m.nested_type.add(name="TableEntry")
    entry.options.map_entry = True
    entry.field.add(name="key", number=1, type=F.TYPE_STRING, label=F.LABEL_OPTIONAL)
    entry.field.add(name="value", number=2, type=F.TYPE_INT32, label=F.LABEL_OPTIONAL)
    O, R = F.LABEL_OPTIONAL, F.LABEL_REPEATED
    for name, number, typ, label in (
        ("i32", 1, F.TYPE_INT32, O), ("u64", 2, F.TYPE_UINT64, O),
        ("s64", 3, F.TYPE_SINT64, O), ("flag", 4, F.TYPE_BOOL, O),
        ("f32", 5, F.TYPE_FIXED32, O), ("sf64", 6, F.TYPE_SFIXED64, O),
        ("flt", 7, F.TYPE_FLOAT, O), ("dbl", 8, F.TYPE_DOUBLE, O),
        ("text", 9, F.TYPE_STRING, O), ("blob", 10, F.TYPE_BYTES, O),
        ("inner", 11, F.TYPE_MESSAGE, O), ("nums", 12, F.TYPE_INT32, R),
        ("names", 13, F.TYPE_STRING, R), ("table", 14, F.TYPE_MESSAGE, R),
        ("far", 1000, F.TYPE_INT32, O), ("fixes", 70000, F.TYPE_FIXED64, R),
    ):  # fmt: skip
        f = m.field.add(name=name, number=number, type=typ, label=label)
        if name == "inner":
            f.type_name = ".c17k2.Inner"
        if name == "table":
            f.type_name = ".c17k2.M.TableEntry"
    pool = descriptor_pool.DescriptorPool()
    pool.Add(fdp)
    return message_factory.GetMessageClass(pool.FindMessageTypeByName("c17k2.M"))


GM = _google_class()


def google_accepts(data):
    try:
        GM().ParseFromString(data)
    except DecodeError:
        return False
    return True


# ------------------------------------------------------- reference splitter
def varint(n):
    out = bytearray()
    while True:
        b = n & 0x7F
        n >>= 7
        if n:
            out.append(b | 0x80)
        else:
            out.append(b)
            return bytes(out)


def ref_varint(buf, pos):
    result = 0
    for k in range(10):
        if pos >= len(buf):
            raise EOFError
        b = buf[pos]
        pos += 1
        result |= (b & 0x7F) << (7 * k)
        if not b & 0x80:
            return result, pos
    raise ValueError


def ref_split(buf, stream=False):
    """Generator of (number, wire_type, value, raw); raises EOFError on input that
    ends inside a field and ValueError on field number 0 / a bad wire type / an
    over-long varint.  Written independently of the library."""
    pos = 0
    while pos < len(buf):
        start = pos
        key, pos = ref_varint(buf, pos)
        number, wire = key // 8, key % 8
        if number == 0:
            raise ValueError
        if wire == 0:
            value, pos = ref_varint(buf, pos)
        elif wire in (1, 5):
            n = 8 if wire == 1 else 4
            if pos + n > len(buf):
                raise EOFError
            value, pos = buf[pos : pos + n], pos + n
        elif wire == 2:
            length, pos = ref_varint(buf, pos)
            if stream and length > sys.maxsize:
                # BytesIO.read() cannot even be asked for that many bytes
                raise OverflowError
            if pos + length > len(buf):
                raise EOFError
            value, pos = buf[pos : pos + length], pos + length
        else:
            raise ValueError
        yield number, wire, value, buf[start:pos]


def drain(gen, as_tuple):
    """Consume a generator; return (items produced so far, exception class or None)."""
    items = []
    try:
        for item in gen:
            items.append(as_tuple(item))
    except Exception as e:  # noqa
        return items, type(e)
    return items, None


def pf_tuple(p):
    assert type(p) is ParsedField
    assert type(p.raw) is bytes and type(p.number) is int and type(p.wire_type) is int
    assert type(p.value) is (int if p.wire_type == 0 else bytes), p
    return (p.number, p.wire_type, p.value, p.raw)


counters = {"inputs": 0, "accepted": 0, "google_agree": 0, "google_differ": 0}


def check_splitters(data):
    """load_fields, parse_fields and the reference agree item by item, including
    where they stop and with which exception class."""
    expected = drain(ref_split(data), tuple)
    expected_stream = drain(ref_split(data, stream=True), tuple)
    got_stream = drain(load_fields(io.BytesIO(data)), pf_tuple)
    got_buffer = drain(parse_fields(data), pf_tuple)
    assert got_stream == expected_stream, (data.hex(), got_stream, expected_stream)
    assert got_buffer == expected, (data.hex(), got_buffer, expected)
    if expected[1] is None:
        assert b"".join(item[3] for item in expected[0]) == data
    return expected


def check_message(data, expect_google_agreement=False):
    counters["inputs"] += 1
    items, err = check_splitters(data)
    try:
        msg = M().parse(data)
    except Exception as e:  # noqa
        msg = None
        exc = e
    if err is not None:
        # whatever the splitter rejects, the message decoder rejects the same way
        assert msg is None, data.hex()
        # (an earlier field's payload may be rejected first, hence any of these)
        assert isinstance(exc, (EOFError, ValueError, OverflowError, struct.error)), (
            data.hex(),
            exc,
        )
    if msg is not None:
        counters["accepted"] += 1
        for name, typ in FIELD_TYPES.items():
            assert type(getattr(msg, name)) is typ, (name, getattr(msg, name))
        out = bytes(msg)
        again = M().parse(out)
        assert bytes(again) == out
        # via the stream API, with and without an explicit size
        assert bytes(M().load(io.BytesIO(data))) == out
        assert bytes(M().load(io.BytesIO(data + b"\x08\x01"), size=len(data))) == out
        framed = varint(len(data)) + data
        assert bytes(M().load(io.BytesIO(framed), betterproto.SIZE_DELIMITED)) == out
    else:
        for loader in (
            lambda: M().load(io.BytesIO(data)),
            lambda: M().load(io.BytesIO(data), size=len(data)) if data else 1 / 0,
        ):
            try:
                loader()
            except Exception:
                pass
            else:
                raise AssertionError(f"load accepted what parse rejected: {data.hex()}")
    g = google_accepts(data)
    if g == (msg is not None):
        counters["google_agree"] += 1
    else:
        counters["google_differ"] += 1
        assert not expect_google_agreement, (data.hex(), g, msg)
    return msg


def sample_messages():
    yield M()
    yield M(i32=1)
    yield M(i32=-1, u64=2**64 - 1, s64=-(2**63), flag=True, f32=2**32 - 1,
            sf64=-(2**63), flt=1.5, dbl=-2.5e300, text="héllo wörld ✓",
            blob=bytes(range(256)), inner=Inner(x=-7, s="in"), nums=[1, -1, 300, 2**31 - 1],
            names=["a", "", "ccc"], table={"k": 1, "": 0, "z": -5}, far=99,
            fixes=[0, 1, 2**64 - 1])  # fmt: skip
    yield M(text="x" * 127)
    yield M(text="x" * 128)  # two-byte length
    yield M(blob=b"\x00" * 16384)  # three-byte length
    yield M(inner=Inner())
    yield M(inner=Inner(s="y" * 200), far=-1, fixes=[7])
    yield M(names=["", "", ""], nums=[0])
    yield M(far=2**31 - 1)
    yield M(fixes=[1, 2, 3, 4, 5])


def main():
    rnd = random.Random(170017)
    encodings = [bytes(m) for m in sample_messages()]

    # 0. hand-made corner cases for the splitters
    for data in (
        b"", b"\x00", b"\x00\x00", b"\x01", b"\x02\x00", b"\x05\x00\x00\x00\x00",
        b"\x07", b"\x0b", b"\x0c", b"\x0e", b"\x0f", b"\x08", b"\x08\x80",
        b"\x08" + b"\xff" * 9 + b"\x01", b"\x08" + b"\xff" * 10 + b"\x01",
        b"\x08" + b"\x80" * 9 + b"\x00", b"\x08" + b"\x80" * 10 + b"\x00",
        b"\x80", b"\x80\x00", b"\x80\x01", b"\x80\x80\x80\x80\x80\x80\x80\x80\x80\x01",
        b"\xff" * 10 + b"\x01", b"\x88\x00\x01", b"\x08\x01\x80",
        b"\x09" + b"\x01" * 8, b"\x09" + b"\x01" * 7, b"\x09",
        b"\x0d" + b"\x01" * 4, b"\x0d" + b"\x01" * 3, b"\x0d",
        b"\x0a\x00", b"\x0a\x01", b"\x0a\x01a", b"\x0a\x02a", b"\x0a\x80", b"\x0a",
        b"\x0a\xff\xff\xff\xff\x0f", b"\x0a\xff\xff\xff\xff\xff\xff\xff\xff\xff\x01",
        b"\x0a\x80\x00", b"\x0a\x81\x00a", b"\x0a\x81\x00",
        b"\x08\x01\x00\x01", b"\x08\x01\x03", b"\x08\x01\x04", b"\x08\x01\x0b\x0c",
        b"\x1b\x08\x01\x1c", b"\xc0\x3e", b"\xc0\x3e\x01", b"\xc0",
        b"\xf8\xff\xff\xff\x0f\x01", b"\xf8\xff\xff\xff\xff\xff\xff\xff\xff\x01\x01",
    ):  # fmt: skip
        check_splitters(data)
        check_message(data)

    # 1. valid encodings: split exactly into their fields; google agrees
    for data in encodings:
        items, err = check_splitters(data)
        assert err is None
        msg = check_message(data, expect_google_agreement=True)
        assert msg is not None and bytes(msg) == data
        # every field on its own, and all orders of concatenating two encodings
        for item in items:
            check_message(item[3], expect_google_agreement=True)
    for a in encodings[:8]:
        for b in encodings[:8]:
            check_message(a + b, expect_google_agreement=True)

    # 2. every truncation point of every encoding (the big blob: only near the ends)
    for data in encodings:
        items, _ = check_splitters(data)
        boundaries = {0}
        pos = 0
        for item in items:
            pos += len(item[3])
            boundaries.add(pos)
        cuts = range(len(data)) if len(data) < 1000 else list(range(40)) + list(
            range(len(data) - 40, len(data))
        )
        for cut in cuts:
            prefix = data[:cut]
            got_items, err = check_splitters(prefix)
            if cut in boundaries:
                assert err is None
            else:
                assert err is EOFError, (cut, err)
            msg = check_message(prefix, expect_google_agreement=True)
            assert (msg is not None) == (cut in boundaries), cut
            if msg is not None:
                assert bytes(msg) == prefix

    # 3. every single-byte corruption of the smaller encodings (three variants per
    #    position: flip the continuation bit, flip the low bits, random byte)
    for data in encodings:
        if len(data) > 1000:
            continue
        for pos in range(len(data)):
            for new in (data[pos] ^ 0x80, data[pos] ^ 0x07, rnd.randrange(256),
                        0x00, 0xFF):  # fmt: skip
                mutated = data[:pos] + bytes([new]) + data[pos + 1 :]
                check_message(mutated)
        # insertion / deletion of a byte
        for pos in range(len(data)):
            check_message(data[:pos] + data[pos + 1 :])
            check_message(data[:pos] + bytes([rnd.randrange(256)]) + data[pos:])

    # 4. wire-type substitution: each field of each encoding re-tagged with each of
    #    the eight wire types (payload bytes left as they are)
    for data in encodings:
        if len(data) > 1000:
            continue
        items, _ = check_splitters(data)
        offset = 0
        for number, wire, value, raw in items:
            taglen = len(varint(number << 3 | wire))
            for new_wire in range(8):
                retagged = varint(number << 3 | new_wire) + raw[taglen:]
                mutated = data[:offset] + retagged + data[offset + len(raw) :]
                # groups (wire types 3/4) are where google and betterproto differ
                check_message(mutated)
                check_message(retagged)
            offset += len(raw)

    # 4b. a known number arriving with another (complete, well-formed) wire type is
    #     kept as an unknown field and leaves the known fields alone; google agrees
    payloads = {0: b"\x96\x01", 1: b"\x01" * 8, 2: b"\x03abc", 5: b"\x02" * 4}
    base = encodings[2]
    for number in (1, 2, 3, 4, 5, 6, 7, 8, 9, 10, 11, 13, 14, 1000):
        for wire, payload in payloads.items():
            occ = varint(number << 3 | wire) + payload
            check_splitters(occ)
            for data in (occ, base + occ, occ + base):
                msg = check_message(data)
                if msg is not None:
                    assert google_accepts(data) or number in (9, 11, 13, 14)

    # 5. random byte strings, short and long, plus random sequences of random fields
    for _ in range(6000):
        n = rnd.randrange(0, 24)
        check_message(bytes(rnd.randrange(256) for _ in range(n)))
    for _ in range(3000):
        parts = []
        for _ in range(rnd.randrange(1, 6)):
            number = rnd.choice([0, 1, 2, 5, 9, 11, 12, 15, 16, 1000, 70000, 2**29 - 1])
            wire = rnd.choice([0, 0, 1, 2, 2, 5, 3, 4, 6, 7])
            if wire == 0:
                body = varint(rnd.choice([0, 1, 127, 128, 2**32, 2**64 - 1]))
            elif wire == 1:
                body = bytes(rnd.randrange(256) for _ in range(8))
            elif wire == 5:
                body = bytes(rnd.randrange(256) for _ in range(4))
            elif wire == 2:
                k = rnd.randrange(0, 10)
                body = varint(k) + bytes(rnd.randrange(32, 127) for _ in range(k))
            else:
                body = b""
            parts.append(varint(number << 3 | wire) + body)
        data = b"".join(parts)
        check_message(data)
        if rnd.random() < 0.5 and data:
            check_message(data[: rnd.randrange(len(data))])

    assert counters["accepted"] > 1000 and counters["inputs"] > 15000, counters
    print("OK", counters)


if __name__ == "__main__":
    main()
