"""
Equivalence script for the refactor of Message._get_field_default_gen / Message._cls_for
(the per-class tables default_gen - whose `is list` entry decides in Message.load whether a
length-delimited run for a scalar number is decoded or kept as an unknown field - and
cls_by_field, the classes nested messages / map entries are parsed into).
Plain asserts with hard-coded expectations; exits 0 on the pristine tree and patched.
"""
import dataclasses
import itertools
import random
import sys
import warnings
from dataclasses import dataclass
from datetime import datetime, timedelta, timezone
from typing import Dict, List, Optional

import betterproto
from betterproto import Message, datetime_default_gen


class Color(betterproto.Enum):
    ZERO = 0
    RED = 1
    BLUE = 5


@dataclass(eq=False, repr=False)
class Sub(Message):
    a: int = betterproto.int32_field(1)
    s: str = betterproto.string_field(2)
    d: float = betterproto.double_field(3)
    kids: List["Sub"] = betterproto.message_field(4)


@dataclass(eq=False, repr=False)
class SubOld(Message):
    s: str = betterproto.string_field(2)


@dataclass(eq=False, repr=False)
class Newer(Message):
    i32: int = betterproto.int32_field(1)
    s64: int = betterproto.sint64_field(2)
    text: str = betterproto.string_field(3)
    blob: bytes = betterproto.bytes_field(4)
    dbl: float = betterproto.double_field(5)
    flag: bool = betterproto.bool_field(6)
    color: Color = betterproto.enum_field(7)
    ints: List[int] = betterproto.int32_field(8)
    fixeds: List[int] = betterproto.fixed32_field(9)
    dbls: List[float] = betterproto.double_field(10)
    strs: List[str] = betterproto.string_field(11)
    sub: Sub = betterproto.message_field(12)
    subs: List[Sub] = betterproto.message_field(13)
    m: Dict[str, int] = betterproto.map_field(
        14, betterproto.TYPE_STRING, betterproto.TYPE_INT32
    )
    msub: Dict[int, Sub] = betterproto.map_field(
        15, betterproto.TYPE_INT64, betterproto.TYPE_MESSAGE
    )
    one_a: int = betterproto.int32_field(16, group="choice")
    one_sub: Sub = betterproto.message_field(17, group="choice")
    opt: Optional[int] = betterproto.int32_field(18, optional=True)
    opt_sub: Optional[Sub] = betterproto.message_field(19, optional=True)
    ts: datetime = betterproto.message_field(20)
    dur: timedelta = betterproto.message_field(21)
    wrapped: Optional[int] = betterproto.message_field(22, wraps=betterproto.TYPE_INT64)
    colors: List[Color] = betterproto.enum_field(23)
    tss: List[datetime] = betterproto.message_field(24)
    mcolor: Dict[str, Color] = betterproto.map_field(
        25, betterproto.TYPE_STRING, betterproto.TYPE_ENUM
    )
    big: int = betterproto.uint64_field(1000)


if sys.version_info >= (3, 10):

    @dataclass(eq=False, repr=False)
    class Pep604(Message):
        opt: "int | None" = betterproto.int32_field(1, optional=True)
        opt_sub: "Sub | None" = betterproto.message_field(2, optional=True)
        lst: "list[int]" = betterproto.int32_field(3)
        mp: "dict[str, Sub]" = betterproto.map_field(
            4, betterproto.TYPE_STRING, betterproto.TYPE_MESSAGE
        )
        plain: "Sub" = betterproto.message_field(5)


SPECS = {
    "i32": ("int", "betterproto.int32_field(1)"),
    "s64": ("int", "betterproto.sint64_field(2)"),
    "text": ("str", "betterproto.string_field(3)"),
    "blob": ("bytes", "betterproto.bytes_field(4)"),
    "dbl": ("float", "betterproto.double_field(5)"),
    "flag": ("bool", "betterproto.bool_field(6)"),
    "color": ("Color", "betterproto.enum_field(7)"),
    "ints": ("List[int]", "betterproto.int32_field(8)"),
    "fixeds": ("List[int]", "betterproto.fixed32_field(9)"),
    "dbls": ("List[float]", "betterproto.double_field(10)"),
    "strs": ("List[str]", "betterproto.string_field(11)"),
    "sub": ("Sub", "betterproto.message_field(12)"),
    "subs": ("List[Sub]", "betterproto.message_field(13)"),
    "m": ("Dict[str, int]", "betterproto.map_field(14, betterproto.TYPE_STRING, betterproto.TYPE_INT32)"),
    "msub": ("Dict[int, Sub]", "betterproto.map_field(15, betterproto.TYPE_INT64, betterproto.TYPE_MESSAGE)"),
    "one_a": ("int", "betterproto.int32_field(16, group='choice')"),
    "one_sub": ("Sub", "betterproto.message_field(17, group='choice')"),
    "opt": ("Optional[int]", "betterproto.int32_field(18, optional=True)"),
    "opt_sub": ("Optional[Sub]", "betterproto.message_field(19, optional=True)"),
    "ts": ("datetime", "betterproto.message_field(20)"),
    "dur": ("timedelta", "betterproto.message_field(21)"),
    "wrapped": ("Optional[int]", "betterproto.message_field(22, wraps=betterproto.TYPE_INT64)"),
    "colors": ("List[Color]", "betterproto.enum_field(23)"),
    "tss": ("List[datetime]", "betterproto.message_field(24)"),
    "mcolor": ("Dict[str, Color]", "betterproto.map_field(25, betterproto.TYPE_STRING, betterproto.TYPE_ENUM)"),
    "big": ("int", "betterproto.uint64_field(1000)"),
}
ALL = list(SPECS)
NUMBER = {f: i for f, i in zip(ALL, list(range(1, 26)) + [1000])}
_n = itertools.count()


def make_older(keep, sub_cls="Sub", singular=()):
    """Older schema: only `keep`; fields in `singular` lose their List[...] (same number)."""
    name = f"Older{next(_n)}"
    lines = ["@dataclass(eq=False, repr=False)", f"class {name}(Message):"]
    for f in ALL:
        if f in keep:
            t = SPECS[f][0].replace("Sub", sub_cls)
            if f in singular:
                t = t[len("List["):-1]
            lines.append(f"    {f}: {t} = {SPECS[f][1]}")
    if len(lines) == 2:
        lines.append("    pass")
    ns = dict(globals())
    exec("\n".join(lines), ns)
    return ns[name]


# ---------------------------------------------------------------- the tables themselves
def fields_of(cls):
    return {f.name: f for f in dataclasses.fields(cls)}


def test_tables():
    NoneType = type(None)
    expected_gen = {
        "i32": int, "s64": int, "text": str, "blob": bytes, "dbl": float, "flag": bool,
        "color": Color.try_value, "ints": list, "fixeds": list, "dbls": list, "strs": list,
        "sub": Sub, "subs": list, "m": dict, "msub": dict, "one_a": int, "one_sub": Sub,
        "opt": NoneType, "opt_sub": NoneType, "ts": datetime_default_gen, "dur": timedelta,
        "wrapped": NoneType, "colors": list, "tss": list, "mcolor": dict, "big": int,
    }
    expected_cls0 = {
        "i32": int, "s64": int, "text": str, "blob": bytes, "dbl": float, "flag": bool,
        "color": Color, "ints": int, "fixeds": int, "dbls": float, "strs": str, "sub": Sub,
        "subs": Sub, "one_a": int, "one_sub": Sub, "opt": int, "opt_sub": Sub,
        "ts": datetime, "dur": timedelta, "wrapped": int, "colors": Color, "tss": datetime,
        "big": int,
    }
    expected_map = {"m": (str, int), "msub": (int, Sub), "mcolor": (str, Color)}
    flds = fields_of(Newer)
    assert list(flds) == ALL
    for name, fld in flds.items():
        gen = Newer._get_field_default_gen(fld)
        if name == "color":
            assert gen == Color.try_value and gen.__self__ is Color
        else:
            assert gen is expected_gen[name], (name, gen)
        if name in expected_map:
            kt, vt = expected_map[name]
            assert Newer._cls_for(fld) is kt
            assert Newer._cls_for(fld, index=0) is kt
            assert Newer._cls_for(fld, index=1) is vt
            assert Newer._cls_for(fld, 1) is vt
            assert Newer._cls_for(fld, index=-1) == Dict[kt, vt]
        else:
            assert Newer._cls_for(fld) is expected_cls0[name], name
            assert Newer._cls_for(fld, index=0) is expected_cls0[name]
            hint = Newer._type_hint(name)
            assert Newer._cls_for(fld, index=-1) is hint or Newer._cls_for(fld, index=-1) == hint
            if hasattr(hint, "__args__"):
                # negative index: never looks into the arguments
                assert Newer._cls_for(fld, -2) == hint
                if len(hint.__args__) == 1:
                    try:
                        Newer._cls_for(fld, index=1)
                    except IndexError:
                        pass
                    else:
                        raise AssertionError("IndexError expected")
            else:
                assert Newer._cls_for(fld, index=1) is expected_cls0[name]
                assert Newer._cls_for(fld, index=7) is expected_cls0[name]
    # Optional[...] has (X, NoneType) as arguments
    assert Newer._cls_for(flds["opt"], index=1) is NoneType
    assert Newer._cls_for(flds["opt_sub"], index=1) is NoneType

    meta = Newer._betterproto
    assert list(meta.default_gen) == ALL
    for name in ALL:
        if name == "color":
            assert meta.default_gen[name] == Color.try_value
        else:
            assert meta.default_gen[name] is expected_gen[name]
    for name in ALL:
        if name in expected_map:
            kt, vt = expected_map[name]
            entry = meta.cls_by_field[name]
            assert issubclass(entry, Message) and entry.__name__ == "Entry"
            assert [f.name for f in dataclasses.fields(entry)] == ["key", "value"]
            assert entry._type_hints()["key"] is kt and entry._type_hints()["value"] is vt
            assert meta.cls_by_field[f"{name}.value"] is vt
        else:
            assert meta.cls_by_field[name] is expected_cls0[name]
    assert len(meta.cls_by_field) == len(ALL) + len(expected_map)

    # recursive / forward-referenced child
    sflds = fields_of(Sub)
    assert Sub._get_field_default_gen(sflds["kids"]) is list
    assert Sub._cls_for(sflds["kids"]) is Sub
    assert Sub._betterproto.cls_by_field["kids"] is Sub

    # defaults as produced through the table
    n = Newer()
    got = {name: n._get_field_default(name) for name in ALL}
    assert got["i32"] == 0 and type(got["i32"]) is int
    assert got["flag"] is False and got["text"] == "" and got["blob"] == b""
    assert got["dbl"] == 0.0 and type(got["dbl"]) is float
    assert got["color"] is Color.ZERO
    for name in ("ints", "fixeds", "dbls", "strs", "subs", "colors", "tss"):
        assert got[name] == [] and type(got[name]) is list
        assert n._get_field_default(name) is not got[name]
    for name in ("m", "msub", "mcolor"):
        assert got[name] == {} and type(got[name]) is dict
    for name in ("opt", "opt_sub", "wrapped"):
        assert got[name] is None
    assert type(got["sub"]) is Sub and type(got["one_sub"]) is Sub
    assert bytes(got["sub"]) == b"" and not got["sub"]._serialized_on_wire
    assert got["ts"] == datetime(1970, 1, 1, tzinfo=timezone.utc)
    assert got["dur"] == timedelta(0)

    if sys.version_info >= (3, 10):
        p = fields_of(Pep604)
        assert Pep604._get_field_default_gen(p["opt"]) is NoneType
        assert Pep604._get_field_default_gen(p["opt_sub"]) is NoneType
        assert Pep604._get_field_default_gen(p["lst"]) is list
        assert Pep604._get_field_default_gen(p["mp"]) is dict
        assert Pep604._get_field_default_gen(p["plain"]) is Sub
        assert Pep604._cls_for(p["opt"]) is int and Pep604._cls_for(p["opt"], 1) is NoneType
        assert Pep604._cls_for(p["opt_sub"]) is Sub
        assert Pep604._cls_for(p["lst"]) is int
        assert Pep604._cls_for(p["mp"], 0) is str and Pep604._cls_for(p["mp"], 1) is Sub
        assert Pep604._cls_for(p["plain"]) is Sub
        assert Pep604._betterproto.cls_by_field["mp.value"] is Sub
        x = Pep604(opt=0, opt_sub=Sub(a=1), lst=[1, 2], mp={"k": Sub(s="v")}, plain=Sub(d=1.5))
        y = Pep604().parse(bytes(x))
        assert y == x and bytes(y) == bytes(x)
        assert type(y.mp["k"]) is Sub and type(y.opt_sub) is Sub
        assert Pep604().opt is None and Pep604().lst == [] and Pep604().mp == {}

    # a class whose annotation is not a class at all fails the same way
    @dataclass(eq=False, repr=False)
    class Bad(Message):
        x: "5" = betterproto.int32_field(1)  # noqa: F722

    for call in (lambda: Bad._betterproto, lambda: Bad()):
        try:
            call()
        except TypeError:
            pass
        else:
            raise AssertionError("TypeError expected")


# ---------------------------------------------------------------- schema evolution
def split_fields(data):
    out, i = [], 0

    def varint(i):
        v = s = 0
        while True:
            b = data[i]
            i += 1
            v |= (b & 0x7F) << s
            s += 7
            if not b & 0x80:
                return v, i

    while i < len(data):
        start = i
        tag, i = varint(i)
        wt = tag & 7
        if wt == 0:
            _, i = varint(i)
        elif wt == 1:
            i += 8
        elif wt == 5:
            i += 4
        elif wt == 2:
            n, i = varint(i)
            i += n
        else:
            raise AssertionError(wt)
        assert i <= len(data)
        out.append((tag >> 3, wt, data[start:i]))
    return out


def rand_sub(rng, depth=0):
    kids = [rand_sub(rng, depth + 1) for _ in range(rng.randrange(0, 3))] if depth < 2 else []
    return Sub(
        a=rng.choice([0, 1, -1, 2**31 - 1]),
        s=rng.choice(["", "x", "é中"]),
        d=rng.choice([0.0, 1.5, -2.25]),
        kids=kids,
    )


def rand_values(rng):
    vals = {
        "i32": rng.choice([0, 1, -1, 2**31 - 1, -(2**31)]),
        "s64": rng.choice([0, -1, 2**63 - 1, -(2**63)]),
        "text": rng.choice(["", "a", "ü" * rng.randrange(1, 150)]),
        "blob": bytes(rng.randrange(256) for _ in range(rng.randrange(0, 200))),
        "dbl": rng.choice([0.0, 1.0, -3.5, float("inf")]),
        "flag": rng.choice([False, True]),
        "color": rng.choice([Color.ZERO, Color.RED, Color.BLUE]),
        "ints": [rng.randrange(-(2**31), 2**31) for _ in range(rng.randrange(0, 6))],
        "fixeds": [rng.randrange(2**32) for _ in range(rng.randrange(0, 5))],
        "dbls": [rng.choice([0.0, 2.5, -1e10]) for _ in range(rng.randrange(0, 4))],
        "strs": [rng.choice(["", "q", "zz"]) for _ in range(rng.randrange(0, 4))],
        "sub": rand_sub(rng),
        "subs": [rand_sub(rng) for _ in range(rng.randrange(0, 3))],
        "m": {rng.choice("abcdef"): rng.randrange(-50, 50) for _ in range(rng.randrange(0, 4))},
        "msub": {rng.randrange(-5, 5): rand_sub(rng, 2) for _ in range(rng.randrange(0, 3))},
        "ts": datetime(2020, 1, 2, 3, 4, 5, rng.randrange(10**6), tzinfo=timezone.utc),
        "dur": timedelta(seconds=rng.randrange(-10**6, 10**6), microseconds=rng.randrange(10**6)),
        "wrapped": rng.choice([0, 17, -4]),
        "colors": [rng.choice([Color.ZERO, Color.RED, Color.BLUE]) for _ in range(rng.randrange(0, 4))],
        "tss": [datetime(1999, 12, 31, tzinfo=timezone.utc)] * rng.randrange(0, 3),
        "mcolor": {rng.choice("xyz"): rng.choice([Color.RED, Color.BLUE]) for _ in range(rng.randrange(0, 3))},
        "big": rng.choice([0, 1, 2**64 - 1]),
    }
    which = rng.randrange(3)
    if which == 0:
        vals["one_a"] = rng.choice([0, 7])
    elif which == 1:
        vals["one_sub"] = rng.choice([Sub(), rand_sub(rng, 2)])
    if rng.random() < 0.5:
        vals["opt"] = rng.choice([0, 5])
    if rng.random() < 0.5:
        vals["opt_sub"] = rng.choice([Sub(), rand_sub(rng, 2)])
    for k in list(vals):
        if rng.random() < 0.2:
            del vals[k]
    return vals


def test_evolution(rng, n_schemas, n_values):
    schemas = [set(), set(ALL)] + [{f} for f in ALL] + [set(ALL) - {f} for f in ALL]
    while len(schemas) < n_schemas:
        schemas.append({f for f in ALL if rng.random() < 0.5})
    repeated_scalars = ("ints", "fixeds", "dbls", "colors")
    for keep in schemas:
        # some older schemas declare a repeated scalar as a singular one: its packed
        # run must then be kept as an unknown field (default_gen is not list)
        singular = {f for f in repeated_scalars if f in keep and rng.random() < 0.3}
        Older = make_older(keep, "Sub", singular)
        for f in keep:
            is_list = Older._betterproto.default_gen[f] is list
            assert is_list == (SPECS[f][0].startswith("List[") and f not in singular)
        decoded_numbers = {NUMBER[f] for f in keep if f not in singular}
        for _ in range(n_values):
            vals = rand_values(rng)
            newer = Newer(**vals)
            wire = bytes(newer)
            older = Older().parse(wire)
            expected_unknown = b"".join(
                raw for num, _, raw in split_fields(wire) if num not in decoded_numbers
            )
            assert older._unknown_fields == expected_unknown
            for f in keep:
                if f in singular:
                    continue
                if f in vals:
                    assert getattr(older, f) == vals[f], f
                    v = getattr(older, f)
                    if isinstance(vals[f], Message):
                        assert type(v) is type(vals[f])
                    elif isinstance(vals[f], list) and vals[f]:
                        assert type(v[0]) is type(vals[f][0])
                    elif isinstance(vals[f], dict) and vals[f]:
                        k0 = next(iter(vals[f]))
                        assert type(v[k0]) is type(vals[f][k0])
            again = bytes(older)
            assert len(older) == len(again)
            assert sorted(r for _, _, r in split_fields(again)) == sorted(
                r for _, _, r in split_fields(wire)
            )
            back = Newer().parse(again)
            assert back == newer
            assert bytes(back) == wire

    # older nested schema: the child keeps its own unknown fields
    Older = make_older({"sub", "subs", "msub", "one_sub", "opt_sub"}, "SubOld")
    assert Older._betterproto.cls_by_field["sub"] is SubOld
    assert Older._betterproto.cls_by_field["msub.value"] is SubOld
    for _ in range(150):
        vals = rand_values(rng)
        newer = Newer(**vals)
        older = Older().parse(bytes(newer))
        if "sub" in vals:
            assert type(older.sub) is SubOld and older.sub.s == vals["sub"].s
            assert older.sub._unknown_fields == b"".join(
                r for n, _, r in split_fields(bytes(vals["sub"])) if n != 2
            )
        back = Newer().parse(bytes(older))
        assert back == newer and bytes(back) == bytes(newer)


def test_packed_vs_singular():
    """A length-delimited run on a scalar number: decoded iff the field is a list."""
    @dataclass(eq=False, repr=False)
    class Rep(Message):
        v: List[int] = betterproto.int32_field(1)
        f: List[float] = betterproto.float_field(2)

    @dataclass(eq=False, repr=False)
    class Sing(Message):
        v: int = betterproto.int32_field(1)
        f: float = betterproto.float_field(2)

    @dataclass(eq=False, repr=False)
    class OptSing(Message):
        v: Optional[int] = betterproto.int32_field(1, optional=True)

    r = Rep(v=[1, 2, 300, -1], f=[1.5, -2.0])
    wire = bytes(r)
    s = Sing().parse(wire)
    assert s._unknown_fields == wire and s.v == 0 and s.f == 0.0 and bytes(s) == wire
    o = OptSing().parse(wire)
    assert o._unknown_fields == wire and o.v is None and bytes(o) == wire
    assert Rep().parse(bytes(s)) == r
    # unpacked elements are fine for both
    unpacked = b"\x08\x01\x08\x02\x15\x00\x00\xc0\x3f"
    assert Rep().parse(unpacked) == Rep(v=[1, 2], f=[1.5])
    s2 = Sing().parse(unpacked)
    assert s2.v == 2 and s2.f == 1.5 and s2._unknown_fields == b""
    # mixed: packed chunk + single element + packed chunk
    mixed = b"\x0a\x02\x01\x02" + b"\x08\x03" + b"\x0a\x01\x04"
    assert Rep().parse(mixed).v == [1, 2, 3, 4]
    s3 = Sing().parse(mixed)
    assert s3.v == 3 and s3._unknown_fields == b"\x0a\x02\x01\x02\x0a\x01\x04"
    assert bytes(s3) == b"\x08\x03" + b"\x0a\x02\x01\x02\x0a\x01\x04"


def main():
    rng = random.Random(812)
    with warnings.catch_warnings():
        warnings.simplefilter("ignore")
        test_tables()
        test_packed_vs_singular()
        test_evolution(rng, 90, 8)
    print("equiv OK")


if __name__ == "__main__":
    main()
