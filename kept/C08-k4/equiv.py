"""Behavioural check of Message.load / Message.parse framing: which fields are
read for size=None, an explicit size and SIZE_DELIMITED, what is kept as unknown
field, which errors are raised (type, message, stream position, state reached) --
checked against independently computed expectations and google.protobuf.
"""
import random
from dataclasses import dataclass
from io import BytesIO
from typing import Dict, List, Optional

import betterproto
from betterproto import SIZE_DELIMITED, encode_varint, parse_fields
from google.protobuf import descriptor_pb2, descriptor_pool, message_factory

rnd = random.Random(0x5C08)


@dataclass(eq=False, repr=False)
class Sub(betterproto.Message):
    x: int = betterproto.int32_field(1)
    y: str = betterproto.string_field(2)


@dataclass(eq=False, repr=False)
class SubOld(betterproto.Message):
    x: int = betterproto.int32_field(1)


@dataclass(eq=False, repr=False)
class Newer(betterproto.Message):
    a: int = betterproto.int32_field(1)
    b: str = betterproto.string_field(2)
    c: List[int] = betterproto.sint64_field(3)
    d: int = betterproto.fixed32_field(4)
    e: float = betterproto.double_field(5)
    f: Sub = betterproto.message_field(6)
    g: List[Sub] = betterproto.message_field(7)
    h: Dict[str, int] = betterproto.map_field(8, betterproto.TYPE_STRING, betterproto.TYPE_INT32)
    i: bytes = betterproto.bytes_field(20)
    j: Optional[int] = betterproto.int32_field(21, optional=True)
    k: int = betterproto.uint64_field(1000, group="grp")
    l: str = betterproto.string_field(1001, group="grp")


NEWER_FIELDS = list("abcdefghijkl")


def make_older(name: str, keep: set, sub_cls):
    """The Newer schema with every field not in `keep` deleted."""
    import dataclasses

    specs = {
        "a": (int, lambda: betterproto.int32_field(1)),
        "b": (str, lambda: betterproto.string_field(2)),
        "c": (List[int], lambda: betterproto.sint64_field(3)),
        "d": (int, lambda: betterproto.fixed32_field(4)),
        "e": (float, lambda: betterproto.double_field(5)),
        "f": (sub_cls, lambda: betterproto.message_field(6)),
        "g": (List[sub_cls], lambda: betterproto.message_field(7)),
        "h": (Dict[str, int], lambda: betterproto.map_field(8, betterproto.TYPE_STRING, betterproto.TYPE_INT32)),
        "i": (bytes, lambda: betterproto.bytes_field(20)),
        "j": (Optional[int], lambda: betterproto.int32_field(21, optional=True)),
        "k": (int, lambda: betterproto.uint64_field(1000, group="grp")),
        "l": (str, lambda: betterproto.string_field(1001, group="grp")),
    }
    fields = [(n, specs[n][0], specs[n][1]()) for n in NEWER_FIELDS if n in keep]
    return dataclasses.make_dataclass(name, fields, bases=(betterproto.Message,), eq=False, repr=False)


# ---- the same schema for google.protobuf
fdp = descriptor_pb2.FileDescriptorProto(name="c08_keep2.proto", package="c08k2", syntax="proto3")
sub = fdp.message_type.add(name="Sub")
sub.field.add(name="x", number=1, type=5, label=1)
sub.field.add(name="y", number=2, type=9, label=1)
nw = fdp.message_type.add(name="Newer")
nw.field.add(name="a", number=1, type=5, label=1)
nw.field.add(name="b", number=2, type=9, label=1)
nw.field.add(name="c", number=3, type=18, label=3)
nw.field.add(name="d", number=4, type=7, label=1)
nw.field.add(name="e", number=5, type=1, label=1)
nw.field.add(name="f", number=6, type=11, label=1, type_name=".c08k2.Sub")
nw.field.add(name="g", number=7, type=11, label=3, type_name=".c08k2.Sub")
entry = nw.nested_type.add(name="HEntry")
entry.options.map_entry = True
entry.field.add(name="key", number=1, type=9, label=1)
entry.field.add(name="value", number=2, type=5, label=1)
nw.field.add(name="h", number=8, type=11, label=3, type_name=".c08k2.Newer.HEntry")
nw.field.add(name="i", number=20, type=12, label=1)
nw.field.add(name="j", number=21, type=5, label=1, proto3_optional=True, oneof_index=1)
nw.field.add(name="k", number=1000, type=4, label=1, oneof_index=0)
nw.field.add(name="l", number=1001, type=9, label=1, oneof_index=0)
nw.oneof_decl.add(name="grp")
nw.oneof_decl.add(name="_j")
pool = descriptor_pool.DescriptorPool()
pool.Add(fdp)
PbNewer = message_factory.GetMessageClass(pool.FindMessageTypeByName("c08k2.Newer"))


def pb_view(data: bytes):
    m = PbNewer.FromString(data)
    return (
        m.a, m.b, list(m.c), m.d, m.e,
        m.HasField("f"), m.f.x, m.f.y,
        [(s.x, s.y) for s in m.g], dict(m.h), m.i,
        m.HasField("j"), m.j, m.WhichOneof("grp"), m.k, m.l,
    )


def random_newer() -> Newer:
    kw = {}
    if rnd.random() < 0.7:
        kw["a"] = rnd.choice([0, 1, -1, 2**31 - 1, -(2**31), rnd.randint(-1000, 1000)])
    if rnd.random() < 0.7:
        kw["b"] = "".join(rnd.choice("xyzé ") for _ in range(rnd.choice([0, 1, 3, 130])))
    if rnd.random() < 0.7:
        kw["c"] = [rnd.randint(-(2**63), 2**63 - 1) for _ in range(rnd.choice([0, 1, 2, 30]))]
    if rnd.random() < 0.7:
        kw["d"] = rnd.getrandbits(32)
    if rnd.random() < 0.7:
        kw["e"] = rnd.choice([0.0, -1.5, 3.25, 1e-300])
    if rnd.random() < 0.7:
        kw["f"] = Sub(x=rnd.choice([0, 5, -5]), y=rnd.choice(["", "sub"]))
    if rnd.random() < 0.7:
        kw["g"] = [Sub(x=rnd.choice([0, 9]), y=rnd.choice(["", "q"])) for _ in range(rnd.randint(0, 3))]
    if rnd.random() < 0.7:
        kw["h"] = {rnd.choice(["", "k1", "k2", "k3"]): rnd.choice([0, 1, -7]) for _ in range(rnd.randint(0, 3))}
    if rnd.random() < 0.7:
        kw["i"] = bytes(rnd.getrandbits(8) for _ in range(rnd.choice([0, 1, 127, 128, 300])))
    if rnd.random() < 0.5:
        kw["j"] = rnd.choice([0, 1, -1])
    r = rnd.random()
    if r < 0.3:
        kw["k"] = rnd.choice([0, 1, 2**64 - 1])
    elif r < 0.6:
        kw["l"] = rnd.choice(["", "ell"])
    return Newer(**kw)


def raw_multiset(data: bytes):
    return sorted(f.raw for f in parse_fields(data))


def expect_value_error(fn, message: str):
    try:
        fn()
    except ValueError as e:
        assert str(e) == message, (str(e), message)
    else:
        raise AssertionError("no ValueError: " + message)


# ------------------------------------------------------------------ schema pairs
subsets = [set(), set(NEWER_FIELDS), {"a"}, {"l"}, {"f", "g"}, {"c", "h", "k"}]
subsets += [{n for n in NEWER_FIELDS if rnd.random() < 0.5} for _ in range(20)]
olders = []
for n, keep in enumerate(subsets):
    olders.append((keep, make_older(f"Older{n}", keep, SubOld if n % 2 else Sub)))

for round_ in range(150):
    newer = random_newer()
    data = bytes(newer)
    assert pb_view(data) == pb_view(PbNewer.FromString(data).SerializeToString())
    view = pb_view(data)
    frames = BytesIO()
    used = rnd.sample(olders, 6)
    for keep, cls in used:
        older = cls().parse(data)
        # known fields decode as in the newer message
        for name in keep:
            try:
                want = getattr(newer, name)
            except AttributeError:
                assert name in "kl"
                continue
            got = getattr(older, name)
            if name == "f":
                assert got.x == want.x
            elif name == "g":
                assert [s.x for s in got] == [s.x for s in want]
            else:
                assert got == want, (name, got, want)
        out = bytes(older)
        assert len(older) == len(out)
        if cls._betterproto.cls_by_field.get("f") is not SubOld:
            assert raw_multiset(out) == raw_multiset(data)
        assert pb_view(out) == view
        again = Newer().parse(out)
        assert again == newer
        assert betterproto.which_one_of(again, "grp") == betterproto.which_one_of(newer, "grp")
        assert again.j == newer.j
        # the three ways of reading agree
        with BytesIO(data + b"\xff\xff") as s:
            sized = cls().load(s, len(data))
            assert s.tell() == len(data)
        assert bytes(sized) == out and sized._unknown_fields == older._unknown_fields
        with BytesIO(encode_varint(len(data)) + data + b"\xff\xff") as s:
            delim = cls().load(s, SIZE_DELIMITED)
            assert s.read() == b"\xff\xff"
        assert bytes(delim) == out and delim._unknown_fields == older._unknown_fields
        older.dump(frames, SIZE_DELIMITED)

    # a stream of delimited frames written by older writers is read back intact
    frames.seek(0)
    for keep, cls in used:
        start = frames.tell()
        got = Newer().load(frames, SIZE_DELIMITED)
        assert got == newer
        assert pb_view(bytes(got)) == view
    assert frames.read() == b""
    # ... also by another older reader, frame by frame
    frames.seek(0)
    keep, cls = used[0]
    for _ in used:
        m = cls().load(frames, SIZE_DELIMITED)
        assert pb_view(bytes(m)) == view
    assert frames.read() == b""

    # ---- wrong sizes
    keep, cls = used[1]
    fields = list(parse_fields(data))
    ends = []
    pos = 0
    for f in fields:
        pos += len(f.raw)
        ends.append(pos)
    for size in sorted(set([0, 1, 2, len(data) - 1, len(data) + 1, len(data) + 7] + rnd.sample(range(len(data) + 1), min(5, len(data) + 1)))):
        if size < 0:
            continue
        with BytesIO(data) as s:
            msg = cls()
            if size in [0] + ends:
                # a field boundary: exactly the fields before it are read
                msg.load(s, size)
                assert s.tell() == size
                assert bytes(msg) == bytes(cls().parse(data[:size]))
            elif size > len(data):
                expect_value_error(
                    lambda: msg.load(s, size),
                    f"Expected message of size {size}, but was only able to "
                    f"read {len(data)} bytes - the stream may have ended too soon,"
                    " or the expected size may have been incorrect.",
                )
                assert s.tell() == len(data)
                # everything before the error was taken in
                assert bytes(msg) == bytes(cls().parse(data))
            else:
                before = max([e for e in ends if e < size], default=0)
                after = min(e for e in ends if e > size)
                expect_value_error(
                    lambda: msg.load(s, size),
                    f"Expected message of size {size}, can only read "
                    f"either {before} or {after} bytes - there is no "
                    "message of the expected size in the stream.",
                )
                assert s.tell() == after
                # the overrunning field is not taken in, the ones before are
                assert bytes(msg) == bytes(cls().parse(data[:before]))

    # ---- truncated input
    for cut in rnd.sample(range(len(data) + 1), min(6, len(data) + 1)):
        try:
            m = cls().parse(data[:cut])
        except EOFError:
            assert cut not in [0] + ends
        else:
            assert cut in [0] + ends
            assert raw_multiset(bytes(m)) == raw_multiset(data[:cut]) or cls._betterproto.cls_by_field.get("f") is SubOld

# ------------------------------------------------------------------ edge cases
Older = olders[2][1]  # knows only `a`
assert bytes(Older().parse(b"")) == b""
with BytesIO(b"\x08\x01") as s:
    m = Older().load(s, 0)
    assert s.tell() == 0 and bytes(m) == b"" and betterproto.serialized_on_wire(m)
with BytesIO(b"\x00\x08\x01") as s:  # an empty frame followed by data
    m = Older().load(s, SIZE_DELIMITED)
    assert s.tell() == 1 and bytes(m) == b""
with BytesIO(b"") as s:
    expect_value_error(
        lambda: Older().load(s, 3),
        "Expected message of size 3, but was only able to read 0 bytes - the stream "
        "may have ended too soon, or the expected size may have been incorrect.",
    )
with BytesIO(b"") as s:
    try:
        Older().load(s, SIZE_DELIMITED)
    except EOFError:
        pass
    else:
        raise AssertionError
# unknown fields only, sized: all counted, all kept, in order
unknown = b"\x10\x00" + b"\x1d\x01\x02\x03\x04" + b"\x22\x00" + b"\xa1\x06" + bytes(8) + b"\x10\x05"
for extra in (b"", b"\x08\x07"):
    with BytesIO(unknown + extra) as s:
        m = Older().load(s, len(unknown))
        assert s.tell() == len(unknown)
        assert m._unknown_fields == unknown and bytes(m) == unknown
with BytesIO(unknown) as s:
    m = Older()
    expect_value_error(
        lambda: m.load(s, len(unknown) - 1),
        f"Expected message of size {len(unknown) - 1}, can only read either "
        f"{len(unknown) - 2} or {len(unknown)} bytes - there is no message of the expected size in the stream.",
    )
    assert m._unknown_fields == unknown[:-2]
# parse twice: unknown fields accumulate in arrival order
m = Older().parse(b"\x10\x01").parse(b"\x08\x03\x10\x02")
assert m.a == 3 and m._unknown_fields == b"\x10\x01\x10\x02" and bytes(m) == b"\x08\x03\x10\x01\x10\x02"
# malformed input inside a sized read surfaces the reader's own error
for bad, exc in ((b"\x00\x01", ValueError), (b"\x0b\x01", ValueError), (b"\x12\x05ab", EOFError)):
    with BytesIO(bad) as s:
        try:
            Older().load(s, len(bad))
        except exc as e:
            assert "Expected message of size" not in str(e)
        else:
            raise AssertionError(bad)

print("equiv keep2 OK")
