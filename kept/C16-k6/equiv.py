"""C16 equivalence check for the fixed-width codecs (fixed32/64, sfixed32/64, float, double).

Single-field and packed-repeated messages are compared byte-for-byte with google.protobuf
and with an independent int.to_bytes / bit-pattern oracle, decoded back, measured with
len(), and fed out-of-range values (which must keep raising struct.error / OverflowError).
"""
import math
import random
import struct
from dataclasses import dataclass
from typing import List, Optional

import betterproto
from google.protobuf import descriptor_pb2, descriptor_pool, message_factory

rnd = random.Random(1602)
FDP = descriptor_pb2.FieldDescriptorProto

KINDS = {
    # kind: (descriptor type, field factory, size, wire type)
    "fixed32": (FDP.TYPE_FIXED32, betterproto.fixed32_field, 4, 5),
    "sfixed32": (FDP.TYPE_SFIXED32, betterproto.sfixed32_field, 4, 5),
    "float": (FDP.TYPE_FLOAT, betterproto.float_field, 4, 5),
    "fixed64": (FDP.TYPE_FIXED64, betterproto.fixed64_field, 8, 1),
    "sfixed64": (FDP.TYPE_SFIXED64, betterproto.sfixed64_field, 8, 1),
    "double": (FDP.TYPE_DOUBLE, betterproto.double_field, 8, 1),
}

fdp = descriptor_pb2.FileDescriptorProto(name="c16_k2.proto", package="c16k2", syntax="proto3")
for kind, (ftype, _, _, _) in KINDS.items():
    m = fdp.message_type.add(name="M_" + kind)
    m.field.add(name="v", number=1, type=ftype, label=FDP.LABEL_OPTIONAL)
    m.field.add(name="r", number=2, type=ftype, label=FDP.LABEL_REPEATED)
    m.field.add(name="o", number=3, type=ftype, label=FDP.LABEL_OPTIONAL, proto3_optional=True, oneof_index=0)
    m.oneof_decl.add(name="_o")
pool = descriptor_pool.DescriptorPool()
pool.Add(fdp)
REF = {
    k: message_factory.GetMessageClass(pool.FindMessageTypeByName("c16k2.M_" + k)) for k in KINDS
}


def make(kind):
    factory = KINDS[kind][1]
    pytype = float if kind in ("float", "double") else int

    @dataclass(eq=False, repr=False)
    class M(betterproto.Message):
        v: pytype = factory(1)
        r: List[pytype] = factory(2)
        o: Optional[pytype] = factory(3, optional=True)

    M.__name__ = "M_" + kind
    return M


BP = {k: make(k) for k in KINDS}


def f32(bits):
    return struct.unpack("<f", bits.to_bytes(4, "little"))[0]


def f64(bits):
    return struct.unpack("<d", bits.to_bytes(8, "little"))[0]


def int_values(lo, hi):
    vals = {lo, lo + 1, lo + 2, hi, hi - 1, hi - 2, 0, 1, 2, 255, 256, 65535, 65536}
    vals.update((-1, -2, -255, -256, 2**31 - 1, 2**31, -(2**31), 2**32 - 1, 2**63 - 1, 2**63))
    for k in range(0, 65):
        for d in (-1, 0, 1):
            vals.update((2**k + d, -(2**k) + d))
    for _ in range(1500):
        vals.add(rnd.randint(lo, hi))
    for _ in range(300):
        vals.add(rnd.randint(-1000, 1000))
    return sorted(v for v in vals if lo <= v <= hi)


def float_values():
    vals = [0.0, -0.0, 1.0, -1.0, 0.5, 1.5, 0.1, -0.1, 1e-45, -1e-45, 1.401298464324817e-45,
            1.1754943508222875e-38, 1.1754942106924411e-38, 3.4028234663852886e38,
            -3.4028234663852886e38, 16777216.0, 16777217.0, 16777219.0, 1e10, 3.14159, 2.5e-40,
            math.inf, -math.inf, 1 + 2**-24, 1 + 2**-23, 1 + 3 * 2**-24, 1 + 2**-24 + 2**-50]
    for _ in range(3000):
        x = f32(rnd.getrandbits(32))
        if not math.isnan(x):
            vals.append(x)
    for _ in range(1500):  # doubles that need rounding to float32
        vals.append(rnd.uniform(-1, 1) * 10 ** rnd.randint(-30, 30))
    return vals


def double_values():
    vals = [0.0, -0.0, 1.0, -1.0, 0.1, 5e-324, -5e-324, 2.2250738585072014e-308,
            1.7976931348623157e308, -1.7976931348623157e308, math.inf, -math.inf, 2.0**53, 2.0**53 + 2]
    for _ in range(3000):
        x = f64(rnd.getrandbits(64))
        if not math.isnan(x):
            vals.append(x)
    for _ in range(1000):
        vals.append(rnd.uniform(-1, 1) * 10 ** rnd.randint(-300, 300))
    return vals


RANGES = {
    "fixed32": (0, 2**32 - 1),
    "sfixed32": (-(2**31), 2**31 - 1),
    "fixed64": (0, 2**64 - 1),
    "sfixed64": (-(2**63), 2**63 - 1),
}


def oracle_payload(kind, value):
    size = KINDS[kind][2]
    if kind in RANGES:
        return (value % (1 << (8 * size))).to_bytes(size, "little")
    return None


def same(a, b):
    return (a == b and math.copysign(1, a) == math.copysign(1, b)) or (a != a and b != b)


checked = 0
for kind, (_, _, size, wire) in KINDS.items():
    if kind in RANGES:
        vals = int_values(*RANGES[kind])
    elif kind == "float":
        vals = float_values()
    else:
        vals = double_values()
    M, R = BP[kind], REF[kind]
    for value in vals:
        # singular (proto3 optional, so that zeros are emitted too)
        got = bytes(M(o=value))
        ref = R(o=value).SerializeToString()
        assert got == ref, (kind, value, got.hex(), ref.hex())
        assert len(got) == 1 + size and got[0] == (3 << 3) | wire
        payload = oracle_payload(kind, value)
        if payload is not None:
            assert got[1:] == payload, (kind, value)
        assert len(M(o=value)) == len(ref)
        back = M().parse(got).o
        if kind in RANGES:
            assert back == value and type(back) is int
        else:
            assert same(back, R.FromString(ref).o), (kind, value, back)
            assert bytes(M(o=back)) == got  # decode then encode is the identity on bytes
        # plain singular field for non-zero values
        if value != 0:
            got = bytes(M(v=value))
            assert got == R(v=value).SerializeToString(), (kind, value)
            assert len(M(v=value)) == len(got) == 1 + size
        checked += 1
    # packed repeated runs
    for _ in range(200):
        run = [rnd.choice(vals) for _ in range(rnd.randint(1, 40))]
        got = bytes(M(r=run))
        ref = R(r=run).SerializeToString()
        assert got == ref, (kind, run)
        assert len(M(r=run)) == len(ref)
        back = M().parse(got).r
        assert len(back) == len(run)
        assert bytes(M(r=back)) == got
        if kind in RANGES:
            assert back == run

# NaNs: the canonical quiet NaNs of either sign, and for double every bit pattern is kept
for kind in ("float", "double"):
    M, R = BP[kind], REF[kind]
    for value in (math.nan, -math.nan, math.copysign(math.nan, -1.0)):
        got = bytes(M(o=value))
        assert got == R(o=value).SerializeToString(), (kind, got.hex())
        assert math.isnan(M().parse(got).o)
for _ in range(2000):
    bits = rnd.getrandbits(64) | (0x7FF << 52)  # inf or NaN with arbitrary payload / sign
    raw = bits.to_bytes(8, "little")
    value = BP["double"]().parse(b"\x19" + raw).o
    assert bytes(BP["double"](o=value)) == b"\x19" + raw, raw.hex()
for _ in range(2000):
    raw = rnd.getrandbits(32).to_bytes(4, "little")
    x = f32(int.from_bytes(raw, "little"))
    if math.isnan(x):
        continue
    assert bytes(BP["float"](o=x)) == b"\x1d" + raw
    assert same(BP["float"]().parse(b"\x1d" + raw).o, x)

# out-of-range values keep being rejected with the same exception types, for bytes() and len()
def outcome(fn):
    try:
        return ("ok", fn())
    except Exception as e:  # noqa: BLE001
        return (type(e).__name__, str(e))


EXPECT_ERR = {
    "fixed32": [-1, 2**32, 2**64],
    "sfixed32": [-(2**31) - 1, 2**31, 2**32],
    "fixed64": [-1, 2**64, 2**70],
    "sfixed64": [-(2**63) - 1, 2**63, 2**64],
    "float": [1e39, -1e39, 3.5e38, 1.7976931348623157e308],
}
for kind, bad_values in EXPECT_ERR.items():
    M = BP[kind]
    for bad in bad_values:
        a = outcome(lambda: bytes(M(o=bad)))
        b = outcome(lambda: len(M(o=bad)))
        c = outcome(lambda: bytes(M(r=[1, bad])))
        want = "OverflowError" if kind == "float" else "error"  # struct.error
        assert a[0] == b[0] == c[0] == want, (kind, bad, a, b, c)
        assert a[1] == b[1] == c[1] == outcome(lambda: struct.pack(betterproto._pack_fmt(kind), bad))[1]
for kind in RANGES:
    for bad in (1.5, "1", None):
        a = outcome(lambda: bytes(BP[kind](o=bad) if bad is not None else BP[kind](r=[None])))
        assert a[0] == "error", (kind, bad, a)
for kind in ("float", "double"):
    # ints and bools are accepted by the float formats
    assert bytes(BP[kind](o=3)) == bytes(BP[kind](o=3.0))
    assert bytes(BP[kind](o=True)) == bytes(BP[kind](o=1.0))
    assert outcome(lambda: bytes(BP[kind](o="x")))[0] == "error"

# the format table itself
assert [betterproto._pack_fmt(k) for k in ("double", "float", "fixed32", "fixed64", "sfixed32", "sfixed64")] == [
    "<d", "<f", "<I", "<Q", "<i", "<q"]
for other in ("int32", "string", "bool", "message", "nope"):
    try:
        betterproto._pack_fmt(other)
    except KeyError as e:
        assert e.args == (other,)
    else:
        raise AssertionError(other)

# a payload of the wrong width never reaches the unpacker silently
for kind, (_, _, size, wire) in KINDS.items():
    tag = bytes([(3 << 3) | wire])
    for cut in range(size):
        r = outcome(lambda: BP[kind]().parse(tag + b"\x01" * cut))
        assert r[0] in ("EOFError", "ValueError"), (kind, cut, r)

print(f"ok: {checked} values")
