"""C16 equivalence check for the varint encoder (dump_varint / encode_varint / size_varint).

Compares against an independent canonical encoder and google.protobuf's pure-python
varint encoders, checks what is written to the stream (one single-byte bytes object
per varint byte, in order; nothing at all when the value is rejected), that
decode_varint / load_varint invert the encoding, and that single-field messages of
every varint-backed scalar kind match google.protobuf byte for byte.
"""
import random
from dataclasses import dataclass
from io import BytesIO

import betterproto
from google.protobuf import descriptor_pb2, descriptor_pool, message_factory
from google.protobuf.internal import encoder as pb_encoder

MASK64 = (1 << 64) - 1
rng = random.Random(0xC16)


def ref_varint(value: int) -> bytes:
    assert -(1 << 63) <= value < (1 << 64)
    value &= MASK64
    out = bytearray()
    while value > 0x7F:
        out.append(0x80 | (value & 0x7F))
        value >>= 7
    out.append(value)
    return bytes(out)


_pb_unsigned = pb_encoder._VarintEncoder()
_pb_signed = pb_encoder._SignedVarintEncoder()


def pb_varint(value: int) -> bytes:
    chunks = []
    (_pb_signed if value < 0 else _pb_unsigned)(chunks.append, value)
    return b"".join(chunks)


class RecordingStream:
    def __init__(self):
        self.writes = []

    def write(self, data):
        self.writes.append(data)
        return len(data)


def check_value(v: int, with_stream: bool = True) -> None:
    expected = ref_varint(v)
    got = betterproto.encode_varint(v)
    assert type(got) is bytes and got == expected, (v, got, expected)
    assert betterproto.size_varint(v) == len(expected), v
    if with_stream:
        rec = RecordingStream()
        assert betterproto.dump_varint(v, rec) is None
        assert all(type(w) is bytes and len(w) == 1 for w in rec.writes), (v, rec.writes)
        assert b"".join(rec.writes) == expected, (v, rec.writes)
        assert len(rec.writes) == len(expected), v
        unsigned = v & MASK64
        assert betterproto.decode_varint(got, 0) == (unsigned, len(got)), v
        assert betterproto.decode_varint(b"\xff" + got + b"\x01", 1) == (unsigned, 1 + len(got)), v
        assert betterproto.load_varint(BytesIO(got + b"\x7f")) == (unsigned, got), v
        assert betterproto.load_varint(BytesIO(got[1:]), got[:1]) == (unsigned, got), v


# 1. exhaustive small range (encode + size only, for speed), both signs
for v in range(0, 1 << 20):
    expected = ref_varint(v)
    assert betterproto.encode_varint(v) == expected, v
    assert betterproto.size_varint(v) == len(expected), v
for v in range(-(1 << 14), 0):
    check_value(v)
for v in range(0, 1 << 14):
    check_value(v)

# 2. every 7-bit / 32-bit / 64-bit boundary, both signs
boundary = set()
for k in list(range(0, 65)):
    for d in range(-4, 5):
        for base in ((1 << k), -(1 << k)):
            v = base + d
            if -(1 << 63) <= v < (1 << 64):
                boundary.add(v)
for v in sorted(boundary):
    check_value(v)
    assert pb_varint(v) == betterproto.encode_varint(v), v

# 3. random values of every bit length
for _ in range(40000):
    bits = rng.randrange(1, 65)
    v = rng.getrandbits(bits)
    if rng.random() < 0.4:
        v = -v
        if v < -(1 << 63):
            v = -(1 << 63)
    check_value(v, with_stream=(_ % 4 == 0))
    if _ % 8 == 0:
        assert pb_varint(v) == betterproto.encode_varint(v), v

# 4. bools and int subclasses go through the same code
assert betterproto.encode_varint(True) == b"\x01" and betterproto.encode_varint(False) == b"\x00"
assert betterproto.size_varint(True) == 1 and betterproto.size_varint(False) == 1
rec = RecordingStream()
betterproto.dump_varint(True, rec)
betterproto.dump_varint(False, rec)
assert rec.writes == [b"\x01", b"\x00"]

# 5. rejected values: ValueError with the same message, nothing written
MSG = (
    "Negative value is not representable as a 64-bit integer - "
    "unable to encode a varint within 10 bytes."
)
for v in [-(1 << 63) - 1, -(1 << 63) - 2, -(1 << 64), -(1 << 64) - 1, -(1 << 70), -(10**30)]:
    for fn in (
        betterproto.encode_varint,
        betterproto.size_varint,
        lambda x: betterproto.dump_varint(x, RecordingStream()),
    ):
        try:
            fn(v)
        except ValueError as e:
            assert str(e) == MSG, str(e)
        else:
            raise AssertionError(("not rejected", v))
    rec = RecordingStream()
    try:
        betterproto.dump_varint(v, rec)
    except ValueError:
        pass
    assert rec.writes == [], (v, rec.writes)

# values that are no integers are still a TypeError
for bad in (1.5, "1", None, b"\x01"):
    for fn in (betterproto.encode_varint, lambda x: betterproto.dump_varint(x, RecordingStream())):
        try:
            fn(bad)
        except TypeError:
            pass
        else:
            raise AssertionError(("accepted", bad))

# 6. consecutive dumps into one real stream
with BytesIO() as stream:
    seq = [0, 1, 127, 128, 300, -1, (1 << 64) - 1, -(1 << 63), 1 << 35]
    for v in seq:
        betterproto.dump_varint(v, stream)
    data = stream.getvalue()
assert data == b"".join(ref_varint(v) for v in seq)
pos = 0
for v in seq:
    dec, pos = betterproto.decode_varint(data, pos)
    assert dec == v & MASK64
assert pos == len(data)

# 7. single-field messages of the varint-backed kinds vs google.protobuf
F = descriptor_pb2.FieldDescriptorProto
KINDS = [
    ("int32", F.TYPE_INT32, -(1 << 31), (1 << 31) - 1),
    ("int64", F.TYPE_INT64, -(1 << 63), (1 << 63) - 1),
    ("uint32", F.TYPE_UINT32, 0, (1 << 32) - 1),
    ("uint64", F.TYPE_UINT64, 0, (1 << 64) - 1),
    ("sint32", F.TYPE_SINT32, -(1 << 31), (1 << 31) - 1),
    ("sint64", F.TYPE_SINT64, -(1 << 63), (1 << 63) - 1),
    ("bool", F.TYPE_BOOL, 0, 1),
]
fdp = descriptor_pb2.FileDescriptorProto(name="c16_keep1.proto", package="c16k1", syntax="proto3")
msg = fdp.message_type.add(name="M")
for i, (name, ftype, lo, hi) in enumerate(KINDS, start=1):
    # spread the field numbers so that multi-byte keys are covered as well
    msg.field.add(name="f_" + name, number=i * 37 if i % 2 else i, type=ftype, label=F.LABEL_OPTIONAL)
pool = descriptor_pool.DescriptorPool()
pool.Add(fdp)
RefM = message_factory.GetMessageClass(pool.FindMessageTypeByName("c16k1.M"))


@dataclass(eq=False, repr=False)
class M(betterproto.Message):
    f_int32: int = betterproto.int32_field(37)
    f_int64: int = betterproto.int64_field(2)
    f_uint32: int = betterproto.uint32_field(111)
    f_uint64: int = betterproto.uint64_field(4)
    f_sint32: int = betterproto.sint32_field(185)
    f_sint64: int = betterproto.sint64_field(6)
    f_bool: bool = betterproto.bool_field(259)


for name, ftype, lo, hi in KINDS:
    attr = "f_" + name
    if name == "bool":
        vals = [False, True]
    else:
        vals = {lo, lo + 1, hi - 1, hi, 0, 1, -1 if lo < 0 else 2}
        for k in range(0, 65, 7):
            for d in (-1, 0, 1):
                for base in ((1 << k), -(1 << k)):
                    if lo <= base + d <= hi:
                        vals.add(base + d)
        for _ in range(300):
            vals.add(rng.randrange(lo, hi + 1))
            vals.add(max(lo, min(hi, rng.getrandbits(rng.randrange(1, 65)) * rng.choice((1, -1)))))
        vals = sorted(vals)
    for v in vals:
        ours = M(**{attr: v})
        data = bytes(ours)
        assert data == RefM(**{attr: v}).SerializeToString(), (name, v, data)
        assert len(ours) == len(data), (name, v)
        assert getattr(M().parse(data), attr) == v, (name, v)
        with BytesIO() as stream:
            ours.dump(stream, betterproto.SIZE_DELIMITED)
            assert stream.getvalue() == ref_varint(len(data)) + data, (name, v)

print("equiv ok")
