"""Equivalence checks for Message._postprocess_single (turns the raw payload of a
known field into its Python value; for nested messages this is where the child -
including the child's unknown fields - is parsed).

Oracles: literal expectations for hand-made wire data, and google.protobuf as
reference encoder / decoder for randomly filled messages passed through older
schemas.
"""
import random
import struct
from dataclasses import dataclass
from datetime import datetime, timedelta, timezone
from typing import Dict, List, Optional

import betterproto
from google.protobuf import (
    descriptor_pb2,
    descriptor_pool,
    duration_pb2,
    message_factory,
    timestamp_pb2,
    wrappers_pb2,
)

random.seed(8082)


def varint(v, pad=0):
    """Varint of v (two's complement for negatives), optionally over-long."""
    if v < 0:
        v += 1 << 64
    out = bytearray()
    while True:
        b = v & 0x7F
        v >>= 7
        if v or pad:
            out.append(b | 0x80)
            if not v:
                out.extend([0x80] * (pad - 1) + [0x00])
                return bytes(out)
        else:
            out.append(b)
            return bytes(out)


assert varint(300) == b"\xac\x02" and varint(1, pad=2) == b"\x81\x80\x00"
assert varint(-1) == b"\xff" * 9 + b"\x01"


# =========================================================== 1. literal cases
class Color(betterproto.Enum):
    ZERO = 0
    ONE = 1
    NEG = -5
    BIG = 2**31 - 1


@dataclass(eq=False, repr=False)
class Child(betterproto.Message):
    a: int = betterproto.int32_field(1)


@dataclass(eq=False, repr=False)
class Lit(betterproto.Message):
    i32: int = betterproto.int32_field(1)
    i64: int = betterproto.int64_field(2)
    u32: int = betterproto.uint32_field(3)
    u64: int = betterproto.uint64_field(4)
    s32: int = betterproto.sint32_field(5)
    s64: int = betterproto.sint64_field(6)
    b: bool = betterproto.bool_field(7)
    e: Color = betterproto.enum_field(8)
    f32: float = betterproto.float_field(9)
    x32: int = betterproto.fixed32_field(10)
    sx32: int = betterproto.sfixed32_field(11)
    f64: float = betterproto.double_field(12)
    x64: int = betterproto.fixed64_field(13)
    sx64: int = betterproto.sfixed64_field(14)
    s: str = betterproto.string_field(15)
    by: bytes = betterproto.bytes_field(16)
    child: Child = betterproto.message_field(17)
    ts: datetime = betterproto.message_field(18)
    du: timedelta = betterproto.message_field(19)
    w: Optional[int] = betterproto.message_field(20, wraps=betterproto.TYPE_INT64)
    ws: Optional[str] = betterproto.message_field(21, wraps=betterproto.TYPE_STRING)
    wb: Optional[bool] = betterproto.message_field(22, wraps=betterproto.TYPE_BOOL)
    r_i32: List[int] = betterproto.int32_field(31)
    r_s64: List[int] = betterproto.sint64_field(32)
    r_b: List[bool] = betterproto.bool_field(33)
    r_e: List[Color] = betterproto.enum_field(34)
    r_f32: List[float] = betterproto.float_field(35)
    r_sx64: List[int] = betterproto.sfixed64_field(36)
    r_child: List[Child] = betterproto.message_field(37)
    r_s: List[str] = betterproto.string_field(38)
    m: Dict[int, Child] = betterproto.map_field(39, "sint32", "message")
    m2: Dict[str, Color] = betterproto.map_field(40, "string", "enum")
    r_u64: List[int] = betterproto.uint64_field(41)


def tag(number, wire):
    return varint(number << 3 | wire)


def vfield(number, raw):
    return tag(number, 0) + raw


def lfield(number, payload):
    return tag(number, 2) + varint(len(payload)) + payload


U = b"\xa8\x1f\x07" + b"\xb2\x1f\x02hi"  # two fields unknown to every class here

VARINT_CASES = [
    # (field name, number, raw varint bytes, expected value)
    ("i32", 1, varint(0), 0),
    ("i32", 1, varint(1), 1),
    ("i32", 1, varint(-1), -1),  # sign-extended to 10 bytes
    ("i32", 1, varint(0xFFFFFFFF), -1),  # 5 bytes, not sign-extended
    ("i32", 1, varint(0x7FFFFFFF), 2**31 - 1),
    ("i32", 1, varint(0x80000000), -(2**31)),
    ("i32", 1, varint(-(2**31)), -(2**31)),
    ("i32", 1, varint((1 << 32) + 5), 5),  # over-wide: low 32 bits count
    ("i32", 1, varint((1 << 63) + 7), 7),
    ("i32", 1, varint(5, pad=3), 5),  # over-long encoding
    ("i64", 2, varint(-1), -1),
    ("i64", 2, varint(1 << 63), -(2**63)),
    ("i64", 2, varint((1 << 63) - 1), 2**63 - 1),
    ("i64", 2, varint(0xFFFFFFFF), 0xFFFFFFFF),
    ("u32", 3, varint(0xFFFFFFFF), 0xFFFFFFFF),
    ("u32", 3, varint(0), 0),
    ("u64", 4, varint(-1), 2**64 - 1),
    ("u64", 4, varint(1 << 63), 1 << 63),
    ("s32", 5, varint(0), 0),
    ("s32", 5, varint(1), -1),
    ("s32", 5, varint(2), 1),
    ("s32", 5, varint(3), -2),
    ("s32", 5, varint(0xFFFFFFFF), -(2**31)),
    ("s32", 5, varint(0xFFFFFFFE), 2**31 - 1),
    ("s64", 6, varint(-1), -(2**63)),
    ("s64", 6, varint((1 << 64) - 2), 2**63 - 1),
    ("s64", 6, varint(1, pad=1), -1),
    ("b", 7, varint(0), False),
    ("b", 7, varint(1), True),
    ("b", 7, varint(2), True),
    ("b", 7, varint(-1), True),
    ("b", 7, varint(0, pad=2), False),
    ("e", 8, varint(0), Color.ZERO),
    ("e", 8, varint(1), Color.ONE),
    ("e", 8, varint(-5), Color.NEG),
    ("e", 8, varint(0xFFFFFFFB), Color.NEG),
    ("e", 8, varint(0x7FFFFFFF), Color.BIG),
]
n = 0
for name, number, raw, want in VARINT_CASES:
    for before, after in [(b"", b""), (U, b""), (b"", U), (U, U)]:
        msg = Lit().parse(before + vfield(number, raw) + after)
        got = getattr(msg, name)
        assert got == want and type(got) is type(want), (name, raw, got, want)
        assert msg._unknown_fields == before + after
        n += 1
    # the same number inside a packed run and as an unpacked repeated element
    rep = {"i32": ("r_i32", 31), "s64": ("r_s64", 32), "b": ("r_b", 33),
           "e": ("r_e", 34), "u64": ("r_u64", 41)}.get(name)
    if rep:
        rname, rnum = rep
        msg = Lit().parse(
            lfield(rnum, raw + raw) + U + vfield(rnum, raw) + lfield(rnum, b"")
        )
        got = getattr(msg, rname)
        assert got == [want] * 3, (rname, got)
        assert all(type(g) is type(want) for g in got)
        assert msg._unknown_fields == U
        n += 1

# enum numbers the enum does not define are kept as numbers of the enum class
for raw, num in [(varint(7), 7), (varint(-2), -2), (varint(0xFFFFFFFE), -2)]:
    got = Lit().parse(vfield(8, raw)).e
    assert isinstance(got, Color) and int(got) == num and got.value == num
    got = Lit().parse(lfield(40, lfield(1, b"k") + vfield(2, raw))).m2
    assert list(got) == ["k"] and int(got["k"]) == num

FIXED_CASES = [
    ("f32", 9, 5, struct.pack("<f", 1.5), 1.5),
    ("f32", 9, 5, struct.pack("<f", float("-inf")), float("-inf")),
    ("x32", 10, 5, b"\xff\xff\xff\xff", 2**32 - 1),
    ("x32", 10, 5, b"\x01\x00\x00\x80", 2**31 + 1),
    ("sx32", 11, 5, b"\xff\xff\xff\xff", -1),
    ("sx32", 11, 5, b"\x00\x00\x00\x80", -(2**31)),
    ("f64", 12, 1, struct.pack("<d", -2.5e-300), -2.5e-300),
    ("x64", 13, 1, b"\xff" * 8, 2**64 - 1),
    ("sx64", 14, 1, b"\xff" * 8, -1),
    ("sx64", 14, 1, b"\x00" * 7 + b"\x80", -(2**63)),
]
for name, number, wire, raw, want in FIXED_CASES:
    msg = Lit().parse(U + tag(number, wire) + raw + U)
    got = getattr(msg, name)
    assert got == want and type(got) is type(want), (name, got)
    assert msg._unknown_fields == U + U
    n += 1
msg = Lit().parse(
    lfield(35, struct.pack("<3f", 0.5, -1.0, 8.0)) + tag(35, 5) + struct.pack("<f", 2.0)
    + lfield(36, struct.pack("<2q", -1, 2**63 - 1)) + tag(36, 1) + struct.pack("<q", -7)
)
assert msg.r_f32 == [0.5, -1.0, 8.0, 2.0] and msg.r_sx64 == [-1, 2**63 - 1, -7]
nan = Lit().parse(tag(12, 1) + struct.pack("<d", float("nan"))).f64
assert nan != nan

# length-delimited kinds
msg = Lit().parse(
    lfield(15, "grüß".encode()) + lfield(16, b"\xff\x00\xfe") + lfield(38, b"")
    + lfield(38, b"\xe2\x82\xac")
)
assert msg.s == "grüß" and type(msg.s) is str
assert msg.by == b"\xff\x00\xfe" and type(msg.by) is bytes
assert msg.r_s == ["", "€"]
try:
    Lit().parse(lfield(15, b"\xff"))
except UnicodeDecodeError:
    pass
else:
    raise AssertionError("invalid UTF-8 accepted")

# nested messages: singular, repeated, map value - unknown fields stay with the child
inner = vfield(1, varint(-3)) + U
msg = Lit().parse(
    lfield(17, inner) + lfield(37, inner) + lfield(37, b"") + lfield(37, U)
    + lfield(39, vfield(1, varint(5)) + lfield(2, inner)) + lfield(39, b"")
)
assert type(msg.child) is Child and msg.child.a == -3
assert msg.child._unknown_fields == U
assert betterproto.serialized_on_wire(msg.child)
assert [c.a for c in msg.r_child] == [-3, 0, 0]
assert [c._unknown_fields for c in msg.r_child] == [U, b"", U]
assert all(betterproto.serialized_on_wire(c) for c in msg.r_child)
assert sorted(msg.m) == [-3, 0]
assert msg.m[-3].a == -3 and msg.m[-3]._unknown_fields == U
assert msg.m[0].a == 0 and type(msg.m[0]) is Child
assert msg._unknown_fields == b""
out = bytes(msg)
assert out == (
    lfield(17, inner) + lfield(37, inner) + lfield(37, b"") + lfield(37, U)
    + lfield(39, vfield(1, varint(5)) + lfield(2, inner))
    + lfield(39, vfield(1, varint(0)))  # map keys are always written
)
empty_child = Lit().parse(lfield(17, b""))
assert betterproto.serialized_on_wire(empty_child.child)
assert bytes(empty_child) == lfield(17, b"")
assert not betterproto.serialized_on_wire(Lit().parse(U).child)

# Timestamp / Duration / wrappers
msg = Lit().parse(
    lfield(18, vfield(1, varint(1_700_000_000)) + vfield(2, varint(123_456_000)))
    + lfield(19, vfield(1, varint(-3)) + vfield(2, varint(-500_000_000)))
    + lfield(20, vfield(1, varint(-9)))
    + lfield(21, b"")
    + lfield(22, vfield(1, varint(1)))
)
assert msg.ts == datetime(2023, 11, 14, 22, 13, 20, 123456, tzinfo=timezone.utc)
assert msg.ts.tzinfo is not None
assert msg.du == timedelta(seconds=-3.5) and type(msg.du) is timedelta
assert msg.w == -9 and type(msg.w) is int
assert msg.ws == "" and msg.wb is True
assert Lit().parse(lfield(20, b"")).w == 0
assert Lit().parse(b"").w is None
print("literal cases ok:", n)


# ================================= 2. random messages against google.protobuf
SCALARS = ["bool", "int32", "int64", "uint32", "uint64", "sint32", "sint64",
           "float", "fixed32", "sfixed32", "double", "fixed64", "sfixed64",
           "string", "bytes"]
FD = descriptor_pb2.FieldDescriptorProto
fdp = descriptor_pb2.FileDescriptorProto(
    name="c08_keep2.proto", package="c08k2", syntax="proto3",
    dependency=[
        "google/protobuf/timestamp.proto",
        "google/protobuf/duration.proto",
        "google/protobuf/wrappers.proto",
    ],
)
en = fdp.enum_type.add(name="Hue")
for ename, num in [("H_ZERO", 0), ("H_ONE", 1), ("H_NEG", -5), ("H_BIG", 2**31 - 1)]:
    en.value.add(name=ename, number=num)
m = fdp.message_type.add(name="All")
for i, t in enumerate(SCALARS):
    gt = getattr(FD, "TYPE_" + t.upper())
    m.field.add(name=f"s_{t}", number=i + 1, type=gt, label=FD.LABEL_OPTIONAL)
    m.field.add(name=f"r_{t}", number=i + 101, type=gt, label=FD.LABEL_REPEATED)


def add_msg(name, number, type_name, label=FD.LABEL_OPTIONAL, **kw):
    m.field.add(name=name, number=number, type=FD.TYPE_MESSAGE,
                type_name=type_name, label=label, **kw)


m.field.add(name="hue", number=20, type=FD.TYPE_ENUM, type_name=".c08k2.Hue",
            label=FD.LABEL_OPTIONAL)
m.field.add(name="hues", number=21, type=FD.TYPE_ENUM, type_name=".c08k2.Hue",
            label=FD.LABEL_REPEATED)
add_msg("ts", 30, ".google.protobuf.Timestamp")
add_msg("du", 31, ".google.protobuf.Duration")
add_msg("w_i32", 32, ".google.protobuf.Int32Value")
add_msg("w_str", 33, ".google.protobuf.StringValue")
add_msg("w_bool", 34, ".google.protobuf.BoolValue")
add_msg("w_dbl", 35, ".google.protobuf.DoubleValue")
add_msg("w_u64", 36, ".google.protobuf.UInt64Value")
add_msg("sub", 200, ".c08k2.All")
add_msg("subs", 201, ".c08k2.All", label=FD.LABEL_REPEATED)
e1 = m.nested_type.add(name="BySubEntry")
e1.options.map_entry = True
e1.field.add(name="key", number=1, type=FD.TYPE_STRING, label=FD.LABEL_OPTIONAL)
e1.field.add(name="value", number=2, type=FD.TYPE_MESSAGE,
             type_name=".c08k2.All", label=FD.LABEL_OPTIONAL)
add_msg("by_sub", 202, ".c08k2.All.BySubEntry", label=FD.LABEL_REPEATED)
e2 = m.nested_type.add(name="NumsEntry")
e2.options.map_entry = True
e2.field.add(name="key", number=1, type=FD.TYPE_INT32, label=FD.LABEL_OPTIONAL)
e2.field.add(name="value", number=2, type=FD.TYPE_SINT64, label=FD.LABEL_OPTIONAL)
add_msg("nums", 203, ".c08k2.All.NumsEntry", label=FD.LABEL_REPEATED)
m.oneof_decl.add(name="choice")
m.field.add(name="o_i", number=210, type=FD.TYPE_SINT32, label=FD.LABEL_OPTIONAL,
            oneof_index=0)
add_msg("o_sub", 211, ".c08k2.All", oneof_index=0)
m.field.add(name="o_s", number=212, type=FD.TYPE_STRING, label=FD.LABEL_OPTIONAL,
            oneof_index=0)

pool = descriptor_pool.Default()
assert timestamp_pb2 and duration_pb2 and wrappers_pb2  # registered in the pool
pool.Add(fdp)
GAll = message_factory.GetMessageClass(pool.FindMessageTypeByName("c08k2.All"))


class Hue(betterproto.Enum):
    H_ZERO = 0
    H_ONE = 1
    H_NEG = -5
    H_BIG = 2**31 - 1


PY = {t: int for t in SCALARS}
PY.update(bool=bool, float=float, double=float, string=str, bytes=bytes)


def make_bp(keep, name):
    ns = {"__annotations__": {}, "__module__": __name__}
    ann = ns["__annotations__"]

    def add(fname, hint, field):
        if fname in keep:
            ann[fname] = hint
            ns[fname] = field

    for i, t in enumerate(SCALARS):
        mk = getattr(betterproto, f"{t}_field")
        add(f"s_{t}", PY[t], mk(i + 1))
        add(f"r_{t}", List[PY[t]], mk(i + 101))
    add("hue", Hue, betterproto.enum_field(20))
    add("hues", List[Hue], betterproto.enum_field(21))
    add("ts", datetime, betterproto.message_field(30))
    add("du", timedelta, betterproto.message_field(31))
    add("w_i32", Optional[int], betterproto.message_field(32, wraps="int32"))
    add("w_str", Optional[str], betterproto.message_field(33, wraps="string"))
    add("w_bool", Optional[bool], betterproto.message_field(34, wraps="bool"))
    add("w_dbl", Optional[float], betterproto.message_field(35, wraps="double"))
    add("w_u64", Optional[int], betterproto.message_field(36, wraps="uint64"))
    add("sub", name, betterproto.message_field(200))
    add("subs", f"List[{name}]", betterproto.message_field(201))
    add("by_sub", f"Dict[str, {name}]", betterproto.map_field(202, "string", "message"))
    add("nums", Dict[int, int], betterproto.map_field(203, "int32", "sint64"))
    add("o_i", int, betterproto.sint32_field(210, group="choice"))
    add("o_sub", name, betterproto.message_field(211, group="choice"))
    add("o_s", str, betterproto.string_field(212, group="choice"))
    cls = dataclass(eq=False, repr=False)(type(name, (betterproto.Message,), ns))
    globals()[name] = cls
    return cls


ALL_NAMES = (
    [f"s_{t}" for t in SCALARS] + [f"r_{t}" for t in SCALARS]
    + ["hue", "hues", "ts", "du", "w_i32", "w_str", "w_bool", "w_dbl", "w_u64",
       "sub", "subs", "by_sub", "nums", "o_i", "o_sub", "o_s"]
)
Full = make_bp(ALL_NAMES, "Full")

POOLS = {
    "bool": [False, True],
    "int32": [0, 1, -1, 127, 128, 2**31 - 1, -(2**31)],
    "int64": [0, -1, 2**63 - 1, -(2**63), 2**35],
    "uint32": [0, 1, 2**32 - 1, 16384],
    "uint64": [0, 2**63, 2**64 - 1],
    "sint32": [0, -1, 1, 2**31 - 1, -(2**31), -64, 64],
    "sint64": [0, -1, 2**63 - 1, -(2**63)],
    "float": [0.0, 1.5, -2.25, float("inf")],
    "fixed32": [0, 1, 2**32 - 1],
    "sfixed32": [0, -1, 2**31 - 1, -(2**31)],
    "double": [0.0, 1e300, -1e-300, 3.141592653589793],
    "fixed64": [0, 1, 2**64 - 1],
    "sfixed64": [0, -1, 2**63 - 1, -(2**63)],
    "string": ["", "a", "é" * 70, "x" * 200],
    "bytes": [b"", b"\x00", bytes(range(256))],
}
HUES = [0, 1, -5, 2**31 - 1, 7, -2]


def fill(g, depth=0):
    for t in SCALARS:
        if random.random() < 0.5:
            setattr(g, f"s_{t}", random.choice(POOLS[t]))
        if random.random() < 0.4:
            getattr(g, f"r_{t}").extend(
                random.choice(POOLS[t]) for _ in range(random.randrange(4))
            )
    if random.random() < 0.5:
        g.hue = random.choice(HUES)
    g.hues.extend(random.choice(HUES) for _ in range(random.randrange(3)))
    if random.random() < 0.5:
        # (not the epoch itself: an all-default Timestamp is a different story)
        g.ts.seconds = random.choice([1, 1_700_000_000, -86400, 253402300799])
        g.ts.nanos = random.choice([0, 1000, 999_999_000])
        g.ts.SetInParent()
    if random.random() < 0.5:
        sign = random.choice([1, -1])
        g.du.seconds = sign * random.choice([1, 86399, 10**9])
        g.du.nanos = sign * random.choice([0, 1000, 999_999_000])
        g.du.SetInParent()
    for w, vals in [("w_i32", POOLS["int32"]), ("w_str", POOLS["string"]),
                    ("w_bool", POOLS["bool"]), ("w_dbl", POOLS["double"]),
                    ("w_u64", POOLS["uint64"])]:
        if random.random() < 0.5:
            getattr(g, w).value = random.choice(vals)
            getattr(g, w).SetInParent()
    for _ in range(random.randrange(3)):
        g.nums[random.choice(POOLS["int32"])] = random.choice(POOLS["sint64"])
    if depth < 2:
        if random.random() < 0.5:
            fill(g.sub, depth + 1)
            g.sub.SetInParent()
        for _ in range(random.randrange(3)):
            fill(g.subs.add(), depth + 1)
        for _ in range(random.randrange(3)):
            fill(g.by_sub[random.choice(POOLS["string"])], depth + 1)
    pick = random.randrange(4)
    if pick == 1:
        g.o_i = random.choice(POOLS["sint32"])
    elif pick == 2 and depth < 2:
        fill(g.o_sub, depth + 1)
        g.o_sub.SetInParent()
    elif pick == 3:
        g.o_s = random.choice(POOLS["string"])
    return g


def same(bp, g):
    """The betterproto view of the data equals google's view."""
    for t in SCALARS:
        got, want = getattr(bp, f"s_{t}"), getattr(g, f"s_{t}")
        assert got == want and type(got) is PY[t], (t, got, want)
        got, want = getattr(bp, f"r_{t}"), list(getattr(g, f"r_{t}"))
        assert got == want and all(type(x) is PY[t] for x in got), (t, got, want)
    assert isinstance(bp.hue, Hue) and int(bp.hue) == g.hue
    assert [int(h) for h in bp.hues] == list(g.hues)
    assert all(isinstance(h, Hue) for h in bp.hues)
    if g.HasField("ts"):
        assert bp.ts == g.ts.ToDatetime(tzinfo=timezone.utc), (bp.ts, g.ts)
    if g.HasField("du"):
        assert bp.du == g.du.ToTimedelta(), (bp.du, g.du)
    for w in ("w_i32", "w_str", "w_bool", "w_dbl", "w_u64"):
        if g.HasField(w):
            got, want = getattr(bp, w), getattr(g, w).value
            assert got == want and type(got) is type(want), (w, got, want)
        else:
            assert getattr(bp, w) is None
    assert bp.nums == dict(g.nums)
    assert betterproto.serialized_on_wire(bp.sub) == g.HasField("sub")
    if g.HasField("sub"):
        same(bp.sub, g.sub)
    assert len(bp.subs) == len(g.subs)
    for b, s in zip(bp.subs, g.subs):
        assert betterproto.serialized_on_wire(b)
        same(b, s)
    assert sorted(bp.by_sub) == sorted(g.by_sub)
    for k in g.by_sub:
        same(bp.by_sub[k], g.by_sub[k])
    which, value = betterproto.which_one_of(bp, "choice")
    assert (which or None) == g.WhichOneof("choice"), (which, g.WhichOneof("choice"))
    if which == "o_sub":
        same(value, g.o_sub)
    elif which:
        assert value == getattr(g, which)


n = 0
for trial in range(40):
    g = fill(GAll())
    wire = g.SerializeToString(deterministic=True)
    full = Full().parse(wire)
    same(full, g)
    assert GAll.FromString(bytes(full)) == g
    for _ in range(8):
        keep = [name for name in ALL_NAMES if random.random() < 0.5]
        Older = make_bp(keep, f"Older_{n}")
        older = Older().parse(wire)
        again = bytes(older)
        # (an empty map value is written more tersely than google does, so the
        # length may differ from the original; the content may not)
        assert len(again) == len(older) <= len(wire)
        assert GAll.FromString(again) == g, keep
        back = Full().parse(again)
        assert back == full
        same(back, g)
        n += 1
print("google round trips through older schemas:", n)
print("ok")
