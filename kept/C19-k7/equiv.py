"""Equivalence check for casing.snake_case (strict and non-strict) and everything built
on it: safe_snake_case, pythonize_field_name / pythonize_method_name, the prefix of
pythonize_enum_member_name, Casing.SNAKE keys and the from_dict fallback.

The reference below is a verbatim copy of the original re.sub based algorithm; the
library function must agree with it on every input.
"""
import itertools
import keyword
import random
import re
from dataclasses import dataclass

import betterproto
from betterproto import Casing, casing
from betterproto.compile import naming

SYMBOLS = "[^a-zA-Z0-9]*"
WORD = "[A-Z]*[a-z]*[0-9]*"
WORD_UPPER = "[A-Z]+(?![a-z])[0-9]*"
assert (casing.SYMBOLS, casing.WORD, casing.WORD_UPPER) == (SYMBOLS, WORD, WORD_UPPER)


def ref_snake_case(value, strict=True):
    def substitute_word(symbols, word, is_start):
        if not word:
            return ""
        if strict:
            delimiter_count = 0 if is_start else 1
        elif is_start:
            delimiter_count = len(symbols)
        elif word.isupper() or word.islower():
            delimiter_count = max(1, len(symbols))
        else:
            delimiter_count = len(symbols) + 1
        return ("_" * delimiter_count) + word.lower()

    return re.sub(
        f"(^)?({SYMBOLS})({WORD_UPPER}|{WORD})",
        lambda groups: substitute_word(groups[2], groups[3], groups[1] is not None),
        value,
    )


def ref_sanitize_name(value):
    if keyword.iskeyword(value):
        return f"{value}_"
    if not value.isidentifier():
        return f"_{value}"
    return value


def ref_safe_snake_case(value):
    return ref_sanitize_name(ref_snake_case(value))


checked = 0


def check(value):
    global checked
    checked += 1
    expected = ref_snake_case(value)
    assert casing.snake_case(value) == expected, (value, casing.snake_case(value), expected)
    assert casing.snake_case(value, True) == expected, value
    assert casing.snake_case(value, strict=True) == expected, value
    assert casing.snake_case(value, strict=1) == expected, value
    loose = ref_snake_case(value, strict=False)
    assert casing.snake_case(value, strict=False) == loose, (value, loose)
    assert casing.snake_case(value, False) == loose, value
    assert casing.snake_case(value, strict=0) == loose, value
    safe = ref_safe_snake_case(value)
    assert casing.safe_snake_case(value) == safe, (value, safe)
    assert naming.pythonize_field_name(value) == safe, value
    assert naming.pythonize_method_name(value) == safe, value
    assert Casing.SNAKE(value) == expected, value
    # idempotence, validity
    assert casing.snake_case(expected) == expected, value
    assert casing.safe_snake_case(safe) == safe, value
    assert safe.isidentifier() and not keyword.iskeyword(safe), (value, safe)


# 1. the pinned examples
PINS = {
    "": "", "a": "a", "foobar": "foobar", "fooBar": "foo_bar", "FooBar": "foo_bar",
    "foo.bar": "foo_bar", "foo_bar": "foo_bar", "foo_Bar": "foo_bar", "FOOBAR": "foobar",
    "FOOBar": "foo_bar", "UInt32": "u_int32", "FOO_BAR": "foo_bar", "FOOBAR1": "foobar1",
    "FOOBAR_1": "foobar_1", "FOOBAR_123": "foobar_123", "FOO1BAR2": "foo1_bar2",
    "foo__bar": "foo_bar", "_foobar": "foobar", "foobaR": "fooba_r", "foo~bar": "foo_bar",
    "foo:bar": "foo_bar", "1foobar": "1_foobar", "GetUInt64": "get_u_int64",
}
for value, expected in PINS.items():
    assert casing.snake_case(value) == expected, value
    check(value)
LOOSE_PINS = {
    "fooBar": "foo_bar", "FooBar": "foo_bar", "foo_Bar": "foo__bar", "foo__bar": "foo__bar",
    "FOOBar": "foo_bar", "__foo": "__foo", "GetUInt64": "get_u_int64",
}
for value, expected in LOOSE_PINS.items():
    assert casing.snake_case(value, strict=False) == expected, value

# 2. exhaustive: identifiers (and non-identifiers) up to length 6 over lower, upper,
#    digit, underscore
for n in range(0, 7):
    for t in itertools.product("abAB1_", repeat=n):
        check("".join(t))

# 3. exhaustive up to length 4 over an alphabet with other delimiters, white space,
#    newlines and non-ASCII letters / digits (all of which count as delimiters)
for n in range(0, 5):
    for t in itertools.product("aZ9_.- \né٣ß", repeat=n):
        check("".join(t))

# 4. keywords, soft keywords, builtins in several capitalisations; real-world names
corpus = []
for word in keyword.kwlist + list(getattr(keyword, "softkwlist", [])) + dir(__builtins__):
    corpus += [word, word.lower(), word.upper(), word.capitalize(), "_" + word, word + "_"]
corpus += [
    "address_line_1", "ipv4_address", "x_y_z", "HTTPStatus", "HTTP2xx", "getHTTPResponse",
    "sha_256", "oauth2Token", "v1Beta2", "XMLHttpRequest", "package.sub.Message",
    ".pkg.Outer.Inner", "google.protobuf.Timestamp", "a" * 200, "A" * 200, "aB" * 100,
    "_" * 50, "1" * 50, "a1" * 60, "__init__", "Ünïcödé_name", "名前_field", "x\ty", "x\x00y",
]
for value in corpus:
    check(value)

# 5. random strings
rng = random.Random(19)
alphabets = [
    "abcXYZ019_",
    "abcdefghijklmnopqrstuvwxyzABCDEFGHIJKLMNOPQRSTUVWXYZ0123456789_",
    "aA1_.-/ \t\né中$",
]
for _ in range(60000):
    alphabet = rng.choice(alphabets)
    check("".join(rng.choice(alphabet) for _ in range(rng.randint(0, 24))))

# 6. error behaviour: non-strings are rejected in both modes
for bad in (None, 3, b"foo_bar", ["a"]):
    for strict in (True, False):
        try:
            casing.snake_case(bad, strict=strict)
        except TypeError:
            pass
        else:
            raise AssertionError(f"snake_case({bad!r}) did not raise TypeError")

# 7. enum member prefix (uses snake_case of the enum name)
for enum_name in ("Color", "HTTPMethod", "my_enum", "E", "UInt32Kind", "_X", "A1B2"):
    prefix = ref_snake_case(enum_name).upper() + "_"
    for member in ("RED", "X", "ZERO", "UNSPECIFIED", "1", "None", "_", "A_B"):
        for name in (member, prefix + member, prefix + "_" + member, prefix, prefix + "_"):
            rest = name[len(prefix):].strip("_") if name.startswith(prefix) else ""
            expected = ref_sanitize_name(rest if rest else name)
            assert naming.pythonize_enum_member_name(name, enum_name) == expected, (
                name, enum_name,
            )


# 8. messages: SNAKE / CAMEL keys and original names map back to the field
def make_message(py_name):
    namespace = {
        "__annotations__": {py_name: int},
        py_name: betterproto.int32_field(1),
        "__module__": __name__,
    }
    return dataclass(eq=False, repr=False)(type("Msg", (betterproto.Message,), namespace))


MESSAGE_API = set(dir(betterproto.Message))
proto_names = [
    "address_line_1", "ipv4_address", "x_y_z", "HTTPStatus", "in", "class", "None", "_1",
    "_", "fooBar", "foo__bar", "_foo", "foo_", "HTTP2xx", "a1b", "A1B", "aBCd", "line1",
    "match", "type", "list", "id", "Import", "IN",
]
proto_names += ["".join(t) for n in range(1, 4) for t in itertools.product("aB1_", repeat=n)
                if not t[0].isdigit()]
for proto_name in proto_names:
    py_name = naming.pythonize_field_name(proto_name)
    assert py_name == ref_safe_snake_case(proto_name)
    if py_name in MESSAGE_API:
        continue
    cls = make_message(py_name)
    msg = cls(**{py_name: 5})
    table = cls._betterproto.field_name_by_key
    assert table[py_name] == py_name
    assert table[ref_snake_case(py_name).rstrip("_")] == py_name
    assert table[casing.camel_case(py_name).rstrip("_")] == py_name
    assert msg.to_dict(casing=Casing.SNAKE) == {ref_snake_case(py_name).rstrip("_"): 5}
    assert msg.to_pydict(casing=Casing.SNAKE) == {ref_snake_case(py_name).rstrip("_"): 5}
    for out in (msg.to_dict(), msg.to_dict(casing=Casing.SNAKE), {proto_name: 5}, {py_name: 5}):
        assert getattr(cls.from_dict(out), py_name) == 5, (proto_name, out)
        assert getattr(cls().from_dict(out), py_name) == 5, (proto_name, out)
        assert getattr(cls().from_pydict(out), py_name) == 5, (proto_name, out)
    # a key that is no field in any spelling is ignored
    assert bytes(cls.from_dict({"no_such_field_q": 1})) == b""

print(f"C19 keep1 equiv: {checked} strings OK")
