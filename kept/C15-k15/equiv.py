"""Equivalence check for the refactoring of Message.load (decode path of every message,
hence of every Timestamp / Duration field: the outer message, the nested _Timestamp /
_Duration decoder message and map entries all go through it).

Exercises: singular / repeated / map Timestamp and Duration fields against the reference
implementation (google.protobuf) in both directions, packed and unpacked repeated scalars
(varint, fixed32, fixed64; several chunks), unknown fields, wire-type mismatches, oneofs,
repeated occurrences of a singular field, size-delimited streams, error paths, and a
pinned digest over a seeded corpus of raw wire data.
"""
import hashlib
import io
import random
import struct
from dataclasses import dataclass
from datetime import datetime, timedelta, timezone
from typing import Dict, List, Optional

from google.protobuf import descriptor_pb2, descriptor_pool, message_factory
from google.protobuf import duration_pb2, timestamp_pb2  # noqa: F401 (registers the files)

import betterproto
from betterproto import encode_varint

EPOCH = datetime(1970, 1, 1, tzinfo=timezone.utc)
US = timedelta(microseconds=1)
MIN_US = (datetime(1, 1, 1, tzinfo=timezone.utc) - EPOCH) // US
MAX_US = (datetime(9999, 12, 31, 23, 59, 59, 999999, tzinfo=timezone.utc) - EPOCH) // US
MAX_D_US = 315_576_000_000 * 10**6


# --------------------------------------------------------------------------- messages
@dataclass(eq=False, repr=False)
class M(betterproto.Message):
    ts: datetime = betterproto.message_field(1)
    d: timedelta = betterproto.message_field(2)
    tss: List[datetime] = betterproto.message_field(3)
    ds: List[timedelta] = betterproto.message_field(4)
    tsm: Dict[str, datetime] = betterproto.map_field(
        5, betterproto.TYPE_STRING, betterproto.TYPE_MESSAGE
    )
    dm: Dict[str, timedelta] = betterproto.map_field(
        6, betterproto.TYPE_STRING, betterproto.TYPE_MESSAGE
    )
    packed: List[int] = betterproto.sint64_field(7)
    pd: List[float] = betterproto.double_field(8)
    pf: List[int] = betterproto.fixed32_field(9)
    n: int = betterproto.int64_field(10)
    s: str = betterproto.string_field(11)


@dataclass(eq=False, repr=False)
class Small(betterproto.Message):
    """Knows only some of M's fields; the others must survive as unknown fields."""

    d: timedelta = betterproto.message_field(2)
    n: int = betterproto.int64_field(10)


@dataclass(eq=False, repr=False)
class Clash(betterproto.Message):
    """Same numbers as M but other types: mismatching wire types become unknown fields."""

    ts: int = betterproto.int64_field(1)
    d: float = betterproto.fixed64_field(2)
    tss: List[int] = betterproto.int32_field(3)
    n: datetime = betterproto.message_field(10)
    s: timedelta = betterproto.message_field(11)


@dataclass(eq=False, repr=False)
class One(betterproto.Message):
    a: datetime = betterproto.message_field(1, group="g")
    b: timedelta = betterproto.message_field(2, group="g")
    c: int = betterproto.int32_field(3, group="g")
    o: Optional[datetime] = betterproto.message_field(4, optional=True)
    p: Optional[timedelta] = betterproto.message_field(5, optional=True)


def build_reference():
    fd = descriptor_pb2.FileDescriptorProto(
        name="c15_keep1.proto", package="c15k1", syntax="proto3"
    )
    fd.dependency.append("google/protobuf/timestamp.proto")
    fd.dependency.append("google/protobuf/duration.proto")
    m = fd.message_type.add(name="M")
    F = descriptor_pb2.FieldDescriptorProto

    def add(name, number, ftype, label=F.LABEL_OPTIONAL, type_name=None):
        f = m.field.add(name=name, number=number, type=ftype, label=label)
        if type_name:
            f.type_name = type_name
        return f

    def add_map(name, number, value_type_name):
        entry = m.nested_type.add(name=name.capitalize() + "Entry")
        entry.options.map_entry = True
        entry.field.add(name="key", number=1, type=F.TYPE_STRING, label=F.LABEL_OPTIONAL)
        entry.field.add(
            name="value",
            number=2,
            type=F.TYPE_MESSAGE,
            label=F.LABEL_OPTIONAL,
            type_name=value_type_name,
        )
        add(name, number, F.TYPE_MESSAGE, F.LABEL_REPEATED, f".c15k1.M.{entry.name}")

    TS, DU = ".google.protobuf.Timestamp", ".google.protobuf.Duration"
    add("ts", 1, F.TYPE_MESSAGE, type_name=TS)
    add("d", 2, F.TYPE_MESSAGE, type_name=DU)
    add("tss", 3, F.TYPE_MESSAGE, F.LABEL_REPEATED, TS)
    add("ds", 4, F.TYPE_MESSAGE, F.LABEL_REPEATED, DU)
    add_map("tsm", 5, TS)
    add_map("dm", 6, DU)
    add("packed", 7, F.TYPE_SINT64, F.LABEL_REPEATED)
    add("pd", 8, F.TYPE_DOUBLE, F.LABEL_REPEATED)
    add("pf", 9, F.TYPE_FIXED32, F.LABEL_REPEATED)
    add("n", 10, F.TYPE_INT64)
    add("s", 11, F.TYPE_STRING)
    pool = descriptor_pool.Default()
    pool.Add(fd)
    return message_factory.GetMessageClass(pool.FindMessageTypeByName("c15k1.M"))


RefM = build_reference()


# --------------------------------------------------------------------------- helpers
def ts_pair(dt: datetime):
    return divmod((dt - EPOCH) // US, 10**6)[0], divmod((dt - EPOCH) // US, 10**6)[1] * 1000


def d_pair(td: timedelta):
    total = td // US
    s, us = divmod(abs(total), 10**6)
    return (-s, -us * 1000) if total < 0 else (s, us * 1000)


def rand_dt(rng: random.Random) -> datetime:
    kind = rng.randrange(6)
    if kind == 0:
        us = rng.randint(MIN_US, MAX_US)
    elif kind == 1:
        us = rng.randint(-3 * 10**6, 3 * 10**6)  # around the epoch
    elif kind == 2:
        us = rng.randint(MIN_US // 10**6, MAX_US // 10**6) * 10**6  # whole seconds
    elif kind == 3:
        us = rng.choice([MIN_US, MAX_US, 0, -1, 1, -(10**6), 10**6, 2**53, 2**53 + 1, -(2**53) - 1])
    elif kind == 4:
        us = rng.randint(MIN_US // 10**6, MAX_US // 10**6) * 10**6 + rng.choice([1, 999, 1000, 999999, 500000])
        us = min(us, MAX_US)
    else:
        us = rng.randint(0, 2 * 10**15)  # "ordinary" dates
    dt = EPOCH + us * US
    if rng.random() < 0.6:
        minutes = rng.randint(-18 * 60 + 1, 18 * 60 - 1)
        try:
            dt = dt.astimezone(timezone(timedelta(minutes=minutes)))
        except OverflowError:
            pass
    return dt


def rand_td(rng: random.Random) -> timedelta:
    kind = rng.randrange(5)
    if kind == 0:
        us = rng.randint(-MAX_D_US, MAX_D_US)
    elif kind == 1:
        us = rng.randint(-3 * 10**6, 3 * 10**6)
    elif kind == 2:
        us = rng.randint(-315_576_000_000, 315_576_000_000) * 10**6
    elif kind == 3:
        us = rng.choice([0, 1, -1, -500000, 500000, -1500000, MAX_D_US, -MAX_D_US, 2**53 + 1, -(2**53) - 1])
    else:
        us = -rng.randint(1, 10**12)
    return us * US


def same_dt(a: datetime, b: datetime) -> bool:
    return a == b and a.utcoffset() is not None and b.utcoffset() is not None


def key(field: int, wire: int) -> bytes:
    return encode_varint((field << 3) | wire)


def ld(field: int, payload: bytes) -> bytes:
    return key(field, 2) + encode_varint(len(payload)) + payload


def ts_payload(seconds: int, nanos: int) -> bytes:
    out = b""
    if seconds:
        out += key(1, 0) + encode_varint(seconds)
    if nanos:
        out += key(2, 0) + encode_varint(nanos)
    return out


# ------------------------------------------------------- 1. both directions vs reference
rng = random.Random(1515)
for round_no in range(1500):
    m = M()
    if rng.random() < 0.8:
        m.ts = rand_dt(rng)
    if rng.random() < 0.8:
        m.d = rand_td(rng)
    m.tss = [rand_dt(rng) if rng.random() < 0.8 else EPOCH for _ in range(rng.randrange(4))]
    m.ds = [rand_td(rng) if rng.random() < 0.8 else timedelta(0) for _ in range(rng.randrange(4))]
    m.tsm = {f"k{i}" if i else "": rand_dt(rng) if rng.random() < 0.8 else EPOCH for i in range(rng.randrange(3))}
    m.dm = {f"k{i}" if i else "": rand_td(rng) if rng.random() < 0.8 else timedelta(0) for i in range(rng.randrange(3))}
    m.packed = [rng.randint(-(2**63), 2**63 - 1) for _ in range(rng.randrange(4))]
    m.pd = [rng.uniform(-1e9, 1e9) for _ in range(rng.randrange(4))]
    m.pf = [rng.randrange(2**32) for _ in range(rng.randrange(4))]
    m.n = rng.choice([0, 1, -1, 2**63 - 1, -(2**63), rng.randint(-(2**40), 2**40)])
    m.s = rng.choice(["", "x", "é中"])

    data = bytes(m)
    assert len(m) == len(data)

    # betterproto -> reference
    ref = RefM.FromString(data)
    assert (ref.ts.seconds, ref.ts.nanos) == ts_pair(m.ts), (m.ts, ref.ts)
    assert (ref.d.seconds, ref.d.nanos) == d_pair(m.d), (m.d, ref.d)
    assert [(t.seconds, t.nanos) for t in ref.tss] == [ts_pair(t) for t in m.tss]
    assert [(t.seconds, t.nanos) for t in ref.ds] == [d_pair(t) for t in m.ds]
    assert {k: (v.seconds, v.nanos) for k, v in ref.tsm.items()} == {k: ts_pair(v) for k, v in m.tsm.items()}
    assert {k: (v.seconds, v.nanos) for k, v in ref.dm.items()} == {k: d_pair(v) for k, v in m.dm.items()}
    assert list(ref.packed) == m.packed and list(ref.pd) == m.pd and list(ref.pf) == m.pf
    assert ref.n == m.n and ref.s == m.s

    # betterproto -> betterproto, and reference -> betterproto (the reference orders and
    # frames map entries / empty sub-messages in its own way)
    for source in (data, ref.SerializeToString()):
        back = M().parse(source)
        assert same_dt(back.ts, m.ts) and back.ts.utcoffset() == timedelta(0), (back.ts, m.ts)
        assert back.d == m.d, (back.d, m.d)
        assert len(back.tss) == len(m.tss) and all(map(same_dt, back.tss, m.tss))
        assert back.ds == m.ds
        assert back.tsm.keys() == m.tsm.keys() and all(same_dt(back.tsm[k], m.tsm[k]) for k in m.tsm)
        assert back.dm == m.dm
        assert back.packed == m.packed and back.pd == m.pd and back.pf == m.pf
        assert back.n == m.n and back.s == m.s
        assert back._unknown_fields == b""
        assert M.FromString(source) == back

    # a class that knows only d and n keeps the rest as unknown fields, byte for byte
    small = Small().parse(data)
    assert small.d == m.d and small.n == m.n
    again = M().parse(bytes(small))
    assert again == M().parse(data), round_no
    known = b"".join(p.raw for p in betterproto.parse_fields(data) if p.number in (2, 10))
    unknown = b"".join(p.raw for p in betterproto.parse_fields(data) if p.number not in (2, 10))
    assert small._unknown_fields == unknown
    assert bytes(small) == known + unknown

# ------------------------------------------------------- 2. hand-made wire data
t1 = datetime(2024, 2, 29, 12, 0, 0, 250000, tzinfo=timezone.utc)
s1, n1 = ts_pair(t1)

# singular field occurring twice: the last one wins (also for an empty payload = epoch)
data = ld(1, ts_payload(s1, n1)) + ld(1, ts_payload(5, 0))
assert M().parse(data).ts == EPOCH + timedelta(seconds=5)
data = ld(1, ts_payload(s1, n1)) + ld(1, b"")
assert M().parse(data).ts == EPOCH
data = ld(2, ts_payload(-1, -500_000_000)) + ld(2, ts_payload(0, -1000))
assert M().parse(data).d == timedelta(microseconds=-1)

# nested payload with fields in reverse order, repeated inner fields and an unknown inner field
inner = key(2, 0) + encode_varint(n1) + key(1, 0) + encode_varint(7) + key(9, 0) + b"\x01" + key(1, 0) + encode_varint(s1)
assert M().parse(ld(1, inner)).ts == t1
assert M().parse(ld(3, inner) + ld(3, b"") + ld(3, ts_payload(-1, 999_999_000))).tss == [
    t1,
    EPOCH,
    EPOCH - timedelta(microseconds=1),
]

# negative seconds / nanos arrive as ten-byte varints
assert M().parse(ld(2, ts_payload(-3, -999_999_000))).d == timedelta(seconds=-3, microseconds=-999999)
assert M().parse(ld(1, ts_payload(-62135596800, 0))).ts == datetime(1, 1, 1, tzinfo=timezone.utc)
assert M().parse(ld(1, ts_payload(253402300799, 999_999_000))).ts == datetime(
    9999, 12, 31, 23, 59, 59, 999999, tzinfo=timezone.utc
)

# map entries: missing key, missing value, value before key, duplicate keys (last wins)
entry = lambda k, v: (ld(1, k.encode()) if k is not None else b"") + (ld(2, v) if v is not None else b"")
data = (
    ld(5, entry("a", ts_payload(s1, n1)))
    + ld(5, entry(None, ts_payload(1, 0)))
    + ld(5, entry("b", None))
    + ld(5, ld(2, ts_payload(2, 0)) + ld(1, b"c"))
    + ld(5, entry("a", ts_payload(3, 0)))
    + ld(6, entry("x", ts_payload(0, -1000)))
    + ld(6, b"")
)
got = M().parse(data)
assert got.tsm == {
    "a": EPOCH + timedelta(seconds=3),
    "": EPOCH + timedelta(seconds=1),
    "b": EPOCH,
    "c": EPOCH + timedelta(seconds=2),
}, got.tsm
assert list(got.tsm) == ["a", "", "b", "c"]
assert got.dm == {"x": timedelta(microseconds=-1), "": timedelta(0)}

# packed and unpacked repeated scalars, several chunks, interleaved with other fields
zz = lambda v: encode_varint((v << 1) ^ (v >> 63))
data = (
    ld(7, zz(1) + zz(-1) + zz(2**62))
    + key(7, 0) + zz(-5)
    + ld(3, ts_payload(1, 0))
    + ld(7, b"")
    + ld(7, zz(-(2**63)))
    + ld(8, struct.pack("<dd", 1.5, -2.25))
    + key(8, 1) + struct.pack("<d", 1e300)
    + ld(9, struct.pack("<II", 1, 2**32 - 1))
    + key(9, 5) + struct.pack("<I", 7)
    + ld(9, struct.pack("<I", 9))
)
got = M().parse(data)
assert got.packed == [1, -1, 2**62, -5, -(2**63)], got.packed
assert got.pd == [1.5, -2.25, 1e300]
assert got.pf == [1, 2**32 - 1, 7, 9]
assert got.tss == [EPOCH + timedelta(seconds=1)]
assert got._unknown_fields == b""

# wire-type mismatches and undeclared numbers are kept as unknown fields, in order
pieces = [
    key(1, 0) + encode_varint(99),  # ts as varint
    ld(1, ts_payload(s1, n1)),  # proper ts
    key(2, 5) + b"\x01\x02\x03\x04",  # d as fixed32
    key(3, 1) + b"\x00" * 8,  # tss as fixed64
    ld(10, b"abc"),  # n as bytes
    key(11, 0) + b"\x05",  # s as varint
    key(12, 0) + b"\x01",  # undeclared
    ld(2000, b"zz"),  # undeclared
    key(7, 5) + b"\x00" * 4,  # sint64 as fixed32
    key(8, 0) + b"\x01",  # double as varint
    ld(4, ts_payload(0, 1000)),  # proper ds item
]
got = M().parse(b"".join(pieces))
assert got.ts == t1 and got.ds == [US]
assert got.d == timedelta(0) and got.tss == [] and got.n == 0 and got.s == ""
assert got._unknown_fields == b"".join(pieces[i] for i in (0, 2, 3, 4, 5, 6, 7, 8, 9))
assert bytes(got) == ld(1, ts_payload(s1, n1)) + ld(4, ts_payload(0, 1000)) + got._unknown_fields

# (the string "\x08\x05" happens to be a well-formed Duration payload: seconds = 5)
got = Clash().parse(bytes(M(ts=t1, d=US, n=5, s="\x08\x05")))
assert got.ts == 0 and got.d == 0 and got.tss == []
assert got.n == EPOCH and got.s == timedelta(seconds=5)
assert got._unknown_fields == bytes(M(ts=t1, d=US, n=5))
# a packed chunk is accepted for a repeated varint field only, not for a singular one
got = Clash().parse(ld(3, encode_varint(1) + encode_varint(2**64 - 1)) + ld(1, b"\x01"))
assert got.tss == [1, -1] and got.ts == 0 and got._unknown_fields == ld(1, b"\x01")

# oneofs and optionals
o = One().parse(ld(1, ts_payload(s1, n1)) + ld(2, ts_payload(-1, 0)))
assert betterproto.which_one_of(o, "g") == ("b", timedelta(seconds=-1))
o = One().parse(ld(2, ts_payload(-1, 0)) + key(3, 0) + b"\x00" + ld(1, b""))
assert betterproto.which_one_of(o, "g") == ("a", EPOCH)
assert bytes(o) == ld(1, b"")
o = One().parse(ld(4, b"") + ld(5, b""))
assert o.o == EPOCH and o.p == timedelta(0) and bytes(o) == ld(4, b"") + ld(5, b"")
o = One().parse(b"")
assert o.o is None and o.p is None and bytes(o) == b""

# ------------------------------------------------------- 3. size-delimited streams
msgs = [M(ts=rand_dt(rng), d=rand_td(rng), tss=[EPOCH], packed=[1, -1]) for _ in range(50)]
msgs.insert(3, M())
msgs.insert(10, M())
buf = io.BytesIO()
for msg in msgs:
    msg.dump(buf, betterproto.SIZE_DELIMITED)
buf.seek(0)
for msg in msgs:
    got = M().load(buf, betterproto.SIZE_DELIMITED)
    assert got == msg
assert buf.read() == b""

body = bytes(M(ts=t1, n=3))
# explicit size: stops exactly there and leaves the rest of the stream alone
stream = io.BytesIO(body + b"tail")
assert M().load(stream, len(body)) == M(ts=t1, n=3)
assert stream.read() == b"tail"
stream = io.BytesIO(b"tail")
assert M().load(stream, 0) == M() and stream.read() == b"tail"


def failure(fn):
    try:
        fn()
    except Exception as exc:  # noqa: BLE001
        return type(exc).__name__, str(exc)
    return None


first = len(ld(1, ts_payload(s1, n1)))
assert failure(lambda: M().load(io.BytesIO(body), first + 1)) == (
    "ValueError",
    f"Expected message of size {first + 1}, can only read either {first} or {len(body)} bytes"
    " - there is no message of the expected size in the stream.",
)
assert failure(lambda: M().load(io.BytesIO(body), len(body) + 4)) == (
    "ValueError",
    f"Expected message of size {len(body) + 4}, but was only able to read {len(body)} bytes"
    " - the stream may have ended too soon, or the expected size may have been incorrect.",
)
# error paths inside the field decoders surface unchanged
assert failure(lambda: M().parse(ld(9, b"\x01\x02\x03\x04\x05")))[0] == "error"  # struct.error
assert failure(lambda: M().parse(ld(8, b"\x01" * 12)))[0] == "error"
assert failure(lambda: M().parse(ld(11, b"\xff")))[0] == "UnicodeDecodeError"
assert failure(lambda: M().parse(ld(1, ts_payload(10**12, 0))))[0] == "OverflowError"
assert failure(lambda: M().parse(ld(1, b"\x08")))is not None  # truncated varint inside the Timestamp
# the fields decoded before a failure have already been stored
partial = M()
assert failure(lambda: partial.parse(ld(2, ts_payload(4, 0)) + ld(11, b"\xff")))[0] == "UnicodeDecodeError"
assert partial.d == timedelta(seconds=4)

# ------------------------------------------------------- 4. pinned digest over random wire data
rng = random.Random(77)
digest = hashlib.sha256()


def random_payload(depth=0) -> bytes:
    kind = rng.randrange(6)
    if kind == 0:
        return ts_payload(rng.randint(-62135596800, 253402300799), rng.randrange(10**6) * 1000)
    if kind == 1:
        sign = rng.choice([1, -1])
        return ts_payload(sign * rng.randint(0, 10**11), sign * rng.randrange(10**6) * 1000)
    if kind == 2:
        return b"".join(encode_varint(rng.randrange(2**64)) for _ in range(rng.randrange(4)))
    if kind == 3:
        return bytes(rng.randrange(256) for _ in range(rng.choice([0, 4, 8, 12, 16])))
    if kind == 4 and depth < 2:
        return ld(1, b"k%d" % rng.randrange(3)) + ld(2, random_payload(depth + 1))
    return b""


for _ in range(4000):
    chunks = []
    for _ in range(rng.randrange(1, 7)):
        number = rng.choice([1, 2, 3, 4, 5, 6, 7, 8, 9, 10, 11, 12, 300])
        wire = rng.choice([0, 1, 2, 2, 2, 5])
        if wire == 0:
            chunks.append(key(number, 0) + encode_varint(rng.randrange(2**64)))
        elif wire == 1:
            chunks.append(key(number, 1) + bytes(rng.randrange(256) for _ in range(8)))
        elif wire == 5:
            chunks.append(key(number, 5) + bytes(rng.randrange(256) for _ in range(4)))
        else:
            chunks.append(ld(number, random_payload()))
    data = b"".join(chunks)
    for cls in (M, Small, Clash, One):
        msg = cls()
        try:
            msg.parse(data)
            outcome = "ok"
        except Exception as exc:  # noqa: BLE001
            outcome = type(exc).__name__
        try:
            shown = repr(msg)
        except AttributeError as exc:  # unset oneof member
            shown = str(exc)
        digest.update(f"{cls.__name__}|{outcome}|{shown}|{msg._unknown_fields.hex()}\n".encode())

EXPECTED = "55212fe038659a57102574d7951bd783814ffddfdd3e095836d55b3cafebd86f"
assert digest.hexdigest() == EXPECTED, digest.hexdigest()
print("ok")
