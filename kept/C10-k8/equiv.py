"""Equivalence check for the restructured ``Message._postprocess_single`` (the
function that turns every value read by Message.load back into its Python form).

Part 1 calls it directly for every (wire type, proto type) pair at boundary and
random raw values and compares with an independently written specification.
Part 2 reads SIZE_DELIMITED streams: all scalar kinds, enums (negative / unknown
numbers), nested messages, maps, Timestamp / Duration / wrapper fields, oneofs,
cut streams, and a cross-check against google.protobuf's length-prefixed I/O.
"""
import random
import struct
from dataclasses import dataclass
from datetime import datetime, timedelta, timezone
from io import BytesIO
from typing import Dict, List, Optional

import betterproto
from betterproto import SIZE_DELIMITED

rnd = random.Random(0xC1002)


class Color(betterproto.Enum):
    ZERO = 0
    ONE = 1
    BIG = 2147483647
    NEG = -1
    MIN = -2147483648


@dataclass(eq=False, repr=False)
class Sub(betterproto.Message):
    x: int = betterproto.sint64_field(1)
    name: str = betterproto.string_field(2)


@dataclass(eq=False, repr=False)
class All(betterproto.Message):
    i32: int = betterproto.int32_field(1)
    i64: int = betterproto.int64_field(2)
    u32: int = betterproto.uint32_field(3)
    u64: int = betterproto.uint64_field(4)
    s32: int = betterproto.sint32_field(5)
    s64: int = betterproto.sint64_field(6)
    b: bool = betterproto.bool_field(7)
    e: Color = betterproto.enum_field(8)
    f32: int = betterproto.fixed32_field(9)
    sf32: int = betterproto.sfixed32_field(10)
    f64: int = betterproto.fixed64_field(11)
    sf64: int = betterproto.sfixed64_field(12)
    fl: float = betterproto.float_field(13)
    db: float = betterproto.double_field(14)
    s: str = betterproto.string_field(15)
    by: bytes = betterproto.bytes_field(16)
    sub: Sub = betterproto.message_field(17)
    ts: datetime = betterproto.message_field(18)
    dur: timedelta = betterproto.message_field(19)
    w_i64: Optional[int] = betterproto.message_field(20, wraps=betterproto.TYPE_INT64)
    r_i32: List[int] = betterproto.int32_field(21)
    r_i64: List[int] = betterproto.int64_field(22)
    r_u32: List[int] = betterproto.uint32_field(23)
    r_u64: List[int] = betterproto.uint64_field(24)
    r_s32: List[int] = betterproto.sint32_field(25)
    r_s64: List[int] = betterproto.sint64_field(26)
    r_b: List[bool] = betterproto.bool_field(27)
    r_e: List[Color] = betterproto.enum_field(28)
    r_f32: List[int] = betterproto.fixed32_field(29)
    r_sf32: List[int] = betterproto.sfixed32_field(30)
    r_f64: List[int] = betterproto.fixed64_field(31)
    r_sf64: List[int] = betterproto.sfixed64_field(32)
    r_fl: List[float] = betterproto.float_field(33)
    r_db: List[float] = betterproto.double_field(34)
    r_s: List[str] = betterproto.string_field(35)
    r_by: List[bytes] = betterproto.bytes_field(36)
    r_sub: List[Sub] = betterproto.message_field(37)
    w_str: Optional[str] = betterproto.message_field(38, wraps=betterproto.TYPE_STRING)
    w_bool: Optional[bool] = betterproto.message_field(39, wraps=betterproto.TYPE_BOOL)
    m: Dict[str, int] = betterproto.map_field(40, "string", "sint32")
    m2: Dict[int, Sub] = betterproto.map_field(41, "fixed64", "message")
    o_i32: int = betterproto.int32_field(50, group="pick")
    o_s: str = betterproto.string_field(51, group="pick")
    o_sub: Sub = betterproto.message_field(52, group="pick")
    o_e: Color = betterproto.enum_field(53, group="pick")
    opt_i64: Optional[int] = betterproto.int64_field(60, optional=True)
    opt_b: Optional[bool] = betterproto.bool_field(61, optional=True)


# ---------------------------------------------------------------------------
# Part 1: _postprocess_single against a specification
# ---------------------------------------------------------------------------
holder = All()
META = holder._betterproto.meta_by_field_name


def post(wire_type, name, raw):
    return holder._postprocess_single(wire_type, META[name], name, raw)


def same(a, b):
    return type(a) is type(b) and a == b


def spec_signed(v, bits):
    v %= 1 << bits
    return v - (1 << bits) if v >= 1 << (bits - 1) else v


def spec_zigzag(v):
    return v // 2 if v % 2 == 0 else -(v // 2) - 1


edge = set()
for k in (0, 1, 6, 7, 8, 14, 15, 16, 30, 31, 32, 33, 62, 63, 64, 65, 69, 70):
    for d in (-2, -1, 0, 1, 2):
        v = (1 << k) + d
        if 0 <= v < 1 << 70:
            edge.add(v)
edge |= {rnd.getrandbits(rnd.choice([8, 31, 32, 33, 63, 64, 70])) for _ in range(3000)}
edge = sorted(edge)

V, F8, L, F4 = 0, 1, 2, 5
for v in edge:
    assert same(post(V, "i32", v), spec_signed(v, 32))
    assert same(post(V, "r_i32", v), spec_signed(v, 32))
    assert same(post(V, "o_i32", v), spec_signed(v, 32))
    assert same(post(V, "i64", v), spec_signed(v, 64))
    assert same(post(V, "opt_i64", v), spec_signed(v, 64))
    assert same(post(V, "u32", v), v)
    assert same(post(V, "u64", v), v)
    assert same(post(V, "r_u64", v), v)
    assert same(post(V, "s32", v), spec_zigzag(v))
    assert same(post(V, "s64", v), spec_zigzag(v))
    assert same(post(V, "r_s64", v), spec_zigzag(v))
    assert post(V, "b", v) is (v != 0)
    assert post(V, "opt_b", v) is (v != 0)
    for name in ("e", "r_e", "o_e"):
        member = post(V, name, v)
        assert type(member) is Color
        assert int(member) == spec_signed(v, 32)
        assert member is Color.try_value(spec_signed(v, 32)) or member.name is None
for number, member in ((0, Color.ZERO), (1, Color.ONE), (2147483647, Color.BIG),
                       (2**64 - 1, Color.NEG), (2**32 - 1, Color.NEG),
                       (2**64 - 2**31, Color.MIN), (2**31, Color.MIN)):
    assert post(V, "e", number) is member
assert post(V, "e", 5).name is None and post(V, "e", 5) == 5
assert post(V, "e", 2**64 - 7).name is None and post(V, "e", 2**64 - 7) == -7

for _ in range(3000):
    raw4 = bytes(rnd.getrandbits(8) for _ in range(4))
    raw8 = bytes(rnd.getrandbits(8) for _ in range(8))
    if rnd.random() < 0.1:
        raw4, raw8 = rnd.choice([b"\0" * 4, b"\xff" * 4]), rnd.choice([b"\0" * 8, b"\xff" * 8])
    assert same(post(F4, "f32", raw4), int.from_bytes(raw4, "little"))
    assert same(post(F4, "sf32", raw4), int.from_bytes(raw4, "little", signed=True))
    assert same(post(F4, "r_f32", raw4), int.from_bytes(raw4, "little"))
    assert same(post(F8, "f64", raw8), int.from_bytes(raw8, "little"))
    assert same(post(F8, "sf64", raw8), int.from_bytes(raw8, "little", signed=True))
    assert same(post(F8, "r_sf64", raw8), int.from_bytes(raw8, "little", signed=True))
    got, want = post(F4, "fl", raw4), struct.unpack("<f", raw4)[0]
    assert type(got) is float and struct.pack("<d", got) == struct.pack("<d", want)
    got, want = post(F8, "db", raw8), struct.unpack("<d", raw8)[0]
    assert type(got) is float and struct.pack("<d", got) == struct.pack("<d", want)

# fixed-width values of the wrong length (a packed run that is cut short) fail alike
for name, wt, bad in (("f32", F4, b"\x01\x02"), ("fl", F4, b""), ("r_sf32", F4, b"\0" * 5),
                      ("f64", F8, b"\0" * 4), ("db", F8, b"\0" * 7), ("r_f64", F8, b"\0" * 9)):
    try:
        post(wt, name, bad)
    except struct.error:
        pass
    else:
        raise AssertionError((name, bad))

# length-delimited payloads
for text in ("", "a", "é中\U0001F600", "x" * 300):
    assert same(post(L, "s", text.encode()), text)
    assert same(post(L, "r_s", text.encode()), text)
    assert same(post(L, "o_s", text.encode()), text)
for bad in (b"\xff", b"\xc3", b"abc\x80"):
    try:
        post(L, "s", bad)
    except UnicodeDecodeError:
        pass
    else:
        raise AssertionError(bad)
for blob in (b"", b"\x00", b"\xff\xfe", bytes(range(256))):
    assert same(post(L, "by", blob), blob)
    assert same(post(L, "r_by", blob), blob)
for name in ("sub", "r_sub", "o_sub"):
    for sub in (Sub(), Sub(x=-5), Sub(x=2**62, name="n")):
        got = post(L, name, bytes(sub))
        assert type(got) is Sub and got == sub and bytes(got) == bytes(sub)
        assert got._serialized_on_wire is True
    try:
        post(L, name, b"\x08")          # nested message cut inside a field
    except EOFError:
        pass
    else:
        raise AssertionError(name)
entry = post(L, "m", b"\x0a\x01k\x10\x03")
assert entry.key == "k" and entry.value == -2
entry = post(L, "m", b"")
assert entry.key == "" and entry.value == 0
entry = post(L, "m2", b"\x09" + (7).to_bytes(8, "little") + b"\x12\x02\x08\x02")
assert entry.key == 7 and entry.value == Sub(x=1) and entry.value._serialized_on_wire
got = post(L, "ts", b"\x08\x01\x10\xe8\x07")
assert got == datetime(1970, 1, 1, 0, 0, 1, 1, tzinfo=timezone.utc), got
assert post(L, "ts", b"") == datetime(1970, 1, 1, tzinfo=timezone.utc)
assert same(post(L, "dur", b"\x08\x02\x10\xe8\x07"), timedelta(seconds=2, microseconds=1))
assert same(post(L, "dur", b""), timedelta(0))
assert same(post(L, "w_i64", b"\x08\x05"), 5)
assert same(post(L, "w_i64", b""), 0)
assert same(post(L, "w_i64", b"\x08" + b"\xff" * 9 + b"\x01"), -1)
assert same(post(L, "w_str", b"\x0a\x02hi"), "hi")
assert same(post(L, "w_str", b""), "")
assert post(L, "w_bool", b"\x08\x01") is True and post(L, "w_bool", b"") is False
# a packed run handed over as a whole is left alone (load splits it itself)
assert same(post(L, "r_i32", b"\x01\x02"), b"\x01\x02")
assert same(post(L, "r_fl", b"\0\0\0\0"), b"\0\0\0\0")


# ---------------------------------------------------------------------------
# Part 2: delimited streams
# ---------------------------------------------------------------------------
I32 = [0, 1, -1, 127, 128, -128, 2**31 - 1, -(2**31)]
I64 = I32 + [2**63 - 1, -(2**63), 2**35, -(2**35)]
U32 = [0, 1, 127, 128, 2**32 - 1]
U64 = U32 + [2**64 - 1, 2**63]
FL = [0.0, 1.5, -0.25, float("inf"), -float("inf"), 2.0**127, -(2.0**-126), 2.0**-149]
DB = FL + [1e308, -1e-308, 0.1]
STR = ["", "a", "hello", "é中\U0001F600", "x" * 130]
BY = [b"", b"\x00", b"\xff" * 3, bytes(range(256))]
ENUMS = list(Color) + [Color.try_value(5), Color.try_value(-7)]
TS = [datetime(1970, 1, 1, tzinfo=timezone.utc),
      datetime(2024, 2, 29, 12, 30, 15, 123456, tzinfo=timezone.utc),
      datetime(1969, 12, 31, 23, 59, 59, 999999, tzinfo=timezone.utc),
      datetime(1, 1, 1, tzinfo=timezone.utc),
      datetime(9999, 12, 31, 23, 59, 59, tzinfo=timezone.utc)]
DUR = [timedelta(0), timedelta(seconds=1, microseconds=5), timedelta(days=-3, microseconds=7),
       timedelta(days=10000), timedelta(microseconds=-1)]


def pick(pool):
    return rnd.choice(pool)


def some(pool):
    return [rnd.choice(pool) for _ in range(rnd.choice([0, 1, 2, 5]))]


def random_sub():
    return Sub(x=pick(I64), name=pick(STR))


SETTERS = {
    "i32": lambda: pick(I32), "i64": lambda: pick(I64), "u32": lambda: pick(U32),
    "u64": lambda: pick(U64), "s32": lambda: pick(I32), "s64": lambda: pick(I64),
    "b": lambda: pick([True, False]), "e": lambda: pick(ENUMS),
    "f32": lambda: pick(U32), "sf32": lambda: pick(I32), "f64": lambda: pick(U64),
    "sf64": lambda: pick(I64), "fl": lambda: pick(FL), "db": lambda: pick(DB),
    "s": lambda: pick(STR), "by": lambda: pick(BY), "sub": random_sub,
    "ts": lambda: pick(TS), "dur": lambda: pick(DUR),
    "w_i64": lambda: pick(I64), "w_str": lambda: pick(STR), "w_bool": lambda: pick([True, False]),
    "r_i32": lambda: some(I32), "r_i64": lambda: some(I64),
    "r_u32": lambda: some(U32), "r_u64": lambda: some(U64),
    "r_s32": lambda: some(I32), "r_s64": lambda: some(I64),
    "r_b": lambda: some([True, False]), "r_e": lambda: some(ENUMS),
    "r_f32": lambda: some(U32), "r_sf32": lambda: some(I32),
    "r_f64": lambda: some(U64), "r_sf64": lambda: some(I64),
    "r_fl": lambda: some(FL), "r_db": lambda: some(DB),
    "r_s": lambda: some(STR), "r_by": lambda: some(BY),
    "r_sub": lambda: [random_sub() for _ in range(rnd.choice([0, 1, 3]))],
    "m": lambda: {pick(STR): pick(I32) for _ in range(rnd.choice([0, 1, 3]))},
    "m2": lambda: {pick(U64): random_sub() for _ in range(rnd.choice([0, 1, 2]))},
    "o_i32": lambda: pick(I32), "o_s": lambda: pick(STR), "o_sub": random_sub,
    "o_e": lambda: pick(ENUMS),
    "opt_i64": lambda: pick(I64), "opt_b": lambda: pick([True, False]),
}
assert set(SETTERS) == set(META)


def random_all():
    m = All()
    names = list(SETTERS)
    for name in rnd.sample(names, rnd.choice([0, 1, 3, 8, 20, len(names)])):
        setattr(m, name, SETTERS[name]())
    return m


def varint(n):
    out = bytearray()
    while True:
        b = n & 0x7F
        n >>= 7
        if n:
            out.append(b | 0x80)
        else:
            out.append(b)
            return bytes(out)


def write_stream(messages):
    stream = BytesIO()
    ends = []
    for m in messages:
        m.dump(stream, SIZE_DELIMITED)
        ends.append(stream.tell())
    return stream.getvalue(), ends


def check_values(got, want, same_bytes=True):
    """Field by field, including the Python types of what load produced."""
    assert got == want, (got, want)
    if same_bytes:
        assert bytes(got) == bytes(want)
    else:  # map entries may come back in another order
        assert len(got) == len(bytes(got)) == len(bytes(want))
    for name in META:
        try:
            b = getattr(want, name)
        except AttributeError:          # unselected member of a oneof
            try:
                getattr(got, name)
            except AttributeError:
                continue
            raise AssertionError(name)
        a = getattr(got, name)
        assert a == b, (name, a, b)
        if isinstance(b, list):
            assert [type(x) for x in a] == [type(x) for x in b], name
        elif isinstance(b, dict):
            assert {k: type(v) for k, v in a.items()} == {k: type(v) for k, v in b.items()}
        else:
            assert type(a) is type(b), (name, a, b)
    assert betterproto.which_one_of(got, "pick") == betterproto.which_one_of(want, "pick")


# -- 2a. round trip, positions, cuts
for round_no in range(50):
    messages = [random_all() for _ in range(rnd.choice([1, 2, 4]))]
    if round_no % 3 == 0:
        messages.insert(rnd.randrange(len(messages) + 1), All())
        messages += [Sub(), random_sub()]
    data, ends = write_stream(messages)
    assert data == b"".join(varint(len(bytes(m))) + bytes(m) for m in messages)
    stream = BytesIO(data)
    for m, end in zip(messages, ends):
        got = type(m)().load(stream, SIZE_DELIMITED)
        assert stream.tell() == end
        if isinstance(m, All):
            check_values(got, m)
        else:
            assert got == m and bytes(got) == bytes(m)
    assert stream.read() == b""

    if len(data) <= 300:
        cuts = range(len(data) + 1)
    else:
        cuts = sorted(set(rnd.sample(range(len(data) + 1), 100)) | set(ends) | {0, 1, 2})
    for cut in cuts:
        stream = BytesIO(data[:cut])
        for m in messages:
            try:
                got = type(m)().load(stream, SIZE_DELIMITED)
            except (EOFError, ValueError, struct.error):
                break
            assert got == m and bytes(got) == bytes(m), cut

# -- 2b. every scalar at every distinguished value, one message per frame
singles = []
for name, pool in (("i32", I32), ("i64", I64), ("u32", U32), ("u64", U64), ("s32", I32),
                   ("s64", I64), ("e", ENUMS), ("f32", U32), ("sf32", I32), ("f64", U64),
                   ("sf64", I64), ("fl", FL), ("db", DB), ("s", STR), ("by", BY),
                   ("ts", TS), ("dur", DUR), ("w_i64", I64), ("w_str", STR),
                   ("o_i32", I32), ("o_s", STR), ("o_e", ENUMS), ("opt_i64", I64)):
    for value in pool:
        singles.append(All(**{name: value}))
        if ("r_" + name) in META:
            singles.append(All(**{"r_" + name: [value, value]}))
singles += [All(b=True), All(opt_b=False), All(opt_b=True), All(w_bool=False), All(w_bool=True),
            All(o_sub=Sub()), All(sub=Sub()), All(r_sub=[Sub(), Sub(x=1)]), All(r_b=[True, False])]
data, ends = write_stream(singles)
stream = BytesIO(data)
for m, end in zip(singles, ends):
    check_values(All().load(stream, SIZE_DELIMITED), m)
    assert stream.tell() == end
assert stream.read() == b""

# -- 2c. google.protobuf reads / writes the same frames and the same values
from google.protobuf import (descriptor_pb2, descriptor_pool, duration_pb2, message_factory,
                             proto, timestamp_pb2, wrappers_pb2)

F = descriptor_pb2.FieldDescriptorProto
pool = descriptor_pool.DescriptorPool()
for dep in (timestamp_pb2, duration_pb2, wrappers_pb2):
    pool.AddSerializedFile(dep.DESCRIPTOR.serialized_pb)
fdp = descriptor_pb2.FileDescriptorProto(
    name="c10_keep2.proto", package="c10k2", syntax="proto3",
    dependency=["google/protobuf/timestamp.proto", "google/protobuf/duration.proto",
                "google/protobuf/wrappers.proto"])
enum = fdp.enum_type.add(name="Color")
for name, number in (("ZERO", 0), ("ONE", 1), ("BIG", 2147483647), ("NEG", -1), ("MIN", -2147483648)):
    enum.value.add(name=name, number=number)
sub = fdp.message_type.add(name="Sub")
sub.field.add(name="x", number=1, type=F.TYPE_SINT64, label=F.LABEL_OPTIONAL)
sub.field.add(name="name", number=2, type=F.TYPE_STRING, label=F.LABEL_OPTIONAL)
allm = fdp.message_type.add(name="All")
TYPE_NAMES = {F.TYPE_ENUM: ".c10k2.Color", F.TYPE_MESSAGE: ".c10k2.Sub"}
scalars = [
    ("i32", F.TYPE_INT32), ("i64", F.TYPE_INT64), ("u32", F.TYPE_UINT32),
    ("u64", F.TYPE_UINT64), ("s32", F.TYPE_SINT32), ("s64", F.TYPE_SINT64),
    ("b", F.TYPE_BOOL), ("e", F.TYPE_ENUM), ("f32", F.TYPE_FIXED32),
    ("sf32", F.TYPE_SFIXED32), ("f64", F.TYPE_FIXED64), ("sf64", F.TYPE_SFIXED64),
    ("fl", F.TYPE_FLOAT), ("db", F.TYPE_DOUBLE), ("s", F.TYPE_STRING),
    ("by", F.TYPE_BYTES), ("sub", F.TYPE_MESSAGE),
]
for idx, (name, ftype) in enumerate(scalars):
    for prefix, base, label in (("", 1, F.LABEL_OPTIONAL), ("r_", 21, F.LABEL_REPEATED)):
        allm.field.add(name=prefix + name, number=base + idx, type=ftype, label=label,
                       type_name=TYPE_NAMES.get(ftype))
for name, number, type_name in (("ts", 18, ".google.protobuf.Timestamp"),
                                ("dur", 19, ".google.protobuf.Duration"),
                                ("w_i64", 20, ".google.protobuf.Int64Value"),
                                ("w_str", 38, ".google.protobuf.StringValue"),
                                ("w_bool", 39, ".google.protobuf.BoolValue")):
    allm.field.add(name=name, number=number, type=F.TYPE_MESSAGE, label=F.LABEL_OPTIONAL,
                   type_name=type_name)
for entry_name, number, ktype, vtype in (("MEntry", 40, F.TYPE_STRING, F.TYPE_SINT32),
                                         ("M2Entry", 41, F.TYPE_FIXED64, F.TYPE_MESSAGE)):
    entry = allm.nested_type.add(name=entry_name)
    entry.options.map_entry = True
    entry.field.add(name="key", number=1, type=ktype, label=F.LABEL_OPTIONAL)
    entry.field.add(name="value", number=2, type=vtype, label=F.LABEL_OPTIONAL,
                    type_name=TYPE_NAMES.get(vtype))
    allm.field.add(name=entry_name[:-5].lower(), number=number, type=F.TYPE_MESSAGE,
                   label=F.LABEL_REPEATED, type_name=".c10k2.All." + entry_name)
allm.oneof_decl.add(name="pick")
for name, number, ftype in (("o_i32", 50, F.TYPE_INT32), ("o_s", 51, F.TYPE_STRING),
                            ("o_sub", 52, F.TYPE_MESSAGE), ("o_e", 53, F.TYPE_ENUM)):
    allm.field.add(name=name, number=number, type=ftype, label=F.LABEL_OPTIONAL,
                   type_name=TYPE_NAMES.get(ftype), oneof_index=0)
allm.oneof_decl.add(name="_opt_i64")
allm.oneof_decl.add(name="_opt_b")
allm.field.add(name="opt_i64", number=60, type=F.TYPE_INT64, label=F.LABEL_OPTIONAL,
               oneof_index=1, proto3_optional=True)
allm.field.add(name="opt_b", number=61, type=F.TYPE_BOOL, label=F.LABEL_OPTIONAL,
               oneof_index=2, proto3_optional=True)
pool.Add(fdp)
GAll = message_factory.GetMessageClass(pool.FindMessageTypeByName("c10k2.All"))
GSub = message_factory.GetMessageClass(pool.FindMessageTypeByName("c10k2.Sub"))


def google_roundtrip(messages):
    gclasses = [GAll if isinstance(m, All) else GSub for m in messages]
    data, ends = write_stream(messages)
    stream = BytesIO(data)
    gstream = BytesIO()
    for gcls, m, end in zip(gclasses, messages, ends):
        g = proto.parse_length_prefixed(gcls, stream)
        assert g is not None and stream.tell() == end
        proto.serialize_length_prefixed(g, gstream)
    gstream.seek(0)
    for m in messages:
        got = type(m)().load(gstream, SIZE_DELIMITED)
        if isinstance(m, All):
            check_values(got, m, same_bytes=False)
        else:
            assert got == m
    assert gstream.read() == b""


google_roundtrip(singles)
for round_no in range(30):
    messages = [random_all() for _ in range(3)] + [All(), random_sub(), Sub()]
    rnd.shuffle(messages)
    google_roundtrip(messages)

# spot check that google agrees on the values, not only on the bytes
g = GAll()
g.ParseFromString(bytes(All(i32=-1, e=Color.MIN, s64=-(2**63), r_i64=[-1, 2**63 - 1],
                            ts=TS[1], dur=DUR[2], w_i64=-5, o_e=Color.NEG)))
assert g.i32 == -1 and g.e == -2147483648 and g.s64 == -(2**63)
assert list(g.r_i64) == [-1, 2**63 - 1]
assert g.ts.ToDatetime(tzinfo=timezone.utc) == TS[1] and g.dur.ToTimedelta() == DUR[2]
assert g.w_i64.value == -5 and g.WhichOneof("pick") == "o_e" and g.o_e == -1

print("keep2 equiv: OK")
