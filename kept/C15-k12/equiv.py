"""C15 keep2: field framing (_serialize_single / _len_single / _wire_type_matches), i.e. the
code that puts the tag and length around every Timestamp / Duration sub-message.

1. the three functions are compared, for every proto type, with a literal transcription of
   the if/elif formulation (tag = number << 3 | wire type chosen by list membership);
2. messages with Timestamp / Duration fields (singular, optional, oneof, repeated, map) are
   compared byte for byte with google.protobuf and round-tripped;
3. a Timestamp / Duration field number that arrives with another wire type is kept as an
   unknown field and does not disturb the value.
"""
import random
import struct
from dataclasses import dataclass
from datetime import datetime, timedelta, timezone
from typing import Dict, List, Optional

from google.protobuf import duration_pb2, timestamp_pb2

import betterproto
from betterproto import (
    PACKED_TYPES,
    WIRE_FIXED_32_TYPES,
    WIRE_FIXED_64_TYPES,
    WIRE_LEN_DELIM_TYPES,
    WIRE_VARINT_TYPES,
    _len_single,
    _preprocess_single,
    _serialize_single,
    _Duration,
    _Timestamp,
    _wire_type_matches,
    encode_varint,
)

rng = random.Random(1502)


# ------------------------------------------------------------------ 1. oracle
def oracle_serialize(field_number, proto_type, value, *, serialize_empty=False, wraps=""):
    value = _preprocess_single(proto_type, wraps, value)
    output = bytearray()
    if proto_type in WIRE_VARINT_TYPES:
        output += encode_varint(field_number << 3) + value
    elif proto_type in WIRE_FIXED_32_TYPES:
        output += encode_varint((field_number << 3) | 5) + value
    elif proto_type in WIRE_FIXED_64_TYPES:
        output += encode_varint((field_number << 3) | 1) + value
    elif proto_type in WIRE_LEN_DELIM_TYPES:
        if len(value) or serialize_empty or wraps:
            output += encode_varint((field_number << 3) | 2) + encode_varint(len(value)) + value
    else:
        raise NotImplementedError(proto_type)
    return bytes(output)


def oracle_matches(wire_type, proto_type, repeated):
    if wire_type == 0:
        return proto_type in WIRE_VARINT_TYPES
    if wire_type == 5:
        return proto_type in WIRE_FIXED_32_TYPES
    if wire_type == 1:
        return proto_type in WIRE_FIXED_64_TYPES
    if wire_type == 2:
        return proto_type in WIRE_LEN_DELIM_TYPES or (repeated and proto_type in PACKED_TYPES)
    return False


UTC = timezone.utc
EPOCH = datetime(1970, 1, 1, tzinfo=UTC)
MIN_DT = datetime(1, 1, 1, tzinfo=UTC)
MAX_DT = datetime(9999, 12, 31, 23, 59, 59, 999999, tzinfo=UTC)
SPAN_US = (MAX_DT - MIN_DT) // timedelta(microseconds=1)
MAX_S = 315_576_000_000


def rand_dt():
    mode = rng.random()
    if mode < 0.3:
        dt = EPOCH + timedelta(microseconds=rng.randint(-5 * 10**6, 5 * 10**6))
    else:
        dt = MIN_DT + timedelta(microseconds=rng.randint(0, SPAN_US))
    if rng.random() < 0.5:
        try:
            dt = dt.astimezone(timezone(timedelta(minutes=rng.randint(-840, 840))))
        except OverflowError:
            pass
    return dt


def rand_td():
    magnitude = rng.choice((10**3, 10**6, 3 * 10**6, 10**9, 2**54, MAX_S * 10**6))
    us = rng.randint(-magnitude, magnitude)
    if rng.random() < 0.2:
        us -= us % 10**6
    return timedelta(microseconds=us)


SPECIAL_DT = [EPOCH, MIN_DT, MAX_DT, EPOCH - timedelta(microseconds=1), EPOCH + timedelta(microseconds=1),
              EPOCH.astimezone(timezone(timedelta(hours=5, minutes=30))),
              EPOCH + timedelta(microseconds=2**53 + 1)]
SPECIAL_TD = [timedelta(0), timedelta(microseconds=1), timedelta(microseconds=-1), timedelta(seconds=-1.5),
              timedelta(seconds=-0.5), timedelta(seconds=MAX_S), timedelta(seconds=-MAX_S),
              -timedelta(microseconds=2**53 + 1)]

samples = {
    betterproto.TYPE_ENUM: [0, 1, 127, 128, -1, 2**31 - 1],
    betterproto.TYPE_BOOL: [False, True],
    betterproto.TYPE_INT32: [0, 1, -1, 2**31 - 1, -(2**31), -999_999_000, 999_999_000],
    betterproto.TYPE_INT64: [0, 1, -1, 2**63 - 1, -(2**63), -62135596800, 253402300799],
    betterproto.TYPE_UINT32: [0, 1, 2**32 - 1],
    betterproto.TYPE_UINT64: [0, 1, 2**64 - 1],
    betterproto.TYPE_SINT32: [0, 1, -1, 2**31 - 1, -(2**31)],
    betterproto.TYPE_SINT64: [0, 1, -1, 2**63 - 1, -(2**63)],
    betterproto.TYPE_FLOAT: [0.0, 1.5, -2.25],
    betterproto.TYPE_DOUBLE: [0.0, 1.5, -2.25, 1e300],
    betterproto.TYPE_FIXED32: [0, 1, 2**32 - 1],
    betterproto.TYPE_SFIXED32: [0, -1, 2**31 - 1],
    betterproto.TYPE_FIXED64: [0, 1, 2**64 - 1],
    betterproto.TYPE_SFIXED64: [0, -1, 2**63 - 1],
    betterproto.TYPE_STRING: ["", "a", "é" * 70, "x" * 300],
    betterproto.TYPE_BYTES: [b"", b"\x00", b"y" * 127, b"y" * 128, bytearray(b"abc"), bytearray()],
    betterproto.TYPE_MESSAGE: SPECIAL_DT + SPECIAL_TD
    + [rand_dt() for _ in range(300)]
    + [rand_td() for _ in range(300)]
    + [_Timestamp(), _Timestamp(seconds=-1, nanos=999_999_000), _Duration(), _Duration(seconds=0, nanos=-1000)],
    betterproto.TYPE_MAP: [b"", b"\x0a\x01k\x12\x00", bytearray(b"\x08\x01")],
}
numbers = [1, 2, 15, 16, 2047, 2048, 2**29 - 1]
checked = 0
for proto_type, vals in samples.items():
    for value in vals:
        for number in numbers:
            for serialize_empty in (False, True):
                want = oracle_serialize(number, proto_type, value, serialize_empty=serialize_empty)
                got = _serialize_single(number, proto_type, value, serialize_empty=serialize_empty)
                assert type(got) is bytes and got == want, (proto_type, value, number, serialize_empty)
                size = _len_single(number, proto_type, value, serialize_empty=serialize_empty)
                assert type(size) is int and size == len(want), (proto_type, value, number)
                checked += 1

# wrapper values (wraps given): None is framed as an empty wrapper, a value as its message
for wraps, vals in ((betterproto.TYPE_INT64, [None, 0, 5, -5]), (betterproto.TYPE_STRING, [None, "", "s"]),
                    (betterproto.TYPE_BOOL, [None, False, True])):
    for value in vals:
        for number in numbers:
            for serialize_empty in (False, True):
                want = oracle_serialize(number, betterproto.TYPE_MESSAGE, value,
                                        serialize_empty=serialize_empty, wraps=wraps)
                got = _serialize_single(number, betterproto.TYPE_MESSAGE, value,
                                        serialize_empty=serialize_empty, wraps=wraps)
                assert got == want and want, (wraps, value)
                assert _len_single(number, betterproto.TYPE_MESSAGE, value,
                                   serialize_empty=serialize_empty, wraps=wraps) == len(want)
                checked += 1

# error path: an unknown proto type
for fn in (_serialize_single, _len_single):
    try:
        fn(1, "no-such-type", b"")
    except NotImplementedError as e:
        assert e.args == ("no-such-type",)
    else:
        raise AssertionError("unknown proto type accepted")

all_types = list(samples) + ["no-such-type"]
for wire_type in range(-1, 9):
    for proto_type in all_types:
        for repeated in (False, True):
            got = _wire_type_matches(wire_type, proto_type, repeated)
            assert got is oracle_matches(wire_type, proto_type, repeated), (wire_type, proto_type, repeated)


# ------------------------------------------------------------------ 2. messages
@dataclass(eq=False, repr=False)
class Plain(betterproto.Message):
    ts: datetime = betterproto.message_field(1)
    d: timedelta = betterproto.message_field(2)


@dataclass(eq=False, repr=False)
class Rich(betterproto.Message):
    ts: datetime = betterproto.message_field(1)
    d: timedelta = betterproto.message_field(2)
    tss: List[datetime] = betterproto.message_field(3)
    ds: List[timedelta] = betterproto.message_field(4)
    mts: Dict[str, datetime] = betterproto.map_field(5, betterproto.TYPE_STRING, betterproto.TYPE_MESSAGE)
    mds: Dict[int, timedelta] = betterproto.map_field(6, betterproto.TYPE_INT64, betterproto.TYPE_MESSAGE)
    ots: Optional[datetime] = betterproto.message_field(2000, optional=True)
    od: Optional[timedelta] = betterproto.message_field(300000, optional=True)
    one_ts: datetime = betterproto.message_field(17, group="pick")
    one_d: timedelta = betterproto.message_field(18, group="pick")


def ref_ts(dt):
    m = timestamp_pb2.Timestamp()
    m.FromDatetime(dt)
    assert 0 <= m.nanos < 10**9
    return m.SerializeToString()


def ref_d(td):
    m = duration_pb2.Duration()
    m.FromTimedelta(td)
    assert m.seconds * m.nanos >= 0
    return m.SerializeToString()


def frame(number, payload):
    return encode_varint((number << 3) | 2) + encode_varint(len(payload)) + payload


for dt, td in zip(SPECIAL_DT + [rand_dt() for _ in range(2000)], SPECIAL_TD[:7] + [rand_td() for _ in range(2000)]):
    want = b""
    if dt != EPOCH:
        want += frame(1, ref_ts(dt))
    if td != timedelta(0):
        want += frame(2, ref_d(td))
    m = Plain(ts=dt, d=td)
    raw = bytes(m)
    assert raw == want, (dt, td)
    assert len(m) == len(raw)
    back = Plain().parse(raw)
    assert back.ts == dt and back.d == td
    assert back.ts.utcoffset() == timedelta(0)

for i in range(500):
    n = rng.randint(0, 3)
    tss = [rand_dt() for _ in range(n)] + ([EPOCH] if i % 3 == 0 else [])
    ds = [rand_td() for _ in range(n)] + ([timedelta(0)] if i % 4 == 0 else [])
    mts = {f"k{j}": rand_dt() for j in range(n)}
    if i % 5 == 0:
        mts[""] = EPOCH
    mds = {rng.randint(-(2**40), 2**40): rand_td() for _ in range(n)}
    msg = Rich(ts=rand_dt(), d=rand_td(), tss=tss, ds=ds, mts=mts, mds=mds)
    if i % 2 == 0:
        msg.ots = EPOCH if i % 6 == 0 else rand_dt()
    if i % 3 == 0:
        msg.od = timedelta(0) if i % 9 == 0 else rand_td()
    if i % 4 == 1:
        msg.one_ts = EPOCH if i % 8 == 1 else rand_dt()
    elif i % 4 == 2:
        msg.one_d = timedelta(0) if i % 8 == 2 else rand_td()

    want = (frame(1, ref_ts(msg.ts)) if msg.ts != EPOCH else b"") + (frame(2, ref_d(msg.d)) if msg.d else b"")
    want += b"".join(frame(3, ref_ts(x)) for x in tss)
    want += b"".join(frame(4, ref_d(x)) for x in ds)
    for k, v in mts.items():
        entry = (frame(1, k.encode()) if k else b"") + (frame(2, ref_ts(v)) if v != EPOCH else b"")
        want += frame(5, entry)
    for k, v in mds.items():
        entry = (b"\x08" + encode_varint(k) if k else b"") + (frame(2, ref_d(v)) if v else b"")
        want += frame(6, entry)
    if msg.ots is not None:
        want += frame(2000, ref_ts(msg.ots))
    if msg.od is not None:
        want += frame(300000, ref_d(msg.od))
    # fields go out in declaration order, so the oneof members come last
    if i % 4 == 1:
        want += frame(17, ref_ts(msg.one_ts))
    elif i % 4 == 2:
        want += frame(18, ref_d(msg.one_d))

    raw = bytes(msg)
    assert raw == want, i
    assert len(msg) == len(raw), i
    back = Rich().parse(raw)
    assert bytes(back) == raw
    for name in ("ts", "d", "tss", "ds", "mts", "mds", "ots", "od"):
        assert getattr(back, name) == getattr(msg, name), (i, name)
    assert betterproto.which_one_of(back, "pick") == betterproto.which_one_of(msg, "pick"), i

# ------------------------------------------------------------------ 3. mismatching wire types
dt = datetime(2001, 2, 3, 4, 5, 6, 789012, tzinfo=UTC)
td = timedelta(seconds=-7, microseconds=-250)
good = bytes(Plain(ts=dt, d=td))
strays = [
    b"\x08\x05",  # field 1 as varint
    b"\x0d" + struct.pack("<I", 7),  # field 1 as fixed32
    b"\x11" + struct.pack("<Q", 7),  # field 2 as fixed64
    b"\x10\x96\x01",  # field 2 as varint
]
for stray in strays:
    for data in (stray + good, good + stray):
        back = Plain().parse(data)
        assert back.ts == dt and back.d == td, stray
        assert back._unknown_fields == stray, stray
        assert bytes(back) == good + stray

print(f"ok: {checked} framings")
