"""C18 keep1: option handling of betterproto.plugin.parser.generate_code.

Generates a four-file, three-package schema under every option combination (and under
reordered, unknown, repeated and conflicting option strings), imports the output, checks
that all configurations agree, and compares fingerprints of the generated sources with
the ones recorded on the reference tree.

Run:  PYTHONPATH=<worktree>/src /venv/bin/python equiv.py
"""
import contextlib
import dataclasses
import datetime
import hashlib
import importlib
import io
import itertools
import os
import shutil
import subprocess
import sys
import tempfile
import types
import typing

import betterproto
from betterproto.plugin import compiler as plugin_compiler

# ruff is not installed: the two formatting passes become the identity
plugin_compiler.subprocess.check_output = lambda cmd, input, encoding: input

from betterproto.lib.google.protobuf import FileDescriptorSet
from betterproto.lib.google.protobuf.compiler import CodeGeneratorRequest
from betterproto.plugin.models import monkey_patch_oneof_index
from betterproto.plugin.parser import generate_code

monkey_patch_oneof_index()

CONFIGS = [
    (t, p)
    for t in ("typing.direct", "typing.root", "typing.310")
    for p in (False, True)
]
WORK = tempfile.mkdtemp(prefix="c18_equiv_")
sys.path.insert(0, WORK)
_counter = itertools.count()


def descriptor_set(protos):
    d = tempfile.mkdtemp(prefix="c18_protos_")
    for name, text in protos.items():
        path = os.path.join(d, name)
        os.makedirs(os.path.dirname(path), exist_ok=True)
        with open(path, "w") as f:
            f.write(text)
    out = os.path.join(d, "ds.bin")
    subprocess.check_call(
        [sys.executable, "-m", "grpc_tools.protoc", f"-I{d}", "--include_imports",
         "--include_source_info", f"--descriptor_set_out={out}", *protos]
    )
    with open(out, "rb") as f:
        data = f.read()
    shutil.rmtree(d)
    return data


def generate(ds_bytes, files, parameter):
    """Run the plugin's generate_code; returns {file name: content}."""
    request = CodeGeneratorRequest(
        file_to_generate=list(files),
        parameter=parameter,
        proto_file=FileDescriptorSet().parse(ds_bytes).file,
    )
    with contextlib.redirect_stderr(io.StringIO()):
        response = generate_code(request)
    names = [f.name for f in response.file]
    assert len(names) == len(set(names)), names
    return {f.name: f.content for f in response.file}


def digest(sources):
    """Order-insensitive fingerprint of the generated sources (the trailing cross-package
    imports are emitted from a set, so line order may depend on the hash seed)."""
    h = hashlib.sha256()
    for name in sorted(sources):
        h.update(name.encode() + b"\0")
        h.update("\n".join(sorted(sources[name].splitlines())).encode() + b"\0")
    return h.hexdigest()[:16]


def import_sources(sources):
    root = f"c18gen{next(_counter)}"
    for name, content in sources.items():
        path = os.path.join(WORK, root, name)
        os.makedirs(os.path.dirname(path), exist_ok=True)
        with open(path, "w") as f:
            f.write(content)
    importlib.invalidate_caches()
    mods = {}
    for name in sorted(sources, key=len):
        compile(sources[name], name, "exec")
        package = ".".join(name.split("/")[:-1])
        mods[package] = importlib.import_module(".".join(filter(None, [root, package])))
    return mods


def parameter_of(cfg):
    typing_opt, pydantic = cfg
    return ",".join([typing_opt] + (["pydantic_dataclasses"] if pydantic else []))


def norm_type(t):
    origin = typing.get_origin(t)
    if origin is typing.Union or isinstance(t, types.UnionType):
        return ("union",) + tuple(sorted(repr(norm_type(a)) for a in typing.get_args(t)))
    if origin in (list, dict):
        return (origin.__name__,) + tuple(norm_type(a) for a in typing.get_args(t))
    if isinstance(t, type):
        mod = t.__module__
        if mod.startswith("c18gen"):
            mod = mod.partition(".")[2]
        mod = mod.replace("betterproto.lib.pydantic.", "betterproto.lib.")
        mod = mod.replace("betterproto.lib.std.", "betterproto.lib.")
        return (mod, t.__qualname__)
    return repr(t)


def norm_member(t):
    # a oneof member is `T` with standard and `Optional[T]` with pydantic dataclasses
    if typing.get_origin(t) is typing.Union or isinstance(t, types.UnionType):
        args = [a for a in typing.get_args(t) if a is not type(None)]
        if len(args) == 1:
            return norm_type(args[0])
    return norm_type(t)


def describe(mods):
    out = {}
    for package, mod in mods.items():
        for name in getattr(mod, "__all__", ()):
            obj = getattr(mod, name)
            if issubclass(obj, betterproto.Message):
                hints = obj._type_hints()
                fields = []
                for f in dataclasses.fields(obj):
                    m = betterproto.FieldMetadata.get(f)
                    fields.append((
                        f.name, m.number, m.proto_type, m.map_types, m.group, m.wraps,
                        None if m.group else m.optional,
                        norm_member(hints[f.name]) if m.group else norm_type(hints[f.name]),
                    ))
                out[package, name] = ("message", tuple(fields))
            elif issubclass(obj, betterproto.Enum):
                out[package, name] = ("enum", tuple((m.name, m.value) for m in obj))
            else:
                out[package, name] = ("service", tuple(sorted(k for k in vars(obj) if not k.startswith("_"))))
    return out


class E:  # enum member reference
    def __init__(self, package, enum, member):
        self.ref = (package, enum, member)

    def __repr__(self):
        return "E(%r, %r, %r)" % self.ref


def make(mods, spec):
    if isinstance(spec, tuple) and len(spec) == 3 and isinstance(spec[2], dict):
        package, name, kwargs = spec
        return getattr(mods[package], name)(**{k: make(mods, v) for k, v in kwargs.items()})
    if isinstance(spec, E):
        package, enum, member = spec.ref
        return getattr(getattr(mods[package], enum), member)
    if isinstance(spec, list):
        return [make(mods, v) for v in spec]
    if isinstance(spec, dict):
        return {k: make(mods, v) for k, v in spec.items()}
    return spec


def encodings(mods, values):
    out = []
    for spec in values:
        msg = make(mods, spec)
        data, text = bytes(msg), msg.to_json()
        again = type(msg)().parse(data)
        assert bytes(again) == data, spec
        assert again.to_json() == text, spec
        assert type(msg)().from_json(text).to_json() == text, spec
        out.append((data, text))
    return out


def check_configs_agree(ds, files, values, configs=CONFIGS):
    """The C18 statement itself: every configuration imports and agrees with the default."""
    reference = None
    digests = {}
    for cfg in configs:
        sources = generate(ds, files, parameter_of(cfg))
        digests[cfg] = digest(sources)
        mods = import_sources(sources)
        desc = describe(mods)
        enc = encodings(mods, values)
        if reference is None:
            reference = (desc, enc)
            continue
        assert desc.keys() == reference[0].keys(), (cfg, set(desc) ^ set(reference[0]))
        for key in desc:
            assert desc[key] == reference[0][key], (cfg, key, desc[key], reference[0][key])
        for spec, got, want in zip(values, enc, reference[1]):
            assert got[0] == want[0], ("bytes differ from default config", cfg, spec)
            assert got[1] == want[1], ("JSON differs from default config", cfg, spec)
    return digests, reference


# Fingerprints of the generated sources, recorded on the reference tree.
GOLDEN = {
    ("typing.direct", False): "50f3994f927e2b1f",
    ("typing.direct", True): "92fa73f1c360abac",
    ("typing.root", False): "707850e2a2391bc0",
    ("typing.root", True): "864566787a054e89",
    ("typing.310", False): "3bd0fd630bd47336",
    ("typing.310", True): "bef9c3371d078862",
}
GOLDEN_GOOGLE = {
    "INCLUDE_GOOGLE": "0ebb03d506d588c9",
    "typing.root,INCLUDE_GOOGLE,pydantic_dataclasses": "cc464825b6679d9d",
    "INCLUDE_GOOGLE,typing.310": "ee0c486e89995c12",
}

PROTOS = {
    "pk/a1.proto": """
syntax = "proto3";
package pk.a;
import "pk/b.proto";
import "google/protobuf/wrappers.proto";
import "google/protobuf/timestamp.proto";
import "google/protobuf/duration.proto";
import "google/protobuf/struct.proto";
import "google/protobuf/empty.proto";

enum Color { COLOR_RED = 0; COLOR_GREEN = 1; COLOR_NEG = -3; }
message Inner { int32 x = 1; }
message M {
  int32 a = 1;
  optional string s = 2;
  repeated Inner inners = 3;
  map<string, Inner> mp = 4;
  map<int32, pk.b.Other> mo = 5;
  oneof g { int32 g1 = 6; Inner g2 = 7; pk.b.Other g3 = 8; Color g4 = 20; }
  Color c = 9;
  google.protobuf.Int32Value w = 10;
  google.protobuf.Timestamp ts = 11;
  optional Inner oi = 12;
  message Nested { repeated Color cs = 1; }
  Nested n = 13;
  google.protobuf.Duration d = 14;
  repeated google.protobuf.StringValue ws = 15;
  map<string, google.protobuf.Int64Value> mw = 16;
  google.protobuf.Struct st = 17;
  optional Color oc = 18;
  repeated double ds = 19;
  bytes bs = 21;
  pk.b.Kind k = 22;
  google.protobuf.Empty e = 23;
}
""",
    "pk/a2.proto": """
syntax = "proto3";
package pk.a;
import "pk/a1.proto";
import "pk/b.proto";
import "top.proto";
message Second { M m = 1; optional pk.b.Kind kind = 2; Top top = 3; }
service Svc {
  rpc UU(M) returns (Inner);
  rpc US(Second) returns (stream pk.b.Other);
  rpc SU(stream pk.b.Other) returns (M);
  rpc SS(stream Inner) returns (stream Second);
}
""",
    "pk/b.proto": """
syntax = "proto3";
package pk.b;
enum Kind { KIND_A = 0; KIND_B = 5; }
message Other { string name = 1; }
""",
    "top.proto": """
syntax = "proto3";
message Top { repeated string tags = 1; }
""",
}
FILES = list(PROTOS)
A, B, T = "pk.a", "pk.b", ""
VALUES = [
    (A, "M", {}),
    (A, "M", {"a": 5, "s": "", "inners": [(A, "Inner", {"x": 1}), (A, "Inner", {})],
              "mp": {"k": (A, "Inner", {"x": 2})}, "mo": {3: (B, "Other", {"name": "n"})}}),
    (A, "M", {"g1": 0}),
    (A, "M", {"g2": (A, "Inner", {})}),
    (A, "M", {"g3": (B, "Other", {"name": "z"})}),
    (A, "M", {"g4": E(A, "Color", "NEG")}),
    (A, "M", {"c": E(A, "Color", "GREEN"), "w": 0, "oi": (A, "Inner", {}),
              "ts": datetime.datetime(2020, 1, 2, 3, 4, 5, tzinfo=datetime.timezone.utc),
              "n": (A, "MNested", {"cs": [E(A, "Color", "NEG"), E(A, "Color", "RED")]})}),
    (A, "M", {"d": datetime.timedelta(seconds=3, microseconds=5), "ws": ["a", ""],
              "oc": E(A, "Color", "RED"), "ds": [1.5, -0.0], "bs": b"\x00\xff", "k": E(B, "Kind", "B")}),
    (A, "Second", {"m": (A, "M", {"a": 1}), "kind": E(B, "Kind", "A"), "top": (T, "Top", {"tags": ["x", ""]})}),
    (T, "Top", {}),
]

EXPECTED_FILES = {"__init__.py", "pk/__init__.py", "pk/a/__init__.py", "pk/b/__init__.py"}


def main():
    ds = descriptor_set(PROTOS)

    # 1. the property itself, for the 3 x 2 configurations
    digests, _ = check_configs_agree(ds, FILES, VALUES)
    print("digests", {parameter_of(k): v for k, v in digests.items()})
    for cfg, want in GOLDEN.items():
        assert digests[cfg] == want, ("generated source changed", cfg, digests[cfg], want)

    # 2. option strings: order, defaults, unknown and repeated options
    def d(parameter):
        sources = generate(ds, FILES, parameter)
        assert set(sources) == EXPECTED_FILES, (parameter, sorted(sources))
        return digest(sources)

    direct, direct_pyd = digests["typing.direct", False], digests["typing.direct", True]
    assert d("") == direct
    assert d("typing.direct") == direct
    assert d("pydantic_dataclasses") == direct_pyd
    assert d("typing.foo") == direct  # an unknown typing option keeps the default compiler
    assert d("typing.") == direct
    assert d("typing.foo,pydantic_dataclasses") == direct_pyd
    assert d("foo,bar") == direct  # unknown options are ignored
    assert d("typing") == direct and d("typing310") == direct
    assert d("pydantic_dataclasses=1") == direct  # not the option
    for (typing_opt, pydantic), want in digests.items():
        if pydantic:
            assert d(f"pydantic_dataclasses,{typing_opt}") == want
            assert d(f"{typing_opt},pydantic_dataclasses") == want
            assert d(f"x,{typing_opt},y,pydantic_dataclasses,pydantic_dataclasses") == want
        else:
            assert d(typing_opt) == want
            assert d(f"{typing_opt},zzz") == want
    assert len(set(digests.values())) == 6  # the options really select different output

    for parameter in ("typing.direct,typing.310", "typing.root,typing.root",
                      "typing.310,pydantic_dataclasses,typing.direct", "typing.foo,typing.bar"):
        try:
            generate(ds, FILES, parameter)
        except ValueError as exc:
            assert str(exc) == "Multiple typing options provided", exc
        else:
            raise AssertionError(f"{parameter!r} accepted")

    # 3. INCLUDE_GOOGLE also writes the google.protobuf package, otherwise it is skipped
    for parameter, base in (("INCLUDE_GOOGLE", ""), ("typing.root,INCLUDE_GOOGLE,pydantic_dataclasses", "typing.root,pydantic_dataclasses"),
                            ("INCLUDE_GOOGLE,typing.310", "typing.310")):
        sources = generate(ds, FILES, parameter)
        assert set(sources) == EXPECTED_FILES | {"google/__init__.py", "google/protobuf/__init__.py"}, sorted(sources)
        compile(sources["google/protobuf/__init__.py"], "google/protobuf/__init__.py", "exec")
        plain = generate(ds, FILES, base)
        for name in EXPECTED_FILES:
            assert sorted(sources[name].splitlines()) == sorted(plain[name].splitlines()), (parameter, name)
        assert digest(sources) == GOLDEN_GOOGLE[parameter], (parameter, digest(sources))
        print("google", parameter, digest(sources))

    # 4. only the files asked for / several files of one package
    only_b = descriptor_set({"pk/b.proto": PROTOS["pk/b.proto"]})
    for cfg in CONFIGS:
        sources = generate(only_b, ["pk/b.proto"], parameter_of(cfg))
        assert set(sources) == {"__init__.py", "pk/__init__.py", "pk/b/__init__.py"}
        mods = import_sources(sources)
        assert bytes(mods["pk.b"].Other(name="q")) == b"\n\x01q"
        # a package without typing constructs imports nothing from typing
        assert "typing" not in sources["pk/b/__init__.py"], cfg
        assert "collections.abc" not in sources["pk/b/__init__.py"], cfg
    # a request without input files and without parameter
    assert generate(only_b, [], "")  # proto_file still lists pk/b.proto
    empty = CodeGeneratorRequest(file_to_generate=[], parameter="typing.root")
    with contextlib.redirect_stderr(io.StringIO()):
        assert list(generate_code(empty).file) == []
    print("keep1 equiv: OK")


if __name__ == "__main__":
    try:
        main()
    finally:
        shutil.rmtree(WORK, ignore_errors=True)
