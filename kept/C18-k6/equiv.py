"""C18 / keep2: equivalence checks for the service part of templates/template.py.j2.

The protoc plugin is run in-process on schemas with services of every streaming
cardinality (plain, deprecated, commented, google.protobuf.Empty, cross-package
types, an empty service) under every option combination.  For every variant

* the generated package imports,
* every stub method is checked structurally (ast): helper called, positional
  arguments, keyword arguments, ``async for ... yield`` versus ``return await``,
* every ``__mapping__`` entry has the cardinality / request / reply types the schema
  declares,
* real calls of all four cardinalities go through grpclib's in-memory transport
  (betterproto stub -> betterproto ServiceBase, and grpclib's own client method
  classes -> betterproto ServiceBase) and return the expected messages,
* the rendered service source has the expected text (line multiset digest).

Run as:  PYTHONPATH=<worktree>/src /venv/bin/python equiv.py
"""
import ast
import asyncio
import atexit
import contextlib
import hashlib
import importlib
import io
import itertools
import os
import pathlib
import shutil
import sys
import tempfile
import warnings

import grpc_tools
import grpclib.client
import grpclib.const
from grpc_tools import protoc as _protoc
from grpclib.testing import ChannelFor

import betterproto
import betterproto.plugin.compiler as plugin_compiler

plugin_compiler.subprocess.check_output = lambda cmd, input, encoding: input

from betterproto.lib.google.protobuf import FileDescriptorSet
from betterproto.lib.google.protobuf.compiler import CodeGeneratorRequest
from betterproto.plugin.models import monkey_patch_oneof_index
from betterproto.plugin.parser import generate_code

monkey_patch_oneof_index()

WKT = str(pathlib.Path(grpc_tools.__file__).parent / "_proto")
ROOT = tempfile.mkdtemp(prefix="c18_keep2_")
atexit.register(shutil.rmtree, ROOT, ignore_errors=True)
sys.path.insert(0, ROOT)
_counter = itertools.count()

CONFIGS = [""] + [
    ",".join(opt for opt in (typing_opt, dataclass_opt) if opt)
    for typing_opt in ("typing.direct", "typing.root", "typing.310")
    for dataclass_opt in ("", "pydantic_dataclasses")
]

PROTOS = {
    "svc.proto": """
syntax = "proto3";
package svc;
import "google/protobuf/empty.proto";
import "far/away.proto";
message Req { string q = 1; }
message Rep { string r = 1; }
// A service.
service Alpha {
  // unary
  rpc UU(Req) returns (Rep);
  rpc US(Req) returns (stream Rep) { option deprecated = true; }
  // client streaming
  rpc SU(stream Req) returns (Rep) { option deprecated = true; }
  rpc SS(stream Req) returns (stream Rep);
  rpc EmptyIn(google.protobuf.Empty) returns (stream google.protobuf.Empty);
  rpc EmptyUp(stream google.protobuf.Empty) returns (google.protobuf.Empty);
  rpc FarUU(far.away.Thing) returns (far.away.Thing);
  rpc FarUS(far.away.Thing) returns (stream far.away.Thing);
  rpc FarSU(stream far.away.Thing) returns (far.away.Thing);
  rpc FarSS(stream far.away.Thing) returns (stream far.away.Thing);
}
service Beta { rpc OnlyStream(Req) returns (stream Rep); }
service Gamma { rpc OnlyUp(stream Req) returns (Rep); }
service Delta {}
""",
    "far/away.proto": """
syntax = "proto3";
package far.away;
message Thing { int32 id = 1; }
service Echo {
  rpc Once(Thing) returns (Thing);
  rpc Twice(Thing) returns (stream Thing);
  rpc Sum(stream Thing) returns (Thing);
  rpc Each(stream Thing) returns (stream Thing);
}
""",
}

# service -> python method -> (rpc name, client streaming, server streaming, request, reply)
EXPECTED = {
    "svc": {
        "Alpha": {
            "uu": ("UU", False, False, "Req", "Rep"),
            "us": ("US", False, True, "Req", "Rep"),
            "su": ("SU", True, False, "Req", "Rep"),
            "ss": ("SS", True, True, "Req", "Rep"),
            "empty_in": ("EmptyIn", False, True, "Empty", "Empty"),
            "empty_up": ("EmptyUp", True, False, "Empty", "Empty"),
            "far_uu": ("FarUU", False, False, "Thing", "Thing"),
            "far_us": ("FarUS", False, True, "Thing", "Thing"),
            "far_su": ("FarSU", True, False, "Thing", "Thing"),
            "far_ss": ("FarSS", True, True, "Thing", "Thing"),
        },
        "Beta": {"only_stream": ("OnlyStream", False, True, "Req", "Rep")},
        "Gamma": {"only_up": ("OnlyUp", True, False, "Req", "Rep")},
        "Delta": {},
    },
    "far.away": {
        "Echo": {
            "once": ("Once", False, False, "Thing", "Thing"),
            "twice": ("Twice", False, True, "Thing", "Thing"),
            "sum": ("Sum", True, False, "Thing", "Thing"),
            "each": ("Each", True, True, "Thing", "Thing"),
        },
    },
}
DEPRECATED = {("Alpha", "us"), ("Alpha", "su")}


def descriptor_set(protos):
    src = tempfile.mkdtemp(dir=ROOT)
    for name, text in protos.items():
        path = pathlib.Path(src, name)
        path.parent.mkdir(parents=True, exist_ok=True)
        path.write_text(text)
    out = os.path.join(src, "ds.bin")
    rc = _protoc.main(["protoc", f"-I{src}", f"-I{WKT}", f"--descriptor_set_out={out}",
                       "--include_imports", "--include_source_info", *protos])
    assert rc == 0, "protoc failed"
    with open(out, "rb") as fh:
        return fh.read()


DESCRIPTORS = descriptor_set(PROTOS)


def build(options):
    fds = FileDescriptorSet().parse(DESCRIPTORS)
    request = CodeGeneratorRequest(file_to_generate=list(PROTOS), parameter=options, proto_file=fds.file)
    with contextlib.redirect_stderr(io.StringIO()):
        response = generate_code(request)
    root = f"gen{next(_counter)}"
    sources = {}
    for f in response.file:
        path = pathlib.Path(ROOT, root, f.name)
        path.parent.mkdir(parents=True, exist_ok=True)
        path.write_text(f.content)
        sources[f.name] = f.content
    return root, sources


def cardinality_name(client_streaming, server_streaming):
    return ("STREAM" if client_streaming else "UNARY") + "_" + ("STREAM" if server_streaming else "UNARY")


# --------------------------------------------------------------------------- structure
def check_stub_source(package, source):
    """Every stub method calls the right helper with the right arguments."""
    tree = ast.parse(source)
    classes = {node.name: node for node in tree.body if isinstance(node, ast.ClassDef)}
    for service, methods in EXPECTED[package].items():
        stub = classes[f"{service}Stub"]
        functions = {n.name: n for n in stub.body if isinstance(n, ast.AsyncFunctionDef)}
        assert set(functions) == set(methods), (service, set(functions))
        if not methods:
            assert any(isinstance(n, ast.Pass) for n in stub.body) or ast.get_docstring(stub)
        for py_name, (rpc, cs, ss, _req, _rep) in methods.items():
            fn = functions[py_name]
            body = [n for n in fn.body
                    if not (isinstance(n, ast.Expr) and isinstance(n.value, ast.Constant))]
            if (service, py_name) in DEPRECATED:
                warn = body.pop(0)
                assert ast.unparse(warn) == (
                    f"warnings.warn('{service}.{py_name} is deprecated', DeprecationWarning)"), ast.unparse(warn)
            assert len(body) == 1, (service, py_name, [ast.dump(n) for n in body])
            (stmt,) = body
            if ss:
                assert isinstance(stmt, ast.AsyncFor), (service, py_name)
                assert ast.unparse(stmt.target) == "response"
                assert [ast.unparse(n) for n in stmt.body] == ["yield response"] and not stmt.orelse
                call = stmt.iter
            else:
                assert isinstance(stmt, ast.Return) and isinstance(stmt.value, ast.Await), (service, py_name)
                call = stmt.value.value
            assert isinstance(call, ast.Call)
            helper = "_" + ("stream" if cs else "unary") + "_" + ("stream" if ss else "unary")
            assert ast.unparse(call.func) == f"self.{helper}", (service, py_name, ast.unparse(call.func))
            params = [a.arg for a in fn.args.args]
            assert params[0] == "self" and len(params) == 2
            assert params[1].endswith("_iterator") == cs, (service, py_name, params)
            args = [ast.unparse(a) for a in call.args]
            route = f"/{package}.{service}/{rpc}"
            assert args[0] == repr(route), (args, route)
            assert args[1] == params[1]
            if cs:
                assert len(args) == 4, args  # route, iterator, request type, response type
                annotation = fn.args.args[1].annotation
                assert isinstance(annotation, ast.Constant) and args[2] in annotation.value
            else:
                assert len(args) == 3, args  # route, request, response type
            returns = fn.returns
            assert isinstance(returns, ast.Constant) and args[-1] in returns.value, (args, ast.unparse(returns))
            assert (("AsyncIterator[" in returns.value) == ss), returns.value
            assert [(k.arg, ast.unparse(k.value)) for k in call.keywords] == [
                ("timeout", "timeout"), ("deadline", "deadline"), ("metadata", "metadata")]
            assert [a.arg for a in fn.args.kwonlyargs] == ["timeout", "deadline", "metadata"]


def check_mapping(package, module):
    for service, methods in EXPECTED[package].items():
        base = getattr(module, f"{service}Base")
        mapping = base().__mapping__()
        assert set(mapping) == {f"/{package}.{service}/{rpc}" for rpc, *_ in methods.values()}
        for py_name, (rpc, cs, ss, req, rep) in methods.items():
            handler = mapping[f"/{package}.{service}/{rpc}"]
            assert handler.cardinality is getattr(grpclib.const.Cardinality, cardinality_name(cs, ss)), (rpc, handler)
            assert handler.cardinality.client_streaming == cs and handler.cardinality.server_streaming == ss
            assert handler.request_type.__name__ == req and handler.reply_type.__name__ == rep
            assert issubclass(handler.request_type, betterproto.Message)
            assert handler.func.__name__.endswith(f"__rpc_{py_name}")


# --------------------------------------------------------------------------- behaviour
async def exercise(svc, far, empty_cls):
    Req, Rep, Thing = svc.Req, svc.Rep, far.Thing

    class Alpha(svc.AlphaBase):
        async def uu(self, req):
            return Rep(r="uu:" + req.q)

        async def us(self, req):
            for i in range(3):
                yield Rep(r=f"us{i}:{req.q}")

        async def su(self, req_iterator):
            return Rep(r="su:" + ",".join([r.q async for r in req_iterator]))

        async def ss(self, req_iterator):
            async for r in req_iterator:
                yield Rep(r="ss:" + r.q)
                yield Rep(r="ss:" + r.q.upper())

        async def empty_in(self, empty):
            assert type(empty).__name__ == "Empty"
            yield empty_cls()
            yield empty_cls()

        async def empty_up(self, empty_iterator):
            n = len([e async for e in empty_iterator])
            assert n == 3
            return empty_cls()

        async def far_uu(self, thing):
            return Thing(id=thing.id + 1)

        async def far_us(self, thing):
            for i in range(thing.id):
                yield Thing(id=i)

        async def far_su(self, thing_iterator):
            return Thing(id=sum([t.id async for t in thing_iterator]))

        async def far_ss(self, thing_iterator):
            async for t in thing_iterator:
                yield Thing(id=-t.id)

    class Beta(svc.BetaBase):
        async def only_stream(self, req):
            yield Rep(r=req.q * 2)

    class Gamma(svc.GammaBase):
        async def only_up(self, req_iterator):
            return Rep(r=str(len([r async for r in req_iterator])))

    class Echo(far.EchoBase):
        async def once(self, thing):
            return thing

        async def twice(self, thing):
            yield thing
            yield thing

        async def sum(self, thing_iterator):
            return Thing(id=sum([t.id async for t in thing_iterator]))

        async def each(self, thing_iterator):
            async for t in thing_iterator:
                yield t

    async def agen(items):
        for item in items:
            yield item

    async with ChannelFor([Alpha(), Beta(), Gamma(), Echo(), svc.DeltaBase()]) as channel:
        alpha, beta, gamma = svc.AlphaStub(channel), svc.BetaStub(channel), svc.GammaStub(channel)
        echo = far.EchoStub(channel)
        svc.DeltaStub(channel)

        assert await alpha.uu(Req(q="a")) == Rep(r="uu:a")
        assert await alpha.uu(Req()) == Rep(r="uu:")
        with warnings.catch_warnings(record=True) as caught:
            warnings.simplefilter("always")
            assert [m async for m in alpha.us(Req(q="b"))] == [Rep(r=f"us{i}:b") for i in range(3)]
            assert await alpha.su([Req(q="x"), Req(q="y")]) == Rep(r="su:x,y")
            assert await alpha.su(agen([Req(q="z")])) == Rep(r="su:z")
            assert await alpha.su([]) == Rep(r="su:")
        assert [str(w.message) for w in caught if w.category is DeprecationWarning] == [
            "Alpha.us is deprecated", "Alpha.su is deprecated", "Alpha.su is deprecated", "Alpha.su is deprecated"]
        with warnings.catch_warnings(record=True) as caught:
            warnings.simplefilter("always")
            assert [m.r async for m in alpha.ss([Req(q="p"), Req(q="q")])] == ["ss:p", "ss:P", "ss:q", "ss:Q"]
            assert [m.r async for m in alpha.ss(agen([Req(q="g")]))] == ["ss:g", "ss:G"]
            assert [m async for m in alpha.ss([])] == []
        assert not [w for w in caught if w.category is DeprecationWarning]
        got = [m async for m in alpha.empty_in(empty_cls())]
        assert len(got) == 2 and all(type(m).__name__ == "Empty" and bytes(m) == b"" for m in got)
        assert bytes(await alpha.empty_up([empty_cls()] * 3)) == b""
        assert await alpha.far_uu(Thing(id=41)) == Thing(id=42)
        assert [t.id async for t in alpha.far_us(Thing(id=4))] == [0, 1, 2, 3]
        assert [t async for t in alpha.far_us(Thing())] == []
        assert await alpha.far_su([Thing(id=i) for i in range(10)]) == Thing(id=45)
        assert [t.id async for t in alpha.far_ss(agen([Thing(id=1), Thing(id=2)]))] == [-1, -2]
        assert [m.r async for m in beta.only_stream(Req(q="ab"))] == ["abab"]
        assert await gamma.only_up([Req()] * 5) == Rep(r="5")
        assert await echo.once(Thing(id=7)) == Thing(id=7)
        assert [t.id async for t in echo.twice(Thing(id=7))] == [7, 7]
        assert await echo.sum([Thing(id=1), Thing(id=2)]) == Thing(id=3)
        assert [t.id async for t in echo.each([Thing(id=1), Thing(id=2)])] == [1, 2]

        # grpclib's own client classes against the generated server side
        uu = grpclib.client.UnaryUnaryMethod(channel, "/svc.Alpha/UU", Req, Rep)
        assert await uu(Req(q="raw")) == Rep(r="uu:raw")
        us = grpclib.client.UnaryStreamMethod(channel, "/svc.Alpha/US", Req, Rep)
        assert await us(Req(q="raw")) == [Rep(r=f"us{i}:raw") for i in range(3)]
        su = grpclib.client.StreamUnaryMethod(channel, "/svc.Alpha/SU", Req, Rep)
        assert await su([Req(q="1"), Req(q="2")]) == Rep(r="su:1,2")
        ss = grpclib.client.StreamStreamMethod(channel, "/svc.Alpha/SS", Req, Rep)
        assert await ss([Req(q="k")]) == [Rep(r="ss:k"), Rep(r="ss:K")]
        far_ss = grpclib.client.StreamStreamMethod(channel, "/svc.Alpha/FarSS", Thing, Thing)
        assert await far_ss([Thing(id=3)]) == [Thing(id=-3)]

        # an unimplemented base answers UNIMPLEMENTED for every cardinality
    async with ChannelFor([far.EchoBase()]) as channel:
        echo = far.EchoStub(channel)
        for call in (
            lambda: echo.once(Thing(id=1)),
            lambda: echo.sum([Thing(id=1)]),
        ):
            try:
                await call()
            except grpclib.GRPCError as err:
                assert err.status is grpclib.const.Status.UNIMPLEMENTED
            else:
                raise AssertionError("expected UNIMPLEMENTED")
        for call in (lambda: echo.twice(Thing(id=1)), lambda: echo.each([Thing(id=1)])):
            try:
                [t async for t in call()]
            except grpclib.GRPCError as err:
                assert err.status is grpclib.const.Status.UNIMPLEMENTED
            else:
                raise AssertionError("expected UNIMPLEMENTED")


def service_lines(source):
    """The service part of a generated module as a sorted multiset of lines."""
    start = source.index("class AlphaStub(") if "class AlphaStub(" in source else source.index("class EchoStub(")
    return sorted(source[start:].splitlines())


digests = {}
for options in CONFIGS:
    root, sources = build(options)
    svc = importlib.import_module(f"{root}.svc")
    far = importlib.import_module(f"{root}.far.away")
    for package, module, path in (("svc", svc, "svc/__init__.py"), ("far.away", far, "far/away/__init__.py")):
        check_stub_source(package, sources[path])
        check_mapping(package, module)
        digest = hashlib.sha256("\n".join(service_lines(sources[path])).encode()).hexdigest()
        digests[options, package] = digest
    lib = "betterproto.lib.pydantic.google.protobuf" if "pydantic" in options else "betterproto.lib.google.protobuf"
    empty_cls = importlib.import_module(lib).Empty
    asyncio.run(exercise(svc, far, empty_cls))

# typing.direct is the default; pydantic does not touch the service part except for
# the module the google types come from.
for package in ("svc", "far.away"):
    assert digests["", package] == digests["typing.direct", package]
    for typing_opt in ("typing.direct", "typing.root", "typing.310"):
        if package == "far.away":
            assert digests[typing_opt, package] == digests[typing_opt + ",pydantic_dataclasses", package]

PINNED = {
    # sha256 over the sorted lines of the service part, taken from the reference tree
    ('', 'far.away'): '83850cbdb3b00e99d2c1957da883806b249b563f36d2209c8e74aac2f84c0ac5',
    ('', 'svc'): '1783d380a3eff4034ac875dbcbeeffafa8d8f97369a6a7ae1cea010f5ab28d48',
    ('typing.310', 'far.away'): '2718f80878843a0159ae42bb9c6ba41d3a4c968c42df1b796b242d54fe4b8be9',
    ('typing.310', 'svc'): '14ecf8d65f12860becdfc28cdf3db87607667cde13f837ccb42d13fc2c4aaa2d',
    ('typing.310,pydantic_dataclasses', 'far.away'): '2718f80878843a0159ae42bb9c6ba41d3a4c968c42df1b796b242d54fe4b8be9',
    ('typing.310,pydantic_dataclasses', 'svc'): '874b8b7019adda97368cbcad25b1c6c071eb5ff6618bc2296cec53c497de1f47',
    ('typing.direct', 'far.away'): '83850cbdb3b00e99d2c1957da883806b249b563f36d2209c8e74aac2f84c0ac5',
    ('typing.direct', 'svc'): '1783d380a3eff4034ac875dbcbeeffafa8d8f97369a6a7ae1cea010f5ab28d48',
    ('typing.direct,pydantic_dataclasses', 'far.away'): '83850cbdb3b00e99d2c1957da883806b249b563f36d2209c8e74aac2f84c0ac5',
    ('typing.direct,pydantic_dataclasses', 'svc'): '3e856bd7811baaf04a1716f29873863df11d28587ae22f96e19709ef6c93262a',
    ('typing.root', 'far.away'): 'd271ccc2533b83851491b1f7d5982371766ff74ce4fc186a3269e07a3a85c998',
    ('typing.root', 'svc'): '4e0fbc7f0731f91adf55762ffb92f4fc8c263ad925194fd13f871ae74ff7d928',
    ('typing.root,pydantic_dataclasses', 'far.away'): 'd271ccc2533b83851491b1f7d5982371766ff74ce4fc186a3269e07a3a85c998',
    ('typing.root,pydantic_dataclasses', 'svc'): 'ed8d97219fed3a42d1e07c8662d824a5051c7480e1fc265ceb6168ea1590d99e',
}
for key, digest in digests.items():
    assert PINNED[key] == digest, (key, digest)
print(f"OK: {len(CONFIGS)} configurations, services of every cardinality behave and render as expected")
