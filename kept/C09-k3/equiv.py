"""Equivalence checks for encode_varint / size_varint / dump_varint and everything in
C09 that is built from them (field keys, length prefixes, varint payloads, the
SIZE_DELIMITED prefix).  Compared against an independent reference encoder and against
google.protobuf.  Must pass on the pristine tree and with the refactor applied.
"""
import enum
import random
from dataclasses import dataclass
from io import BytesIO
from typing import Dict, List, Optional

import betterproto
from betterproto import dump_varint, encode_varint, size_varint
from google.protobuf import descriptor_pb2, descriptor_pool, message_factory
from google.protobuf.internal import encoder as pb_encoder

rng = random.Random(0xC09)


# ---------------------------------------------------------------- reference ---
def ref_varint(n: int) -> bytes:
    assert n >= -(1 << 63)
    if n < 0:
        n += 1 << 64
    out = []
    while n > 0x7F:
        out.append((n & 0x7F) | 0x80)
        n >>= 7
    out.append(n)
    return bytes(out)


class ChunkStream:
    def __init__(self):
        self.chunks = []

    def write(self, b):
        self.chunks.append(bytes(b))


def interesting_ints():
    vals = set()
    for k in range(0, 71):
        for d in (-2, -1, 0, 1, 2):
            vals.add((1 << k) + d)
            vals.add(-(1 << k) + d)
    for _ in range(3000):
        bits = rng.randrange(1, 70)
        vals.add(rng.getrandbits(bits))
        vals.add(-rng.getrandbits(bits))
    vals.update(range(-300, 300))
    vals.update(range(16000, 16800))
    return sorted(vals)


# --------------------------------------------------------- varint primitives ---
n_checked = 0
for v in interesting_ints():
    if v < -(1 << 63):
        for fn in (encode_varint, size_varint, lambda x: dump_varint(x, BytesIO())):
            try:
                fn(v)
            except ValueError as e:
                assert "64-bit" in str(e)
            else:
                raise AssertionError(("no ValueError", v))
        continue
    want = ref_varint(v)
    got = encode_varint(v)
    assert type(got) is bytes and got == want, (v, got, want)
    assert size_varint(v) == len(want), (v, size_varint(v), len(want))
    assert type(size_varint(v)) is int
    s = BytesIO()
    dump_varint(v, s)
    assert s.getvalue() == want
    cs = ChunkStream()
    dump_varint(v, cs)
    assert b"".join(cs.chunks) == want
    if v < (1 << 64):
        if v >= 0:
            assert pb_encoder._VarintBytes(v) == want
            assert pb_encoder._VarintSize(v) == len(want)
        if -(1 << 63) <= v < (1 << 63):
            assert pb_encoder._SignedVarintSize(v) == len(want)
    n_checked += 1
assert n_checked > 3000


# bool / IntEnum / betterproto.Enum inputs behave like their int value
class Py(enum.IntEnum):
    Z = 0
    A = 1
    BIG = 300
    NEG = -1


class Colour(betterproto.Enum):
    ZERO = 0
    ONE = 1
    BIG = 70000
    NEG = -5


for v in [True, False, *Py, *Colour]:
    assert encode_varint(v) == ref_varint(int(v))
    assert type(encode_varint(v)) is bytes
    assert size_varint(v) == len(ref_varint(int(v)))

# wrong operand types are rejected the same way as before
for bad in (1.5, "1", None):
    for fn, excs in ((encode_varint, (TypeError,)), (size_varint, (TypeError, AttributeError))):
        try:
            fn(bad)
        except excs:
            pass
        else:
            raise AssertionError((fn, bad))


# ------------------------------------------------------------- message level ---
@dataclass(eq=False, repr=False)
class Sub(betterproto.Message):
    v: int = betterproto.uint64_field(1)
    s: str = betterproto.string_field(2)


@dataclass(eq=False, repr=False)
class M(betterproto.Message):
    i32: int = betterproto.int32_field(1)
    i64: int = betterproto.int64_field(2)
    u32: int = betterproto.uint32_field(3)
    u64: int = betterproto.uint64_field(4)
    s32: int = betterproto.sint32_field(5)
    s64: int = betterproto.sint64_field(6)
    b: bool = betterproto.bool_field(7)
    e: Colour = betterproto.enum_field(8)
    s: str = betterproto.string_field(9)
    by: bytes = betterproto.bytes_field(10)
    r64: List[int] = betterproto.int64_field(11)
    rs64: List[int] = betterproto.sint64_field(12)
    ru32: List[int] = betterproto.uint32_field(13)
    sub: Sub = betterproto.message_field(14)
    subs: List[Sub] = betterproto.message_field(15)
    m: Dict[int, int] = betterproto.map_field(16, betterproto.TYPE_INT64, betterproto.TYPE_UINT64)
    opt: Optional[int] = betterproto.int64_field(20, optional=True)
    one_a: int = betterproto.int32_field(21, group="g")
    one_b: str = betterproto.string_field(22, group="g")
    far: str = betterproto.string_field(2047)
    farther: int = betterproto.int64_field(2048)
    farthest: List[int] = betterproto.int32_field(536870911)


def build_pb_class():
    F = descriptor_pb2.FieldDescriptorProto
    fdp = descriptor_pb2.FileDescriptorProto(name="c09_keep1.proto", package="c09k1", syntax="proto3")
    en = fdp.enum_type.add(name="Colour")
    for name, num in (("ZERO", 0), ("ONE", 1), ("BIG", 70000), ("NEG", -5)):
        en.value.add(name=name, number=num)
    sub = fdp.message_type.add(name="Sub")
    sub.field.add(name="v", number=1, type=F.TYPE_UINT64, label=F.LABEL_OPTIONAL)
    sub.field.add(name="s", number=2, type=F.TYPE_STRING, label=F.LABEL_OPTIONAL)
    m = fdp.message_type.add(name="M")
    entry = m.nested_type.add(name="MEntry")
    entry.options.map_entry = True
    entry.field.add(name="key", number=1, type=F.TYPE_INT64, label=F.LABEL_OPTIONAL)
    entry.field.add(name="value", number=2, type=F.TYPE_UINT64, label=F.LABEL_OPTIONAL)
    O, R = F.LABEL_OPTIONAL, F.LABEL_REPEATED
    m.oneof_decl.add(name="g")
    m.oneof_decl.add(name="_opt")
    spec = [
        ("i32", 1, F.TYPE_INT32, O, None), ("i64", 2, F.TYPE_INT64, O, None),
        ("u32", 3, F.TYPE_UINT32, O, None), ("u64", 4, F.TYPE_UINT64, O, None),
        ("s32", 5, F.TYPE_SINT32, O, None), ("s64", 6, F.TYPE_SINT64, O, None),
        ("b", 7, F.TYPE_BOOL, O, None), ("e", 8, F.TYPE_ENUM, O, ".c09k1.Colour"),
        ("s", 9, F.TYPE_STRING, O, None), ("by", 10, F.TYPE_BYTES, O, None),
        ("r64", 11, F.TYPE_INT64, R, None), ("rs64", 12, F.TYPE_SINT64, R, None),
        ("ru32", 13, F.TYPE_UINT32, R, None),
        ("sub", 14, F.TYPE_MESSAGE, O, ".c09k1.Sub"), ("subs", 15, F.TYPE_MESSAGE, R, ".c09k1.Sub"),
        ("m", 16, F.TYPE_MESSAGE, R, ".c09k1.M.MEntry"),
        ("far", 2047, F.TYPE_STRING, O, None), ("farther", 2048, F.TYPE_INT64, O, None),
        ("farthest", 536870911, F.TYPE_INT32, R, None),
    ]
    for name, num, typ, label, tn in spec:
        f = m.field.add(name=name, number=num, type=typ, label=label)
        if tn:
            f.type_name = tn
    f = m.field.add(name="opt", number=20, type=F.TYPE_INT64, label=O, oneof_index=1, proto3_optional=True)
    m.field.add(name="one_a", number=21, type=F.TYPE_INT32, label=O, oneof_index=0)
    m.field.add(name="one_b", number=22, type=F.TYPE_STRING, label=O, oneof_index=0)
    pool = descriptor_pool.DescriptorPool()
    pool.Add(fdp)
    return message_factory.GetMessageClass(pool.FindMessageTypeByName("c09k1.M"))


PbM = build_pb_class()


def to_pb(kw):
    pb = PbM()
    for k, v in kw.items():
        if k == "sub":
            pb.sub.SetInParent()
            pb.sub.v, pb.sub.s = v.v, v.s
        elif k == "subs":
            for it in v:
                pb.subs.add(v=it.v, s=it.s)
        elif k == "m":
            for kk, vv in v.items():
                pb.m[kk] = vv
        elif isinstance(v, list):
            getattr(pb, k).extend(v)
        else:
            setattr(pb, k, int(v) if k == "e" else v)
    return pb


def check(msg, kw=None, unknown=b""):
    raw = bytes(msg)
    assert type(raw) is bytes
    assert msg.SerializeToString() == raw
    assert len(msg) == len(raw), (len(msg), len(raw), kw)
    s = BytesIO()
    msg.dump(s)
    assert s.getvalue() == raw
    cs = ChunkStream()
    msg.dump(cs)
    assert b"".join(cs.chunks) == raw
    s = BytesIO()
    msg.dump(s, betterproto.SIZE_DELIMITED)
    assert s.getvalue() == ref_varint(len(raw)) + raw
    back = type(msg)().load(BytesIO(s.getvalue()), betterproto.SIZE_DELIMITED)
    assert bytes(back) == raw
    assert len(back) == len(raw)
    if kw is not None:
        pb = to_pb(kw)
        want = pb.SerializeToString(deterministic=True) + unknown
        assert raw == want, (kw, raw, want)
        assert pb.ByteSize() + len(unknown) == len(msg)


I32 = [0, 1, -1, 127, 128, 16383, 16384, 2**21 - 1, 2**21, 2**28 - 1, 2**28, 2**31 - 1, -(2**31), -128, -129]
I64 = I32 + [2**35 - 1, 2**35, 2**42, 2**49 - 1, 2**49, 2**56 - 1, 2**56, 2**62, 2**63 - 1, -(2**63), -(2**62), -(2**56)]
U32 = [v for v in I32 if v >= 0] + [2**32 - 1, 2**31]
U64 = [v for v in I64 if v >= 0] + [2**63, 2**64 - 1]
S32 = I32 + [63, -64, 64, -65, 8191, -8192, 8192, -8193]
S64 = I64 + S32 + [2**62 - 1, -(2**62) - 1]
LENS = [0, 1, 2, 126, 127, 128, 129, 16382, 16383, 16384, 16385]

check(M(), {})
for v in I32:
    check(M(i32=v), {"i32": v})
    check(M(one_a=v), {"one_a": v})
    check(M(farthest=[v, v]), {"farthest": [v, v]})
for v in I64:
    check(M(i64=v), {"i64": v})
    check(M(farther=v), {"farther": v})
    check(M(opt=v), {"opt": v})
    check(M(r64=[v]), {"r64": [v]})
    check(M(m={v: 0}), {"m": {v: 0}})
for v in U32:
    check(M(u32=v), {"u32": v})
    check(M(ru32=[v, 0, v]), {"ru32": [v, 0, v]})
for v in U64:
    check(M(u64=v), {"u64": v})
    check(M(sub=Sub(v=v)), {"sub": Sub(v=v)})
    check(M(m={1: v}), {"m": {1: v}})
for v in S32:
    check(M(s32=v), {"s32": v})
for v in S64:
    check(M(s64=v), {"s64": v})
    check(M(rs64=[v, -v - 1 if v > -(2**63) else 0]), {"rs64": [v, -v - 1 if v > -(2**63) else 0]})
for v in (True, False):
    check(M(b=v), {"b": v})
for v in Colour:
    check(M(e=v), {"e": v})
for n in LENS:
    check(M(s="x" * n), {"s": "x" * n})
    check(M(by=b"\xff" * n), {"by": b"\xff" * n})
    check(M(far="y" * n), {"far": "y" * n})
    check(M(one_b="z" * n), {"one_b": "z" * n})
    check(M(r64=[1] * n), {"r64": [1] * n})
    check(M(r64=[-1] * (n // 10)), {"r64": [-1] * (n // 10)})
    check(M(sub=Sub(s="q" * n)), {"sub": Sub(s="q" * n)})
    check(M(subs=[Sub(s="q" * n), Sub()]), {"subs": [Sub(s="q" * n), Sub()]})

# unknown fields are carried through and counted
for tail in (b"\xf8\x07\x01", b"\xfa\x07\x03abc", b"\xf8\x07" + ref_varint(2**64 - 1)):
    msg = M().parse(bytes(M(i64=-1, s="k" * 127)) + tail)
    assert msg._unknown_fields == tail
    check(msg, {"i64": -1, "s": "k" * 127}, unknown=tail)

# random composite messages
for _ in range(400):
    kw = {}
    if rng.random() < 0.5:
        kw["i32"] = rng.choice(I32)
    if rng.random() < 0.5:
        kw["i64"] = rng.choice(I64)
    if rng.random() < 0.5:
        kw["u64"] = rng.choice(U64)
    if rng.random() < 0.5:
        kw["s64"] = rng.choice(S64)
    if rng.random() < 0.5:
        kw["s"] = "é" * rng.choice([0, 1, 63, 64, 100])
    if rng.random() < 0.5:
        kw["r64"] = [rng.choice(I64) for _ in range(rng.randrange(0, 30))]
    if rng.random() < 0.5:
        kw["ru32"] = [rng.choice(U32) for _ in range(rng.randrange(0, 30))]
    if rng.random() < 0.5:
        kw["subs"] = [Sub(v=rng.choice(U64), s="s" * rng.choice([0, 5, 127])) for _ in range(rng.randrange(0, 4))]
    if rng.random() < 0.5:
        kw["m"] = {rng.choice(I64): rng.choice(U64) for _ in range(rng.randrange(0, 5))}
    if rng.random() < 0.3:
        kw["opt"] = rng.choice(I64)
    if rng.random() < 0.3:
        if rng.random() < 0.5:
            kw["one_a"] = rng.choice(I32)
        else:
            kw["one_b"] = "o" * rng.choice([0, 1, 127, 128])
    if rng.random() < 0.3:
        kw["farthest"] = [rng.choice(I32) for _ in range(rng.randrange(0, 20))]
    if "m" in kw and len(kw["m"]) > 1:
        # map ordering differs between the libraries; check self-consistency only
        check(M(**kw))
    else:
        check(M(**kw), kw)

print("ok")
