"""
C13 equivalence check for plugin.parser.traverse (flattening of nested types: names,
source paths, order) and for the list of files produced by plugin.parser.generate_code
(one module per package plus empty __init__.py files for intermediate directories),
followed by an end-to-end check that generated packages in every relative position
import and resolve their cross-package references to the generated classes.
"""
import atexit
import importlib
import itertools
import os
import shutil
import sys
import tempfile
import typing

import grpc_tools
from grpc_tools import protoc
from google.protobuf import descriptor_pb2
from google.protobuf.compiler import plugin_pb2

import betterproto
import betterproto.lib.google.protobuf as bundled
from betterproto.lib.google.protobuf import (
    DescriptorProto,
    EnumDescriptorProto,
    FileDescriptorProto,
)
from betterproto.lib.google.protobuf.compiler import CodeGeneratorRequest
from betterproto.plugin import compiler as plugin_compiler
from betterproto.plugin.models import monkey_patch_oneof_index
from betterproto.plugin.parser import generate_code, traverse

plugin_compiler.subprocess.check_output = lambda cmd, input, encoding: input
monkey_patch_oneof_index()
WORK = tempfile.mkdtemp(prefix="c13_equiv2_")
atexit.register(shutil.rmtree, WORK, ignore_errors=True)
sys.path.insert(0, WORK)
EMPTY_CWD = os.path.join(WORK, "cwd")
os.makedirs(EMPTY_CWD)
os.chdir(EMPTY_CWD)  # generate_code looks for existing __init__.py files below the cwd
_counter = [0]


def descriptor_set(protos, source_info=True):
    _counter[0] += 1
    src = os.path.join(WORK, f"src{_counter[0]}")
    os.makedirs(src)
    for name, text in protos.items():
        with open(os.path.join(src, name), "w") as fh:
            fh.write(text)
    ds = os.path.join(src, "set.bin")
    wkt = os.path.join(os.path.dirname(grpc_tools.__file__), "_proto")
    args = ["protoc", f"-I{src}", f"-I{wkt}", f"--descriptor_set_out={ds}", "--include_imports"]
    if source_info:
        args.append("--include_source_info")
    assert protoc.main(args + sorted(protos)) == 0
    fds = descriptor_pb2.FileDescriptorSet()
    with open(ds, "rb") as fh:
        fds.ParseFromString(fh.read())
    return fds


def run_plugin(protos, parameter=""):
    fds = descriptor_set(protos)
    req = plugin_pb2.CodeGeneratorRequest(
        file_to_generate=sorted(protos), parameter=parameter, proto_file=fds.file)
    stderr, sys.stderr = sys.stderr, open(os.devnull, "w")
    try:
        return generate_code(CodeGeneratorRequest().parse(req.SerializeToString()))
    finally:
        sys.stderr = stderr


# ----------------------------------------------------------------- part 1: traverse
NESTED = """
syntax = "proto3";
package deep.pkg;
// comment of TopEnum
enum TopEnum { T0 = 0; }
message Empty {}
// comment of A
message A {
  int32 f = 1;
  // comment of A.B
  message B {
    // comment of A.B.C
    message C { enum CE { CE0 = 0; } message D { message E { enum Leaf { L0 = 0; } } } }
    enum BE { BE0 = 0; }
    enum BE2 { BE20 = 0; }
    message C2 {}
    map<string, C> by_name = 1;
  }
  // comment of A.AE
  enum AE { AE0 = 0; }
  message B2 { message lower_case { enum inner_enum { IE0 = 0; } } }
  B b = 2;
  map<int32, B2> m = 3;
}
enum SecondEnum { S0 = 0; }
message Z { message Z { message Z { enum Z { Z0 = 0; } } } }
"""


def expected_walk(file_pb):
    """Independent model on the google.protobuf descriptor: (flat name, path, kind)."""
    out = []

    def walk_enum(e, chain, path):
        out.append(("_" + "_".join(chain + [e.name]), path, "enum"))

    def walk_msg(m, chain, path):
        out.append(("_" + "_".join(chain + [m.name]), path, "message"))
        for k, e in enumerate(m.enum_type):
            walk_enum(e, chain + [m.name], path + [4, k])
        for k, n in enumerate(m.nested_type):
            walk_msg(n, chain + [m.name], path + [3, k])

    for i, e in enumerate(file_pb.enum_type):
        walk_enum(e, [], [5, i])
    for i, m in enumerate(file_pb.message_type):
        walk_msg(m, [], [4, i])
    return out


def locate(file_pb, path):
    """Follow a source-info path in the google.protobuf descriptor."""
    node = file_pb
    it = iter(path)
    for number in it:
        index = next(it)
        field = node.DESCRIPTOR.fields_by_number[number]
        node = getattr(node, field.name)[index]
    return node


def check_traverse(text):
    fds = descriptor_set({"n.proto": text})
    file_pb = [f for f in fds.file if f.name == "n.proto"][0]
    bp_file = FileDescriptorProto().parse(file_pb.SerializeToString())
    got = list(traverse(bp_file))
    want = expected_walk(file_pb)
    assert len(got) == len(want), (len(got), len(want))
    seen_paths = set()
    for (item, path), (name, exp_path, kind) in zip(got, want):
        assert item.name == name, (item.name, name)
        assert path == exp_path and isinstance(path, list), (path, exp_path)
        assert isinstance(item, DescriptorProto if kind == "message" else EnumDescriptorProto)
        node = locate(file_pb, path)
        assert name.endswith("_" + node.name), (name, node.name)
        assert tuple(path) not in seen_paths
        seen_paths.add(tuple(path))
        path.append(99)  # the yielded list belongs to the consumer
    # all flat names are distinct and the descriptor objects were renamed in place
    assert len({n for n, _, _ in want}) == len(want)
    assert [m.name for m in bp_file.message_type] == [
        "_" + m.name for m in file_pb.message_type
    ]
    return len(got)


n = check_traverse(NESTED)
assert n == 23, n  # includes the two synthetic map entry messages
# consuming the generator lazily (as generate_code does) while renaming happens
fds = descriptor_set({"n.proto": NESTED})
bp_file = FileDescriptorProto().parse(
    [f for f in fds.file if f.name == "n.proto"][0].SerializeToString())
gen = traverse(bp_file)
first, first_path = next(gen)
assert (first.name, first_path) == ("_TopEnum", [5, 0])
assert bp_file.message_type[1].name == "A"  # not renamed before it is reached
names = [first.name] + [item.name for item, _ in gen]
assert names[:6] == ["_TopEnum", "_SecondEnum", "_Empty", "_A", "_A_AE", "_A_B"], names
assert "_A_B_C_D_E_Leaf" in names and "_Z_Z_Z_Z" in names and "_A_B2_lower_case_inner_enum" in names
# random shapes
import random
rng = random.Random(13)


def random_message(name, depth):
    body = []
    for k in range(rng.randint(0, 2)):
        body.append(f"enum {name}E{k} {{ {name.upper()}E{k}_{depth}_0 = 0; }}")
    if depth < 4:
        for k in range(rng.randint(0, 3)):
            body.append(random_message(f"{name}M{k}", depth + 1))
    return f"message {name} {{ {' '.join(body)} }}"


total = 0
for trial in range(40):
    parts = ['syntax = "proto3";', "package r.x;"]
    for k in range(rng.randint(0, 3)):
        parts.append(random_message(f"T{k}", 0))
        if rng.random() < 0.5:
            parts.append(f"enum TopE{k} {{ TOPE{k}_0 = 0; }}")
    total += check_traverse("\n".join(parts))
print(f"part 1: traverse verified on nested example and 40 random files ({total} items)")

# ------------------------------------------------- part 2: files of the response
def types_proto(index, pkg):
    lines = ['syntax = "proto3";']
    if pkg:
        lines.append(f"package {'.'.join(pkg)};")
    lines.append(f"// doc of T{index}\nmessage T{index} {{ int32 x = 1; \n// doc of Inner{index}\n"
                 f"message Inner {{ int32 y = 1; \n// doc of Deep{index}\nenum Deep {{ D0 = 0; D1 = 1; }} }} }}")
    lines.append(f"enum E{index} {{ Z{index} = 0; O{index} = 1; }}")
    return "\n".join(lines)


def users_proto(index, pkg, others):
    lines = ['syntax = "proto3";']
    if pkg:
        lines.append(f"package {'.'.join(pkg)};")
    lines += [f'import "t{j}.proto";' for j, _ in others]
    lines.append('import "google/protobuf/any.proto";')
    lines.append(f"message User{index} {{")
    n = 1
    for j, other in others:
        q = "." + ".".join(other + [""]) if other else "."
        lines.append(f"  {q}T{j} m{j} = {n};")
        lines.append(f"  repeated {q}T{j}.Inner r{j} = {n + 1};")
        lines.append(f"  map<int32, {q}T{j}.Inner> d{j} = {n + 2};")
        lines.append(f"  {q}E{j} e{j} = {n + 3};")
        lines.append(f"  {q}T{j}.Inner.Deep n{j} = {n + 4};")
        lines.append(f"  oneof o{j} {{ {q}T{j} oa{j} = {n + 5}; {q}E{j} ob{j} = {n + 6}; }}")
        n += 7
    lines.append(f"  google.protobuf.Any any = {n};")
    lines.append("}")
    lines.append(f"service S{index} {{")
    for j, other in others:
        q = "." + ".".join(other + [""]) if other else "."
        lines.append(f"  rpc C{j} ({q}T{j}) returns ({q}T{j}.Inner);")
        lines.append(f"  rpc W{j} (stream {q}T{j}.Inner) returns (stream {q}T{j});")
    lines.append("}")
    return "\n".join(lines)


def protos_for(packages):
    files = {}
    for i, p in packages:
        files[f"t{i}.proto"] = types_proto(i, p)
        files[f"u{i}.proto"] = users_proto(i, p, [(j, q) for j, q in packages if j != i])
    return files


def expected_files(packages):
    modules = {"/".join(p + ["__init__.py"]) for p in packages}
    inits = set()
    for p in packages:
        for k in range(len(p)):
            inits.add("/".join(p[:k] + ["__init__.py"]))
    return modules, inits - modules


def check_response(response, packages, existing=()):
    names = [f.name for f in response.file]
    assert len(names) == len(set(names)), f"duplicate file in response: {names}"
    modules, inits = expected_files(packages)
    inits -= set(existing)
    assert set(names) == modules | inits, (sorted(names), sorted(modules | inits))
    for f in response.file:
        if f.name in modules:
            assert "import betterproto" in f.content, f.name
        else:
            assert f.content == "", f.name
    # modules come first (in package order of the request), __init__ files afterwards
    assert set(names[: len(modules)]) == modules


ALPHABET = ["a", "b"]
PATHS = [[]]
for depth in (1, 2, 3):
    PATHS += [list(p) for p in itertools.product(ALPHABET, repeat=depth)]
responses = 0
for p, q in itertools.combinations(PATHS, 2):
    packages = [(0, p), (1, q)]
    check_response(run_plugin(protos_for(packages)), [p, q])
    responses += 1
for p in PATHS:
    check_response(run_plugin({"t0.proto": types_proto(0, p)}), [p])
    responses += 1
check_response(run_plugin(protos_for(list(enumerate(PATHS)))), PATHS)
# the google.protobuf package itself is not part of the output (unless asked for)
r = run_plugin({"t0.proto": types_proto(0, ["a"]), "u0.proto": users_proto(0, ["a"], [])})
assert not [f.name for f in r.file if f.name.startswith("google")]
# __init__.py files that already exist below the cwd are not emitted again
os.makedirs(os.path.join(EMPTY_CWD, "a", "b"))
open(os.path.join(EMPTY_CWD, "a", "__init__.py"), "w").close()
check_response(run_plugin({"t0.proto": types_proto(0, ["a", "b", "a"])}),
               [["a", "b", "a"]], existing=["a/__init__.py"])
check_response(run_plugin(protos_for([(0, ["a"]), (1, ["a", "b"])])), [["a"], ["a", "b"]])
open(os.path.join(EMPTY_CWD, "a", "b", "__init__.py"), "w").close()
open(os.path.join(EMPTY_CWD, "__init__.py"), "w").close()
check_response(run_plugin({"t0.proto": types_proto(0, ["a", "b", "a"])}),
               [["a", "b", "a"]],
               existing=["a/__init__.py", "a/b/__init__.py", "__init__.py"])
check_response(run_plugin(protos_for([(0, []), (1, ["a", "b"])])), [[], ["a", "b"]],
               existing=["a/__init__.py"])
shutil.rmtree(os.path.join(EMPTY_CWD, "a"))
os.remove(os.path.join(EMPTY_CWD, "__init__.py"))
print(f"part 2: file lists of {responses} + 6 responses verified")

# ---------------------------------------------------------- part 3: end to end
def write(response):
    _counter[0] += 1
    root = f"c13eqb{_counter[0]}"
    for f in response.file:
        path = os.path.join(WORK, root, f.name)
        os.makedirs(os.path.dirname(path), exist_ok=True)
        with open(path, "w") as fh:
            fh.write(f.content)
    return root


def mod(root, pkg):
    return importlib.import_module(root + ("." + ".".join(pkg) if pkg else ""))


def verify(root, index, pkg, others):
    um = mod(root, pkg)
    U = getattr(um, f"User{index}")
    h = typing.get_type_hints(U, vars(um), {})
    base = getattr(um, f"S{index}Base")().__mapping__()
    prefix = "/" + ".".join(pkg + [f"S{index}"]) + "/"
    kwargs = {}
    for j, other in others:
        tm = mod(root, other)
        T, I, E, D = (getattr(tm, f"T{j}"), getattr(tm, f"T{j}Inner"),
                      getattr(tm, f"E{j}"), getattr(tm, f"T{j}InnerDeep"))
        # classes exist under the flattened names, with the comments of their source path
        assert (T.__doc__ or "").strip() == f"doc of T{j}", T.__doc__
        assert (I.__doc__ or "").strip() == f"doc of Inner{j}", I.__doc__
        assert (D.__doc__ or "").strip() == f"doc of Deep{j}", D.__doc__
        assert h[f"m{j}"] is T and h[f"oa{j}"] is T
        assert typing.get_args(h[f"r{j}"]) == (I,) and typing.get_args(h[f"d{j}"]) == (int, I)
        assert h[f"e{j}"] is E and h[f"ob{j}"] is E and h[f"n{j}"] is D
        c, w = base[prefix + f"C{j}"], base[prefix + f"W{j}"]
        assert (c.request_type, c.reply_type) == (T, I)
        assert (w.request_type, w.reply_type) == (I, T)
        kwargs.update({f"m{j}": T(x=j + 1), f"r{j}": [I(y=5)], f"d{j}": {3: I(y=6)},
                       f"e{j}": E(1), f"n{j}": D.D1, f"oa{j}": T(x=8)})
    assert h["any"] is bundled.Any
    msg = U(**kwargs)
    back = U().parse(bytes(msg))
    assert back == msg
    for j, other in others:
        tm = mod(root, other)
        assert type(getattr(back, f"m{j}")) is getattr(tm, f"T{j}")
        assert type(getattr(back, f"d{j}")[3]) is getattr(tm, f"T{j}Inner")
        assert getattr(back, f"n{j}") is getattr(tm, f"T{j}InnerDeep").D1


pairs = 0
for i, p in enumerate(PATHS):
    for j, q in enumerate(PATHS):
        if i == j:
            continue
        root = write(run_plugin(protos_for([(0, p), (1, q)])))
        order = [(0, p, [(1, q)]), (1, q, [(0, p)])]
        for args in (order if (i + j) % 2 else reversed(order)):
            verify(root, *args)
        pairs += 1
everything = list(enumerate(PATHS))
root = write(run_plugin(protos_for(everything)))
for i, p in everything:
    verify(root, i, p, [(j, q) for j, q in everything if j != i])
print(f"part 3: {pairs} ordered package pairs and all {len(PATHS)} packages at once verified")
print("OK")
