"""C01 keep2: presence / oneof bookkeeping in Message.__post_init__ and __setattr__.

Checks _group_current, which_one_of, serialized_on_wire, sibling clearing and the
binary round trip after construction, after arbitrary assignment sequences and
after parsing - against an explicit model of the rules and against
google.protobuf (WhichOneof, HasField, SerializeToString).
"""
import itertools
import random
from dataclasses import dataclass
from typing import List, Optional

import betterproto
from betterproto import PLACEHOLDER
from google.protobuf import descriptor_pb2, descriptor_pool, message_factory

rnd = random.Random(77001)


class Color(betterproto.Enum):
    ZERO = 0
    RED = 1
    NEG = -3


@dataclass(eq=False, repr=False)
class Child(betterproto.Message):
    x: int = betterproto.int32_field(1)


@dataclass(eq=False, repr=False)
class Empty(betterproto.Message):
    pass


@dataclass(eq=False, repr=False)
class M(betterproto.Message):
    plain: int = betterproto.int32_field(1)
    a: int = betterproto.int32_field(2, group="g1")
    b: str = betterproto.string_field(3, group="g1")
    c: bytes = betterproto.bytes_field(4, group="g1")
    d: bool = betterproto.bool_field(5, group="g1")
    e: Child = betterproto.message_field(6, group="g1")
    f: Color = betterproto.enum_field(7, group="g1")
    h: int = betterproto.sint64_field(8, group="g2")
    i: float = betterproto.double_field(9, group="g2")
    oa: Optional[int] = betterproto.int32_field(10, optional=True)
    ob: Optional[str] = betterproto.string_field(11, optional=True)
    oc: Optional[Child] = betterproto.message_field(12, optional=True)
    r: List[int] = betterproto.int32_field(13)
    child: Child = betterproto.message_field(14)
    j: Empty = betterproto.message_field(15, group="g2")


GROUPS = {"g1": ["a", "b", "c", "d", "e", "f"], "g2": ["h", "i", "j"]}
GROUP_OF = {name: g for g, names in GROUPS.items() for name in names}
OPTIONAL = ["oa", "ob", "oc"]
ALL = ["plain", "a", "b", "c", "d", "e", "f", "h", "i", "oa", "ob", "oc", "r", "child", "j"]

POOL = {
    "plain": [0, 1, -1, 2**31 - 1],
    "a": [0, 5, -(2**31), 2**31 - 1],
    "b": ["", "x", "\U0001f600"],
    "c": [b"", b"\x00", b"abc"],
    "d": [False, True],
    "e": [lambda: Child(), lambda: Child(x=0), lambda: Child(x=9)],
    "f": [Color.ZERO, Color.RED, Color.NEG, Color.try_value(42)],
    "h": [0, -1, 2**63 - 1, -(2**63)],
    "i": [0.0, 1.5, float("inf"), -2.25],
    "oa": [0, 3, -7],
    "ob": ["", "opt"],
    "oc": [lambda: Child(), lambda: Child(x=4)],
    "r": [lambda: [], lambda: [0], lambda: [1, -1, 2**31 - 1]],
    "child": [lambda: Child(), lambda: Child(x=2)],
    "j": [lambda: Empty()],
}


def draw(name):
    v = rnd.choice(POOL[name])
    return v() if callable(v) else v


# ------------------------------------------------------------ google schema
FD = descriptor_pb2.FieldDescriptorProto
fdp = descriptor_pb2.FileDescriptorProto(name="c01_keep2.proto", package="c01k2", syntax="proto3")
en = fdp.enum_type.add(name="Color")
en.value.add(name="ZERO", number=0)
en.value.add(name="RED", number=1)
en.value.add(name="NEG", number=-3)
ch = fdp.message_type.add(name="Child")
ch.field.add(name="x", number=1, type=FD.TYPE_INT32, label=FD.LABEL_OPTIONAL)
fdp.message_type.add(name="Empty")
mm = fdp.message_type.add(name="M")
for decl in ("g1", "g2", "_oa", "_ob", "_oc"):
    mm.oneof_decl.add(name=decl)
SPEC = [
    ("plain", 1, FD.TYPE_INT32, None, None), ("a", 2, FD.TYPE_INT32, None, 0),
    ("b", 3, FD.TYPE_STRING, None, 0), ("c", 4, FD.TYPE_BYTES, None, 0),
    ("d", 5, FD.TYPE_BOOL, None, 0), ("e", 6, FD.TYPE_MESSAGE, ".c01k2.Child", 0),
    ("f", 7, FD.TYPE_ENUM, ".c01k2.Color", 0), ("h", 8, FD.TYPE_SINT64, None, 1),
    ("i", 9, FD.TYPE_DOUBLE, None, 1), ("oa", 10, FD.TYPE_INT32, None, 2),
    ("ob", 11, FD.TYPE_STRING, None, 3), ("oc", 12, FD.TYPE_MESSAGE, ".c01k2.Child", 4),
    ("r", 13, FD.TYPE_INT32, None, None), ("child", 14, FD.TYPE_MESSAGE, ".c01k2.Child", None),
    ("j", 15, FD.TYPE_MESSAGE, ".c01k2.Empty", 1),
]
for name, number, typ, type_name, oneof in SPEC:
    fld = mm.field.add(name=name, number=number, type=typ,
                       label=FD.LABEL_REPEATED if name == "r" else FD.LABEL_OPTIONAL)
    if type_name:
        fld.type_name = type_name
    if oneof is not None:
        fld.oneof_index = oneof
        if oneof >= 2:
            fld.proto3_optional = True
pool = descriptor_pool.Default()
pool.Add(fdp)
GM = message_factory.GetMessageClass(pool.FindMessageTypeByName("c01k2.M"))
GChild = message_factory.GetMessageClass(pool.FindMessageTypeByName("c01k2.Child"))


def g_assign(g, name, value):
    """Mirror `m.<name> = value` on the google message."""
    if value is None:
        g.ClearField(name)
    elif name in ("e", "oc", "child"):
        getattr(g, name).CopyFrom(GChild(x=value.x))
        getattr(g, name).SetInParent()
    elif name == "j":
        g.j.SetInParent()
    elif name == "r":
        del g.r[:]
        g.r.extend(value)
    else:
        setattr(g, name, int(value) if name == "f" else value)


# ------------------------------------------------------------------- model
class Model:
    """The documented rules, written down independently of the library."""

    def __init__(self, kwargs):
        self.selected = {"g1": None, "g2": None}
        given = False
        for name in ALL:  # declaration order, not keyword order
            if name not in kwargs:
                continue
            value = kwargs[name]
            if value is PLACEHOLDER or (name in OPTIONAL and value is None):
                continue
            given = True
            if name in GROUP_OF:
                self.selected[GROUP_OF[name]] = name
        self.on_wire = given

    def assign(self, name):
        self.on_wire = True
        if name in GROUP_OF:
            self.selected[GROUP_OF[name]] = name


def raw(m, name):
    return object.__getattribute__(m, name)


def check_state(m: M, model: Model, cleared_siblings: bool) -> None:
    gc = m._group_current
    assert type(gc) is dict and list(gc) == ["g1", "g2"], gc
    assert gc == model.selected, (gc, model.selected)
    assert betterproto.serialized_on_wire(m) is model.on_wire
    for group, names in GROUPS.items():
        which, value = betterproto.which_one_of(m, group)
        assert which == (model.selected[group] or "")
        if not which:
            assert value is None
        for name in names:
            if name == model.selected[group]:
                got = getattr(m, name)
                assert got is value or got == value
                assert m.is_set(name) or raw(m, name) is PLACEHOLDER or got is None
            else:
                try:
                    getattr(m, name)
                except AttributeError as exc:
                    assert group in str(exc)
                else:
                    raise AssertionError(f"{name} readable although not selected")
                assert not m.is_set(name)
                if cleared_siblings:
                    assert raw(m, name) is PLACEHOLDER, name


def hidden_losers(m: M) -> bool:
    """Whether m (built with several members of one group) still stores a raw value
    for a member that is not selected; == looks at raw values, so such a message
    (which no .proto API can produce) need not equal its decoded form."""
    return any(
        raw(m, n) is not PLACEHOLDER and m._group_current[g] != n
        for g, names in GROUPS.items()
        for n in names
    )


def check_round_trip(m: M, g=None) -> None:
    data = bytes(m)
    assert len(m) == len(data)
    back = M().parse(data)
    if not hidden_losers(m):
        assert back == m, (m, back)
    assert not hidden_losers(back)
    assert M().parse(bytes(back)) == back
    assert bytes(back) == data
    assert back._group_current == m._group_current
    assert list(back._group_current) == ["g1", "g2"]
    for group in GROUPS:
        assert betterproto.which_one_of(back, group)[0] == betterproto.which_one_of(m, group)[0]
    for name in OPTIONAL:
        assert (getattr(back, name) is None) == (getattr(m, name) is None)
    assert betterproto.serialized_on_wire(back.child) == betterproto.serialized_on_wire(m.child)
    if g is not None:
        assert g.SerializeToString(deterministic=True) == data, (m, data, g.SerializeToString())
        for group in GROUPS:
            assert (g.WhichOneof(group) or "") == betterproto.which_one_of(m, group)[0]
        g2 = GM.FromString(data)
        for group in GROUPS:
            assert (g2.WhichOneof(group) or "") == betterproto.which_one_of(back, group)[0]
        for name in OPTIONAL:
            assert g2.HasField(name) == (getattr(back, name) is not None)


# ------------------------------------------------------------ construction
# nothing given
m = M()
check_state(m, Model({}), cleared_siblings=True)
assert bytes(m) == b"" and not betterproto.serialized_on_wire(m)
assert m._unknown_fields == b""
check_round_trip(m, GM())

# one field given: every field, every pool value
for name in ALL:
    for pv in POOL[name]:
        value = pv() if callable(pv) else pv
        m = M(**{name: value})
        check_state(m, Model({name: value}), cleared_siblings=True)
        g = GM()
        g_assign(g, name, value)
        # a default-constructed child that is merely passed in is not "present"
        if name in ("child",) and not betterproto.serialized_on_wire(value):
            g.ClearField(name)
        check_round_trip(m, g)

# sentinels passed explicitly are "not given"
for name in OPTIONAL:
    m = M(**{name: None})
    check_state(m, Model({name: None}), True)
    assert not betterproto.serialized_on_wire(m) and bytes(m) == b""
for name in ALL:
    m = M(**{name: PLACEHOLDER})
    check_state(m, Model({name: PLACEHOLDER}), True)
    assert not betterproto.serialized_on_wire(m) and bytes(m) == b""
# None for a non-optional oneof member selects it (it is not the sentinel)
m = M(a=None)
check_state(m, Model({"a": None}), True)
assert betterproto.which_one_of(m, "g1") == ("a", None) and bytes(m) == b""

# several members of one group given: the last in declaration order wins,
# whatever the keyword order; the losers keep their raw value but are hidden
for names in itertools.chain(
    itertools.permutations(GROUPS["g1"], 2),
    itertools.permutations(GROUPS["g2"], 2),
    itertools.permutations(GROUPS["g1"], 3),
    [tuple(GROUPS["g1"]), tuple(reversed(GROUPS["g1"])), ("i", "a", "h", "f", "j")],
):
    kwargs = {n: draw(n) for n in names}
    m = M(**kwargs)
    model = Model(kwargs)
    check_state(m, model, cleared_siblings=False)
    for n in names:
        if n != model.selected[GROUP_OF[n]]:
            assert raw(m, n) is kwargs[n]
    # only the winner is on the wire
    winners = {model.selected[g] for g in GROUPS} - {None}
    g = GM()
    for n in winners:
        g_assign(g, n, kwargs[n])
    check_round_trip(m, g)

# random keyword sets over all fields
for _ in range(1500):
    names = rnd.sample(ALL, rnd.randrange(0, len(ALL) + 1))
    kwargs = {}
    for n in names:
        roll = rnd.random()
        if roll < 0.1:
            kwargs[n] = PLACEHOLDER
        elif roll < 0.2 and n in OPTIONAL:
            kwargs[n] = None
        else:
            kwargs[n] = draw(n)
    m = M(**kwargs)
    model = Model(kwargs)
    check_state(m, model, cleared_siblings=False)
    check_round_trip(m)


# --------------------------------------------------------------- assignment
def run_sequence(steps):
    m, g, model = M(), GM(), Model({})
    for name, value in steps:
        setattr(m, name, value)
        g_assign(g, name, value)
        model.assign(name)
        check_state(m, model, cleared_siblings=True)
    check_round_trip(m, g)
    return m


# every ordered pair / triple inside a group, incl. re-selecting the same member
for group, names in GROUPS.items():
    for seq in itertools.chain(itertools.product(names, repeat=2), itertools.permutations(names, 3)):
        run_sequence([(n, draw(n)) for n in seq])

# assigning a default value still selects and still clears the siblings
m = run_sequence([("b", "text"), ("a", 0)])
assert bytes(m) == b"\x10\x00" and raw(m, "b") is PLACEHOLDER
m = run_sequence([("a", 7), ("b", "")])
assert bytes(m) == b"\x1a\x00" and raw(m, "a") is PLACEHOLDER
m = run_sequence([("a", 7), ("c", b"")])
assert bytes(m) == b"\x22\x00"
m = run_sequence([("a", 7), ("e", Child())])
assert bytes(m) == b"\x32\x00"
m = run_sequence([("i", 1.0), ("j", Empty())])
assert bytes(m) == b"\x7a\x00" and betterproto.serialized_on_wire(m.j)
m = run_sequence([("h", -1), ("i", 0.0)])
assert bytes(m) == b"\x49" + b"\x00" * 8
# the groups are independent of each other and of plain / optional fields
m = run_sequence([("a", 1), ("h", 2), ("plain", 3), ("oa", 0), ("b", "z"), ("oa", None)])
assert m._group_current == {"g1": "b", "g2": "h"} and m.oa is None

# assignment after a multi-member construction clears every sibling
m = M(a=1, b="x", c=b"y")
m.d = True
assert m._group_current == {"g1": "d", "g2": None}
assert all(raw(m, n) is PLACEHOLDER for n in "abcef") and raw(m, "d") is True
check_round_trip(m)

# _serialized_on_wire: set by any assignment but its own
m = M()
m._serialized_on_wire = False
assert betterproto.serialized_on_wire(m) is False
m._unknown_fields = b""
assert betterproto.serialized_on_wire(m) is True
m = M()
m.oa = None
assert betterproto.serialized_on_wire(m) is True and m._group_current == {"g1": None, "g2": None}
# assigning a message of a field-less class marks that child as set
child = Empty()
assert not betterproto.serialized_on_wire(child)
m = M()
m.j = child
assert betterproto.serialized_on_wire(child)
# attributes that are not fields do not touch the groups
m = M(a=1)
m.scratch = 5
assert m._group_current == {"g1": "a", "g2": None} and m.a == 1

# random assignment sequences mirrored on google.protobuf
for _ in range(1200):
    steps = []
    for _ in range(rnd.randrange(1, 12)):
        name = rnd.choice(ALL)
        if name in OPTIONAL and rnd.random() < 0.25:
            steps.append((name, None))
        else:
            steps.append((name, draw(name)))
    # google has no way to say "child assigned but default" vs. "not present" other
    # than SetInParent, which g_assign always does - do the same on our side
    fixed = []
    for name, value in steps:
        if isinstance(value, betterproto.Message) and not betterproto.serialized_on_wire(value):
            value._serialized_on_wire = True
        fixed.append((name, value))
    run_sequence(fixed)

# ------------------------------------------------------------------ parsing
# several members of one group on the wire: the last one wins, as in google
PIECES = {
    "a": [b"\x10\x00", b"\x10\x05"], "b": [b"\x1a\x00", b"\x1a\x01x"],
    "c": [b"\x22\x00", b"\x22\x02ab"], "d": [b"\x28\x00", b"\x28\x01"],
    "e": [b"\x32\x00", b"\x32\x02\x08\x09"], "f": [b"\x38\x00", b"\x38\x01"],
    "h": [b"\x40\x00", b"\x40\x01"], "i": [b"\x49" + b"\x00" * 8, b"\x49" + b"\x00" * 6 + b"\xf0\x3f"],
    "j": [b"\x7a\x00"],
    "plain": [b"\x08\x01"], "oa": [b"\x50\x00", b"\x50\x03"], "ob": [b"\x5a\x00"],
}
for _ in range(1500):
    names = [rnd.choice(list(PIECES)) for _ in range(rnd.randrange(1, 7))]
    data = b"".join(rnd.choice(PIECES[n]) for n in names)
    m = M().parse(data)
    g = GM.FromString(data)
    expected = {"g1": None, "g2": None}
    for n in names:
        if n in GROUP_OF:
            expected[GROUP_OF[n]] = n
    assert m._group_current == expected and list(m._group_current) == ["g1", "g2"]
    for group in GROUPS:
        assert (g.WhichOneof(group) or "") == (expected[group] or "")
        for n in GROUPS[group]:
            if n != expected[group]:
                assert raw(m, n) is PLACEHOLDER
    assert (m.oa is not None) == g.HasField("oa") and (m.ob is not None) == g.HasField("ob")
    assert betterproto.serialized_on_wire(m)
    # and what was decoded round-trips
    again = M().parse(bytes(m))
    assert again == m and again._group_current == m._group_current and bytes(again) == bytes(m)

# copies keep the selection
import copy  # noqa: E402

m = M(a=0, i=0.0, oa=0)
for dup in (copy.copy(m), copy.deepcopy(m)):
    assert dup._group_current == {"g1": "a", "g2": "i"} and dup == m and bytes(dup) == bytes(m)

print("ok")
