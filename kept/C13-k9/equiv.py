"""Shared harness: build descriptor requests for arbitrary package topologies, run the
betterproto plugin in-process, write the generated packages to a temp dir, import them."""
import asyncio
import importlib
import itertools
import os
import shutil
import sys
import tempfile
import typing

import betterproto
from betterproto.lib.google.protobuf import (
    DescriptorProto,
    EnumDescriptorProto,
    EnumValueDescriptorProto,
    FieldDescriptorProto,
    FieldDescriptorProtoLabel as L,
    FieldDescriptorProtoType as T,
    FileDescriptorProto,
    MessageOptions,
    MethodDescriptorProto,
    OneofDescriptorProto,
    ServiceDescriptorProto,
)
from betterproto.lib.google.protobuf.compiler import CodeGeneratorRequest
from betterproto.plugin import compiler as plugin_compiler
from betterproto.plugin.models import monkey_patch_oneof_index

plugin_compiler.subprocess.check_output = lambda cmd, input, encoding: input
monkey_patch_oneof_index()
from betterproto.plugin.parser import generate_code  # noqa: E402

KINDS = {
    # kind -> (proto type suffix, generated class name, is_enum)
    "msg": ("Target", "Target", False),
    "nested": ("Outer.Inner", "OuterInner", False),
    "enum": ("Color", "Color", True),
    "nenum": ("Outer.Kind", "OuterKind", True),
}


def fq(pkg, suffix):
    return f".{pkg}.{suffix}" if pkg else f".{suffix}"


def enum_proto(name):
    return EnumDescriptorProto(
        name=name,
        value=[
            EnumValueDescriptorProto(name="ZERO", number=0),
            EnumValueDescriptorProto(name="ONE", number=1),
        ],
    )


def field(name, number, type_, type_name="", label=L.LABEL_OPTIONAL, oneof=None, optional=False):
    kw = dict(name=name, number=number, type=type_, label=label, json_name=name)
    if optional:
        kw["proto3_optional"] = True
    if type_name:
        kw["type_name"] = type_name
    if oneof is not None:
        kw["oneof_index"] = oneof
    return FieldDescriptorProto(**kw)


def camel(name):
    return "".join(p.capitalize() for p in name.split("_"))


def build_file(pkg, refs, rpcs=(), fname=None, holder="Holder", define_targets=True,
               extra_deps=()):
    """refs: list of (field_name, site, type_name, is_enum); site in single/repeated/map/oneof.
    rpcs: list of (method_name, input_type_name, output_type_name, client_stream, server_stream)
    """
    messages, enums = [], []
    if define_targets:
        messages.append(DescriptorProto(name="Target", field=[field("v", 1, T.TYPE_INT32)]))
        messages.append(
            DescriptorProto(
                name="Outer",
                field=[field("w", 1, T.TYPE_INT32)],
                nested_type=[DescriptorProto(name="Inner", field=[field("v", 1, T.TYPE_INT32)])],
                enum_type=[enum_proto("Kind")],
            )
        )
        enums.append(enum_proto("Color"))
    fields, nested, oneofs = [], [], []
    if any(site == "oneof" for _, site, _, _ in refs):
        oneofs.append(OneofDescriptorProto(name="choice"))
    n = 0
    for fname_, site, tname, is_enum in refs:
        n += 1
        ptype = T.TYPE_ENUM if is_enum else T.TYPE_MESSAGE
        if site == "single":
            fields.append(field(fname_, n, ptype, tname))
        elif site == "repeated":
            fields.append(field(fname_, n, ptype, tname, label=L.LABEL_REPEATED))
        elif site == "oneof":
            fields.append(field(fname_, n, ptype, tname, oneof=0))
        elif site == "optional":
            # proto3 optional: member of a synthetic oneof declared after the real ones
            oneofs.append(OneofDescriptorProto(name="_" + fname_))
            fields.append(field(fname_, n, ptype, tname, oneof=len(oneofs) - 1, optional=True))
        elif site == "map":
            entry = camel(fname_) + "Entry"
            nested.append(
                DescriptorProto(
                    name=entry,
                    field=[field("key", 1, T.TYPE_STRING), field("value", 2, ptype, tname)],
                    options=MessageOptions(map_entry=True),
                )
            )
            fields.append(
                field(fname_, n, T.TYPE_MESSAGE, fq(pkg, f"{holder}.{entry}"), label=L.LABEL_REPEATED)
            )
        else:
            raise AssertionError(site)
    messages.append(DescriptorProto(name=holder, field=fields, nested_type=nested, oneof_decl=oneofs))
    services = []
    if rpcs:
        services.append(
            ServiceDescriptorProto(
                name="Svc",
                method=[
                    MethodDescriptorProto(
                        name=m, input_type=i, output_type=o, client_streaming=cs, server_streaming=ss
                    )
                    for m, i, o, cs, ss in rpcs
                ],
            )
        )
    return FileDescriptorProto(
        name=fname or ((pkg.replace(".", "/") or "root") + ".proto"),
        package=pkg,
        message_type=messages,
        enum_type=enums,
        service=services,
        syntax="proto3",
        dependency=list(extra_deps),
    )


_counter = itertools.count()
_tmpdirs = []


def generate(files, parameter="", to_generate=None):
    """Run the plugin on the files (through a serialise/parse cycle as protoc would),
    write the response under a fresh importable root package; return its name."""
    request = CodeGeneratorRequest(
        file_to_generate=to_generate or [f.name for f in files],
        parameter=parameter,
        proto_file=files,
    )
    request = CodeGeneratorRequest().parse(bytes(request))
    tmp = tempfile.mkdtemp(prefix="c13_")
    _tmpdirs.append(tmp)
    root = f"gen{next(_counter)}_{os.getpid()}"
    cwd = os.getcwd()
    os.chdir(tmp)  # generate_code looks for existing __init__.py relative to the cwd
    stderr = sys.stderr
    sys.stderr = open(os.devnull, "w")
    try:
        response = generate_code(request)
    finally:
        sys.stderr.close()
        sys.stderr = stderr
        os.chdir(cwd)
    names = [f.name for f in response.file]
    assert len(names) == len(set(names)), f"duplicate response files: {sorted(names)}"
    for f in response.file:
        path = os.path.join(tmp, root, f.name)
        os.makedirs(os.path.dirname(path), exist_ok=True)
        with open(path, "w") as fh:
            fh.write(f.content)
    if tmp not in sys.path:
        sys.path.insert(0, tmp)
    importlib.invalidate_caches()
    return root, {f.name: f.content for f in response.file}


def cleanup():
    for t in _tmpdirs:
        shutil.rmtree(t, ignore_errors=True)


def mod(root, pkg):
    return importlib.import_module(f"{root}.{pkg}" if pkg else root)


def strip_hint(hint):
    """List[X] / Dict[str, X] / Optional[X] -> X"""
    args = getattr(hint, "__args__", None)
    if args:
        origin = typing.get_origin(hint)
        if origin is dict:
            return args[1]
        return args[0]
    return hint




def plan_refs(src, targets, sites=("single", "repeated", "map", "oneof"), kinds=tuple(KINDS)):
    refs, expect = [], []
    for j, tgt in enumerate(targets):
        for kind in kinds:
            suffix, cls_name, is_enum = KINDS[kind]
            for site in sites:
                name = f"r{j}_{kind}_{site}"
                refs.append((name, site, fq(tgt, suffix), is_enum))
                expect.append((name, site, tgt, cls_name, is_enum))
    return refs, expect


def plan_rpcs(targets):
    rpcs, expect = [], []
    shapes = [(False, False), (False, True), (True, False), (True, True)]
    for j, tgt in enumerate(targets):
        cs, ss = shapes[j % 4]
        rpcs.append((f"Call{j}", fq(tgt, "Target"), fq(tgt, "Outer.Inner"), cs, ss))
        expect.append((f"call{j}", tgt, "Target", tgt, "OuterInner", cs, ss))
    return rpcs, expect


def check_world(world, parameter="", sites=("single", "repeated", "map", "oneof")):
    """world: {src_pkg: [target pkgs]}; every package of the world (sources and targets)
    defines Target/Outer.Inner/Color/Outer.Kind and a Holder + Svc referring to its targets."""
    pkgs = sorted(set(world) | {t for ts in world.values() for t in ts})
    files, expects = [], {}
    for p in pkgs:
        refs, e1 = plan_refs(p, world.get(p, []), sites=sites)
        rpcs, e2 = plan_rpcs(world.get(p, []))
        files.append(build_file(p, refs, rpcs))
        expects[p] = (e1, e2)
    root, contents = generate(files, parameter)
    modules = {p: mod(root, p) for p in pkgs}
    n = 0
    for p in pkgs:
        m = modules[p]
        e1, e2 = expects[p]
        Holder = m.Holder
        hints = Holder._type_hints()
        pub = typing.get_type_hints(Holder, vars(m), {})
        for name, site, tgt, cls_name, is_enum in e1:
            want = getattr(modules[tgt], cls_name)
            assert want.__module__ == modules[tgt].__name__
            got = strip_hint(hints[name])
            assert got is want, (p, name, got, want)
            assert strip_hint(pub[name]) is want, (p, name)
            # round trip through the referencing field
            val = want(1) if is_enum else want(v=7)
            if site in ("single", "oneof", "optional"):
                h = Holder(**{name: val})
            elif site == "repeated":
                h = Holder(**{name: [val, val]})
            else:
                h = Holder(**{name: {"k": val}})
            back = Holder().parse(bytes(h))
            out = getattr(back, name)
            if site == "repeated":
                assert len(out) == 2
                out = out[0]
            elif site == "map":
                out = out["k"]
            assert type(out) is want, (p, name, type(out), want)
            assert out == val, (p, name, out, val)
            again = Holder().from_dict(h.to_dict())
            out2 = getattr(again, name)
            out2 = out2[0] if site == "repeated" else out2["k"] if site == "map" else out2
            assert type(out2) is want and out2 == val, (p, name)
            n += 1
        if e2:
            mapping = m.SvcBase().__mapping__()
            seen = []

            class Rec(m.SvcStub):
                async def _unary_unary(self, route, request, response_type, **kw):
                    seen.append((route, None, response_type))
                    return response_type()

                async def _stream_unary(self, route, it, request_type, response_type, **kw):
                    seen.append((route, request_type, response_type))
                    return response_type()

                async def _unary_stream(self, route, request, response_type, **kw):
                    seen.append((route, None, response_type))
                    yield response_type()

                async def _stream_stream(self, route, it, request_type, response_type, **kw):
                    seen.append((route, request_type, response_type))
                    yield response_type()

            stub = Rec(channel=None)
            for meth, ipkg, icls, opkg, ocls, cs, ss in e2:
                want_in = getattr(modules[ipkg], icls)
                want_out = getattr(modules[opkg], ocls)
                route = f"/{p + '.' if p else ''}Svc/{meth.replace('call', 'Call')}"
                handler = mapping[route]
                assert handler.request_type is want_in, (p, meth)
                assert handler.reply_type is want_out, (p, meth)
                seen.clear()

                async def run():
                    arg = [want_in()] if cs else want_in()
                    if ss:
                        return [r async for r in getattr(stub, meth)(arg)]
                    return [await getattr(stub, meth)(arg)]

                res = asyncio.run(run())
                assert type(res[0]) is want_out, (p, meth)
                (r, rt, ot), = seen
                assert r == route and ot is want_out and (rt is None or rt is want_in), (p, meth)
                ann = getattr(m.SvcStub, meth).__annotations__
                ret = eval(ann["return"], dict(vars(m), AsyncIterator=typing.AsyncIterator))
                assert strip_hint(ret) is want_out, (p, meth, ret)
                n += 1
    return n




import hashlib

ALL_SITES = ("single", "repeated", "map", "oneof", "optional")


def digest(contents):
    """Order-insensitive fingerprint of a plugin response (the import lines at the bottom of
    a module come out of a set, so lines are sorted before hashing)."""
    h = hashlib.sha256()
    for name in sorted(contents):
        h.update(name.encode() + b"\0")
        for line in sorted(contents[name].splitlines()):
            h.update(line.encode() + b"\n")
        h.update(b"\1")
    return h.hexdigest()


def scalar_file():
    """Scalars, wrappers, well-known types, builtin-named fields and a map of scalars /
    wrappers next to oneof members: everything read_protobuf_type dispatches on."""
    W = ".google.protobuf."
    msg = DescriptorProto(
        name="Mixed",
        field=[
            field("int", 1, T.TYPE_INT32),
            field("name", 2, T.TYPE_STRING, oneof=0),
            field("flag", 3, T.TYPE_BOOL, oneof=0),
            field("when", 4, T.TYPE_MESSAGE, W + "Timestamp", oneof=0),
            field("span", 5, T.TYPE_MESSAGE, W + "Duration"),
            field("maybe", 6, T.TYPE_MESSAGE, W + "Int32Value"),
            field("anything", 7, T.TYPE_MESSAGE, W + "Any", label=L.LABEL_REPEATED),
            field("counts", 8, T.TYPE_MESSAGE, ".sc.Mixed.CountsEntry", label=L.LABEL_REPEATED),
            field("wrapped", 9, T.TYPE_MESSAGE, ".sc.Mixed.WrappedEntry", label=L.LABEL_REPEATED),
            field("opt", 10, T.TYPE_DOUBLE, oneof=1, optional=True),
            field("data", 11, T.TYPE_BYTES, oneof=2),
            field("other", 12, T.TYPE_MESSAGE, ".sc.Mixed", oneof=2),
            # looks like a map entry by name but is an ordinary message field
            field("fake", 13, T.TYPE_MESSAGE, ".sc.FakeEntry", label=L.LABEL_REPEATED),
        ],
        nested_type=[
            DescriptorProto(
                name="CountsEntry",
                field=[field("key", 1, T.TYPE_INT64), field("value", 2, T.TYPE_SINT32)],
                options=MessageOptions(map_entry=True),
            ),
            DescriptorProto(
                name="WrappedEntry",
                field=[field("key", 1, T.TYPE_STRING), field("value", 2, T.TYPE_MESSAGE, W + "BoolValue")],
                options=MessageOptions(map_entry=True),
            ),
        ],
        oneof_decl=[
            OneofDescriptorProto(name="first"),
            OneofDescriptorProto(name="_opt"),
            OneofDescriptorProto(name="second"),
        ],
    )
    fake = DescriptorProto(name="FakeEntry", field=[field("key", 1, T.TYPE_STRING), field("value", 2, T.TYPE_STRING)])
    return FileDescriptorProto(
        name="sc.proto", package="sc", message_type=[msg, fake], enum_type=[enum_proto("Mode")], syntax="proto3"
    )


def big_world_files():
    pkgs = ["", "a", "a.b", "a.b.c", "a.x", "b", "p.q"]
    files = []
    for p in pkgs:
        refs, _ = plan_refs(p, pkgs, sites=ALL_SITES)
        rpcs, _ = plan_rpcs(pkgs)
        files.append(build_file(p, refs, rpcs))
    # a second file of package a.b adds another holder to the same module
    refs, _ = plan_refs("a.b", ["a", "p.q"], sites=ALL_SITES)
    files.append(build_file("a.b", refs, (), fname="a/b_more.proto", holder="More", define_targets=False))
    files.append(scalar_file())
    return files


GOLDEN = {
    "": "6a26fc761e3503622ad6144042d9da34fd6e1432f5d09715a20de20fd7dbcc52",
    "typing.root": "a8a8b4a30682da236da6976d5ecbb1b67a2ad3d19f2d140fa095c3f0dacb5ab0",
    "typing.310": "1839b9fffef65a20c8b3f09a5e06a257e3dfe94bf4067d32816f495046c9f793",
    "pydantic_dataclasses": "fc04e585d52da59f230d74494f0a74ea2593dc26c1c11fd6da2304e4d63d9d7a",
    "pydantic_dataclasses,typing.310": "e3a4a80273f51610bd4d552e8b7b33c12fab7df48f80bb9930a0db348ea24647",
}


def main():
    checked = 0
    # --- behaviour: every site x kind resolves to the right class, pairwise and all at once
    shapes = [
        ("", ""), ("", "a"), ("", "a.b"), ("", "a.b.c"), ("a", ""), ("a", "a"), ("a", "a.b"),
        ("a", "a.b.c"), ("a.b", "a"), ("a.b.c", "a"), ("a.b.c", "a.b"), ("a.b", ""),
        ("a.b.c", ""), ("a.x", "a.y"), ("a", "b"), ("a.b", "p"), ("a", "p.q"),
        ("a.b.c", "a.x.y"), ("a.b.c", "x.y.z"), ("a.b.c", "a.b.d"), ("a.a", "a"),
    ]
    for src, tgt in shapes:
        checked += check_world({src: [tgt]}, sites=ALL_SITES)
    pk = ["", "a", "a.b", "b", "b.a"]
    for parameter in ("", "typing.root", "typing.310", "typing.direct"):
        checked += check_world({p: pk for p in pk}, parameter, sites=ALL_SITES)

    # --- structure of the emitted fields for each dispatch case
    root, contents = generate([scalar_file()])
    code = contents[os.path.join("sc", "__init__.py")]
    lines = [l.strip() for l in code.splitlines()]
    assert "int: builtins.int = betterproto.int32_field(1)" in lines
    assert 'name: str = betterproto.string_field(2, group="first")' in lines
    assert 'flag: bool = betterproto.bool_field(3, group="first")' in lines
    assert 'when: datetime = betterproto.message_field(4, group="first")' in lines
    assert "span: timedelta = betterproto.message_field(5)" in lines
    assert "maybe: Optional[builtins.int] = betterproto.message_field(6, wraps=betterproto.TYPE_INT32)" in lines
    assert 'anything: List["betterproto_lib_google_protobuf.Any"] = betterproto.message_field(7)' in lines
    assert "counts: Dict[builtins.int, builtins.int] = betterproto.map_field(8, betterproto.TYPE_INT64, betterproto.TYPE_SINT32)" in lines
    assert 'wrapped: Dict[str, "betterproto_lib_google_protobuf.BoolValue"] = betterproto.map_field(9, betterproto.TYPE_STRING, betterproto.TYPE_MESSAGE)' in lines
    assert "opt: Optional[float] = betterproto.double_field(10, optional=True)" in lines
    assert 'data: bytes = betterproto.bytes_field(11, group="second")' in lines
    assert 'other: "Mixed" = betterproto.message_field(12, group="second")' in lines
    assert 'fake: List["FakeEntry"] = betterproto.message_field(13)' in lines
    assert "class MixedCountsEntry" not in code and "class FakeEntry(betterproto.Message):" in code
    assert "class Mode(betterproto.Enum):" in code
    m = mod(root, "sc")
    x = m.Mixed(int=3, when=__import__("datetime").datetime(2020, 1, 2, tzinfo=__import__("datetime").timezone.utc),
                counts={1: -2}, wrapped={"k": m.betterproto_lib_google_protobuf.BoolValue(value=True)},
                opt=0.0, other=m.Mixed(int=1), fake=[m.FakeEntry(key="a", value="b")])
    y = m.Mixed().parse(bytes(x))
    assert y == x and betterproto.which_one_of(y, "first")[0] == "when"
    assert betterproto.which_one_of(y, "second")[0] == "other" and y.opt == 0.0
    assert type(y.wrapped["k"]) is betterproto.lib.google.protobuf.BoolValue
    pyd = generate([scalar_file()], "pydantic_dataclasses")[1][os.path.join("sc", "__init__.py")]
    plines = [l.strip() for l in pyd.splitlines()]
    assert 'name: Optional[str] = betterproto.string_field(2, optional=True, group="first")' in plines
    assert 'other: Optional["Mixed"] = betterproto.message_field(12, optional=True, group="second")' in plines
    assert "opt: Optional[float] = betterproto.double_field(10, optional=True)" in plines
    assert "span: timedelta = betterproto.message_field(5)" in plines
    assert "from pydantic import model_validator" in pyd and "def check_oneof(cls, values):" in pyd

    # --- exact output (modulo line order) of a large mixed request under every option
    for parameter in ("", "typing.root", "typing.310", "pydantic_dataclasses", "pydantic_dataclasses,typing.310"):
        got = digest(generate(big_world_files(), parameter)[1])
        if os.environ.get("C13_PRINT_GOLDEN"):
            print(f"    {parameter!r}: {got!r},")
        else:
            assert got == GOLDEN[parameter], (parameter, got)
    cleanup()
    print("checked references:", checked)


if __name__ == "__main__":
    main()
