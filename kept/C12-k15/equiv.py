"""
C12 keep1 equivalence check.

The receiving side of AsyncChannel (__anext__ / receive) is compared, under thousands of
random small scenarios (senders using send / send_from with plain and async sources,
receivers using receive(), __anext__(), async-for or receive() wrapped in its own task,
a closer, cancellers hitting receivers and senders at arbitrary points, bounded and
unbounded buffers, odd items such as None / falsy values / exception instances), against
a verbatim copy of the reference implementation embedded below: the complete event traces
(event-loop turn number, actor, outcome, closed()/done()/qsize after the event, set of
tasks still pending at the end) must be identical. A second part checks the documented
results directly (sentinel mapping, ChannelDone text, cancellation / timeout of blocked
receivers, no stranded receiver).
"""
REF_SOURCE = r'''
import asyncio
from typing import (
    AsyncIterable,
    AsyncIterator,
    Iterable,
    Optional,
    TypeVar,
    Union,
)


T = TypeVar("T")


class ChannelClosed(Exception):
    """
    An exception raised on an attempt to send through a closed channel
    """


class ChannelDone(Exception):
    """
    An exception raised on an attempt to send receive from a channel that is both closed
    and empty.
    """


class AsyncChannel(AsyncIterable[T]):
    """
    A buffered async channel for sending items between coroutines with FIFO ordering.

    This makes decoupled bidirectional steaming gRPC requests easy if used like:

    .. code-block:: python
        client = GeneratedStub(grpclib_chan)
        request_channel = await AsyncChannel()
        # We can start be sending all the requests we already have
        await request_channel.send_from([RequestObject(...), RequestObject(...)])
        async for response in client.rpc_call(request_channel):
            # The response iterator will remain active until the connection is closed
            ...
            # More items can be sent at any time
            await request_channel.send(RequestObject(...))
            ...
            # The channel must be closed to complete the gRPC connection
            request_channel.close()

    Items can be sent through the channel by either:
    - providing an iterable to the send_from method
    - passing them to the send method one at a time

    Items can be received from the channel by either:
    - iterating over the channel with a for loop to get all items
    - calling the receive method to get one item at a time

    If the channel is empty then receivers will wait until either an item appears or the
    channel is closed.

    Once the channel is closed then subsequent attempt to send through the channel will
    fail with a ChannelClosed exception.

    When th channel is closed and empty then it is done, and further attempts to receive
    from it will fail with a ChannelDone exception

    If multiple coroutines receive from the channel concurrently, each item sent will be
    received by only one of the receivers.

    :param source:
        An optional iterable will items that should be sent through the channel
        immediately.
    :param buffer_limit:
        Limit the number of items that can be buffered in the channel, A value less than
        1 implies no limit. If the channel is full then attempts to send more items will
        result in the sender waiting until an item is received from the channel.
    :param close:
        If set to True then the channel will automatically close after exhausting source
        or immediately if no source is provided.
    """

    def __init__(self, *, buffer_limit: int = 0, close: bool = False):
        self._queue: asyncio.Queue[T] = asyncio.Queue(buffer_limit)
        self._closed = False
        self._waiting_receivers: int = 0
        # Track whether flush has been invoked so it can only happen once
        self._flushed = False

    def __aiter__(self) -> AsyncIterator[T]:
        return self

    async def __anext__(self) -> T:
        if self.done():
            raise StopAsyncIteration
        self._waiting_receivers += 1
        try:
            result = await self._queue.get()
        finally:
            self._waiting_receivers -= 1
        # Only an item that was actually taken from the queue is marked as done
        # (not when the wait was cancelled or timed out).
        self._queue.task_done()
        if result is self.__flush:
            raise StopAsyncIteration
        return result

    def closed(self) -> bool:
        """
        Returns True if this channel is closed and no-longer accepting new items
        """
        return self._closed

    def done(self) -> bool:
        """
        Check if this channel is done.

        :return: True if this channel is closed and and has been drained of items in
        which case any further attempts to receive an item from this channel will raise
        a ChannelDone exception.
        """
        # After close the channel is not yet done until there is at least one waiting
        # receiver per enqueued item.
        return self._closed and self._queue.qsize() <= self._waiting_receivers

    async def send_from(
        self, source: Union[Iterable[T], AsyncIterable[T]], close: bool = False
    ) -> "AsyncChannel[T]":
        """
        Iterates the given [Async]Iterable and sends all the resulting items.
        If close is set to True then subsequent send calls will be rejected with a
        ChannelClosed exception.
        :param source: an iterable of items to send
        :param close:
            if True then the channel will be closed after the source has been exhausted

        """
        if self._closed:
            raise ChannelClosed("Cannot send through a closed channel")
        if isinstance(source, AsyncIterable):
            async for item in source:
                await self._queue.put(item)
        else:
            for item in source:
                await self._queue.put(item)
        if close:
            # Complete the closing process
            self.close()
        return self

    async def send(self, item: T) -> "AsyncChannel[T]":
        """
        Send a single item over this channel.
        :param item: The item to send
        """
        if self._closed:
            raise ChannelClosed("Cannot send through a closed channel")
        await self._queue.put(item)
        return self

    async def receive(self) -> Optional[T]:
        """
        Returns the next item from this channel when it becomes available,
        or None if the channel is closed before another item is sent.
        :return: An item from the channel
        """
        if self.done():
            raise ChannelDone("Cannot receive from a closed channel")
        self._waiting_receivers += 1
        try:
            result = await self._queue.get()
        finally:
            self._waiting_receivers -= 1
        # Only an item that was actually taken from the queue is marked as done
        # (not when the wait was cancelled or timed out).
        self._queue.task_done()
        if result is self.__flush:
            return None
        return result

    def close(self):
        """
        Close this channel to new items
        """
        self._closed = True
        asyncio.ensure_future(self._flush_queue())

    async def _flush_queue(self):
        """
        To be called after the channel is closed. Pushes a number of self.__flush
        objects to the queue to ensure no waiting consumers get deadlocked.
        """
        if not self._flushed:
            self._flushed = True
            deadlocked_receivers = max(0, self._waiting_receivers - self._queue.qsize())
            for _ in range(deadlocked_receivers):
                await self._queue.put(self.__flush)

    # A special signal object for flushing the queue when the channel is closed
    __flush = object()
'''


import asyncio
import random
import sys
import time
import types

import betterproto.grpc.util.async_channel as lib

ref = types.ModuleType("ref_async_channel")
exec(compile(REF_SOURCE, "ref_async_channel.py", "exec"), ref.__dict__)


class Weird:
    """an item that claims to be equal to everything and is falsy"""

    def __eq__(self, other):
        return True

    def __hash__(self):
        return 0

    def __bool__(self):
        return False


POOL = [
    None,
    0,
    "",
    False,
    (),
    Weird(),
    StopAsyncIteration("item"),
    asyncio.CancelledError("item"),
    object(),
    [],
]


def describe(item):
    for i, p in enumerate(POOL):
        if item is p:
            return "pool%d" % i
    return repr(item)


# ---------------------------------------------------------------------------------
# part 1: random scenarios, full event traces of library vs embedded reference
# ---------------------------------------------------------------------------------
class World:
    def __init__(self, mod, limit):
        self.mod = mod
        self.ch = mod.AsyncChannel(buffer_limit=limit)
        self.tick = 0
        self.trace = []
        self.tasks = {}
        self.stop = False

    def snap(self):
        ch = self.ch
        return (ch.closed(), ch.done(), ch._queue.qsize())

    def log(self, actor, what, detail=None):
        self.trace.append((self.tick, actor, what, detail, self.snap()))


async def turns(n):
    for _ in range(n):
        await asyncio.sleep(0)


async def agen(items, gaps):
    for item, gap in zip(items, gaps):
        await turns(gap)
        yield item


async def sender(w, name, plan):
    for step in plan:
        try:
            if step[0] == "yield":
                await turns(step[1])
            elif step[0] == "send":
                r = await w.ch.send(step[1])
                assert r is w.ch
                w.log(name, "sent", describe(step[1]))
            elif step[0] == "send_from":
                _, items, gaps, close = step
                src = items if gaps is None else agen(items, gaps)
                r = await w.ch.send_from(src, close=close)
                assert r is w.ch
                w.log(name, "sent_from", [describe(i) for i in items])
        except asyncio.CancelledError:
            if w.stop:
                raise
            w.log(name, "cancelled")
        except Exception as e:
            w.log(name, "raised", (type(e).__name__, str(e)))
    w.log(name, "finished")


async def receiver(w, name, style, max_ops, on_cancel_continue):
    ops = 0
    while ops < max_ops:
        ops += 1
        try:
            if style == "receive":
                item = await w.ch.receive()
                w.log(name, "received", describe(item))
            elif style == "anext":
                item = await w.ch.__anext__()
                w.log(name, "next", describe(item))
            elif style == "inner":
                # the operation runs as its own task (like wait_for does)
                op = asyncio.ensure_future(w.ch.receive())
                w.tasks[name + ".op"] = op
                item = await op
                w.log(name, "received", describe(item))
            else:
                async for item in w.ch:
                    w.log(name, "iterated", describe(item))
                w.log(name, "iteration ended")
        except asyncio.CancelledError:
            if w.stop:
                raise
            w.log(name, "cancelled")
            if not on_cancel_continue:
                break
        except StopAsyncIteration as e:
            w.log(name, "stop", str(e))
        except Exception as e:
            w.log(name, "raised", (type(e).__name__, str(e)))
    w.log(name, "finished")


async def closer(w, name, delay, times):
    for _ in range(times):
        await turns(delay)
        w.ch.close()
        w.log(name, "closed")


async def canceller(w, name, delay, target):
    await turns(delay)
    t = w.tasks.get(target + ".op") or w.tasks.get(target)
    if t is not None:
        r = t.cancel()
        w.log(name, "cancel " + target, r)


async def ticker(w):
    while True:
        w.tick += 1
        await asyncio.sleep(0)


def make_scenario(rng):
    counter = [0]

    def item():
        if rng.random() < 0.35:
            return rng.choice(POOL)
        counter[0] += 1
        return counter[0]

    actors = []
    for s in range(rng.randint(1, 2)):
        plan = []
        for _ in range(rng.randint(1, 3)):
            k = rng.random()
            if k < 0.3:
                plan.append(("yield", rng.randint(0, 3)))
            elif k < 0.65:
                plan.append(("send", item()))
            else:
                items = [item() for _ in range(rng.randint(0, 3))]
                gaps = (
                    None
                    if rng.random() < 0.5
                    else [rng.randint(0, 2) for _ in items]
                )
                plan.append(("send_from", items, gaps, rng.random() < 0.25))
        actors.append(("sender", "S%d" % s, plan))
    for r in range(rng.randint(1, 3)):
        actors.append(
            (
                "receiver",
                "R%d" % r,
                rng.choice(["receive", "anext", "iter", "inner"]),
                rng.randint(1, 5),
                rng.random() < 0.6,
            )
        )
    if rng.random() < 0.9:
        actors.append(("closer", "C", rng.randint(0, 8), rng.choice([1, 1, 2])))
    names = [a[1] for a in actors if a[0] in ("sender", "receiver")]
    for c in range(rng.randint(0, 2)):
        actors.append(("canceller", "X%d" % c, rng.randint(0, 10), rng.choice(names)))
    rng.shuffle(actors)
    limit = rng.choice([0, 0, 1, 2, -1])
    return limit, actors


async def run_scenario(mod, limit, actors, nticks=45):
    w = World(mod, limit)
    tk = asyncio.ensure_future(ticker(w))
    for a in actors:
        kind, name = a[0], a[1]
        fn = {
            "sender": sender,
            "receiver": receiver,
            "closer": closer,
            "canceller": canceller,
        }[kind]
        w.tasks[name] = asyncio.ensure_future(fn(w, name, *a[2:]))
    while w.tick < nticks:
        await asyncio.sleep(0)
    pending = sorted(n for n, t in w.tasks.items() if not t.done())
    w.log("main", "pending", pending)
    w.stop = True
    tk.cancel()
    for t in w.tasks.values():
        t.cancel()
    await asyncio.gather(tk, *w.tasks.values(), return_exceptions=True)
    # flush tasks that are still blocked on a full bounded buffer
    rest = [t for t in asyncio.all_tasks() if t is not asyncio.current_task()]
    for t in rest:
        t.cancel()
    await asyncio.gather(*rest, return_exceptions=True)
    return w.trace


async def part1(nseeds, budget):
    start = time.time()
    done = 0
    for seed in range(nseeds):
        limit, actors = make_scenario(random.Random(seed))
        t_lib = await run_scenario(lib, limit, actors)
        t_ref = await run_scenario(ref, limit, actors)
        if t_lib != t_ref:
            for a, b in zip(t_lib, t_ref):
                if a != b:
                    print("first difference:\n  lib:", a, "\n  ref:", b)
                    break
            raise AssertionError("trace differs for seed %d: %r" % (seed, actors))
        done += 1
        if time.time() - start > budget:
            break
    assert done >= 1000, done
    print("part 1: %d random scenarios, traces identical" % done)


# ---------------------------------------------------------------------------------
# part 2: directed checks (no reference needed)
# ---------------------------------------------------------------------------------
async def part2():
    AC, Closed, Done = lib.AsyncChannel, lib.ChannelClosed, lib.ChannelDone

    # every kind of item passes through both receiving styles unchanged (identity)
    for limit in (0, 1, 3, -5):
        ch = AC(buffer_limit=limit)
        got = []

        async def consume():
            async for x in ch:
                got.append(x)

        c = asyncio.ensure_future(consume())
        for p in POOL:
            await ch.send(p)
        await ch.send_from(POOL)
        ch.close()
        await asyncio.wait_for(c, 5)
        assert len(got) == 2 * len(POOL)
        assert all(a is b for a, b in zip(got, POOL + POOL))

        ch = AC(buffer_limit=limit)
        sender_task = asyncio.ensure_future(ch.send_from(POOL, close=True))
        got = []
        while True:
            try:
                got.append(await ch.receive())
            except Done as e:
                assert str(e) == "Cannot receive from a closed channel"
                assert type(e) is Done and e.args == (
                    "Cannot receive from a closed channel",
                )
                break
        await sender_task
        assert len(got) == len(POOL) and all(a is b for a, b in zip(got, POOL))

    # done channel: receive raises a fresh ChannelDone each time, iteration just ends
    ch = AC()
    ch.close()
    errs = []
    for _ in range(3):
        try:
            await ch.receive()
        except Done as e:
            errs.append(e)
    assert len(errs) == 3 and len({id(e) for e in errs}) == 3
    for _ in range(3):
        try:
            await ch.__anext__()
        except StopAsyncIteration as e:
            assert e.args == ()
        else:
            raise AssertionError
    assert [x async for x in ch] == []
    assert ch.__aiter__() is ch

    # closed while waiting: receive -> None, __anext__ -> StopAsyncIteration,
    # async for -> ends; one per blocked receiver, nobody stranded
    for n in (1, 2, 3):
        for nitems in (0, 1, 2):
            ch = AC()

            async def it():
                return [x async for x in ch]

            recv = [asyncio.ensure_future(ch.receive()) for _ in range(n)]
            nxt = [asyncio.ensure_future(ch.__anext__()) for _ in range(n)]
            its = [asyncio.ensure_future(it()) for _ in range(n)]
            await turns(3)
            assert ch._waiting_receivers == 3 * n
            for i in range(nitems):
                await ch.send(i)
            ch.close()
            assert ch.closed()
            done, pend = await asyncio.wait(recv + nxt + its, timeout=5)
            assert not pend
            assert ch._waiting_receivers == 0 and ch.done()
            items = []
            for t in recv:
                if t.result() is not None:
                    items.append(t.result())
            for t in nxt:
                if t.exception() is None:
                    items.append(t.result())
                else:
                    assert type(t.exception()) is StopAsyncIteration
            for t in its:
                items.extend(t.result())
            assert sorted(items) == list(range(nitems)), items
            try:
                await ch.send(1)
            except Closed:
                pass
            else:
                raise AssertionError

    # cancellation / timeout of a blocked receiver: surfaces as such, count restored,
    # channel usable, nothing lost
    for style in ("receive", "anext"):
        ch = AC()
        op = ch.receive if style == "receive" else ch.__anext__
        t = asyncio.ensure_future(op())
        await turns(2)
        assert ch._waiting_receivers == 1
        t.cancel()
        try:
            await t
        except asyncio.CancelledError:
            pass
        else:
            raise AssertionError
        assert ch._waiting_receivers == 0
        try:
            await asyncio.wait_for(op(), 0.01)
        except asyncio.TimeoutError:
            pass
        else:
            raise AssertionError
        assert ch._waiting_receivers == 0 and ch._queue._unfinished_tasks == 0
        await ch.send("x")
        assert await op() == "x"
        assert ch._queue._unfinished_tasks == 0
        # cancelled while the item is already in flight to it
        t1 = asyncio.ensure_future(op())
        t2 = asyncio.ensure_future(op())
        await turns(2)
        await ch.send("y")
        t1.cancel()
        await turns(3)
        assert t1.cancelled() and t2.done() and t2.result() == "y"
        ch.close()
        assert ch.done()
    print("part 2: directed checks passed")


async def main():
    await part2()
    await part1(20000, 60)


if __name__ == "__main__":
    asyncio.run(main())
    print("OK")
    sys.exit(0)
