"""Equivalence check for the restructured Message.__getattribute__ (oneof guard,
lazy defaults) - exits 0 on the pristine tree and with the refactor applied.

Covers: which attribute reads raise for unselected oneof members (type, text,
.name/.obj), what a read stores in the instance (only mutable defaults), reads on
instances whose __post_init__ has not run, reads of non-field attributes, and the
binary round trip (bytes / parse / == / which_one_of / serialized_on_wire) of many
random messages, cross-checked against google.protobuf.
"""
import random
import sys
from dataclasses import dataclass
from datetime import datetime, timedelta, timezone
from typing import Dict, List, Optional

import betterproto
from betterproto import PLACEHOLDER, which_one_of, serialized_on_wire


class Color(betterproto.Enum):
    ZERO = 0
    RED = 1
    NEG = -5


@dataclass(eq=False, repr=False)
class Leaf(betterproto.Message):
    n: int = betterproto.sint64_field(1)
    s: str = betterproto.string_field(2)


@dataclass(eq=False, repr=False)
class Empty(betterproto.Message):
    pass


@dataclass(eq=False, repr=False)
class Node(betterproto.Message):
    i32: int = betterproto.int32_field(1)
    text: str = betterproto.string_field(2, group="choice")
    num: int = betterproto.int32_field(3, group="choice")
    leaf: Leaf = betterproto.message_field(4, group="choice")
    color: Color = betterproto.enum_field(5, group="choice")
    packed: List[int] = betterproto.int64_field(6)
    counts: Dict[str, int] = betterproto.map_field(
        7, betterproto.TYPE_STRING, betterproto.TYPE_INT32
    )
    opt: Optional[int] = betterproto.int32_field(8, optional=True)
    child: "Node" = betterproto.message_field(9)
    plain_leaf: Leaf = betterproto.message_field(10)
    a: bool = betterproto.bool_field(11, group="second")
    b: bytes = betterproto.bytes_field(12, group="second")
    wrapped: Optional[int] = betterproto.message_field(
        13, wraps=betterproto.TYPE_INT64
    )
    ts: datetime = betterproto.message_field(14)
    dur: timedelta = betterproto.message_field(15)
    leaves: Dict[int, Leaf] = betterproto.map_field(
        16, betterproto.TYPE_SINT32, betterproto.TYPE_MESSAGE
    )
    e: Empty = betterproto.message_field(17)
    colors: List[Color] = betterproto.enum_field(18)
    d: float = betterproto.double_field(19)


CHOICE = ["text", "num", "leaf", "color"]
SECOND = ["a", "b"]


def raw(m, name):
    return object.__getattribute__(m, name)


def expect_unselected(m, name, group, selected):
    try:
        getattr(m, name)
    except AttributeError as exc:
        assert type(exc) is AttributeError
        assert exc.args == (f"{group!r} is set to {selected!r}, not {name!r}",), exc.args
        if sys.version_info >= (3, 10):
            assert exc.name == name
            assert exc.obj is m
    else:
        raise AssertionError(f"reading {name} should have raised")
    assert not hasattr(m, name)
    assert getattr(m, name, "fallback") == "fallback"


# ---------------------------------------------------------------- oneof guard
m = Node()
for name in CHOICE:
    expect_unselected(m, name, "choice", None)
for name in SECOND:
    expect_unselected(m, name, "second", None)
assert which_one_of(m, "choice") == ("", None)
assert raw(m, "_group_current") == {"choice": None, "second": None}
assert list(raw(m, "_group_current")) == ["choice", "second"]

for selected, value in [
    ("text", ""),
    ("text", "\U0001F600"),
    ("num", 0),
    ("num", -(2**31)),
    ("leaf", Leaf()),
    ("leaf", Leaf(n=-(2**63), s="x")),
    ("color", Color.ZERO),
    ("color", Color.NEG),
    ("color", Color.try_value(77)),
]:
    m = Node()
    setattr(m, selected, value)
    assert getattr(m, selected) == value
    assert which_one_of(m, "choice") == (selected, value)
    for other in CHOICE:
        if other != selected:
            expect_unselected(m, other, "choice", selected)
            assert raw(m, other) is PLACEHOLDER
    for name in SECOND:
        expect_unselected(m, name, "second", None)
    # switching the member moves the guard
    m.num = 5
    assert m.num == 5
    if selected != "num":
        expect_unselected(m, selected, "choice", "num")
    back = Node().parse(bytes(m))
    assert back == m and which_one_of(back, "choice") == ("num", 5)
    for other in CHOICE:
        if other != "num":
            expect_unselected(back, other, "choice", "num")

# constructor selects, too
m = Node(b=b"")
assert m.b == b"" and which_one_of(m, "second") == ("b", b"")
expect_unselected(m, "a", "second", "b")

# ---------------------------------------------------------------- lazy defaults
m = Node()
for name in ["i32", "opt", "wrapped", "ts", "dur", "d"]:
    before = raw(m, name)
    value = getattr(m, name)
    assert raw(m, name) is before, name  # a scalar read stores nothing
assert raw(m, "i32") is PLACEHOLDER and m.i32 == 0 and type(m.i32) is int
assert m.opt is None and m.wrapped is None
assert m.ts == datetime(1970, 1, 1, tzinfo=timezone.utc) and raw(m, "ts") is PLACEHOLDER
assert m.dur == timedelta(0) and raw(m, "dur") is PLACEHOLDER
assert m.d == 0.0 and type(m.d) is float
assert not serialized_on_wire(m)

for name, kind in [
    ("packed", list),
    ("counts", dict),
    ("leaves", dict),
    ("colors", list),
    ("child", Node),
    ("plain_leaf", Leaf),
    ("e", Empty),
]:
    assert raw(m, name) is PLACEHOLDER
    first = getattr(m, name)
    assert type(first) is kind
    assert raw(m, name) is first  # mutable defaults are kept ...
    assert getattr(m, name) is first  # ... and handed out again
    assert not serialized_on_wire(m)  # a read is not a set
assert not serialized_on_wire(m.child) and not serialized_on_wire(m.e)
assert bytes(m) == b"" and m == Node()

# filling a lazily created container / child in place is seen by the encoder
m = Node()
m.packed.append(2**63 - 1)
m.counts["k"] = -1
m.leaves[-3] = Leaf(s="in place")
m.child.child.i32 = 7
m.plain_leaf.n = -1
back = Node().parse(bytes(m))
assert back == m
assert back.packed == [2**63 - 1] and back.counts == {"k": -1}
assert back.leaves[-3].s == "in place" and back.child.child.i32 == 7
assert serialized_on_wire(back.child) and serialized_on_wire(back.child.child)
assert bytes(back) == bytes(m)

# recursive type: reading child after child never recurses eagerly
m = Node()
cur = m
for _ in range(50):
    cur = cur.child
assert bytes(m) == b""

# ------------------------------------------------- reads that are not field reads
m = Node(num=3)
assert m.__class__ is Node
assert m._betterproto is Node._betterproto
assert m._betterproto.oneof_group_by_field["num"] == "choice"
assert m._group_current == {"choice": "num", "second": None}
assert m._serialized_on_wire is True and m._unknown_fields == b""
assert callable(m._get_field_default) and m._get_field_default("i32") == 0
assert m.__dict__ is raw(m, "__dict__")
try:
    m.no_such_attribute
except AttributeError as exc:
    assert "no_such_attribute" in str(exc)
    assert str(exc) == "'Node' object has no attribute 'no_such_attribute'"
else:
    raise AssertionError

# instance whose __post_init__ has not run: no guard, class-level defaults apply
bare = Node.__new__(Node)
assert "_group_current" not in bare.__dict__
assert bare.__class__ is Node and bare._betterproto is Node._betterproto
assert bare.num == 0 and bare.text == "" and bare.i32 == 0
assert "num" not in bare.__dict__
got = bare.packed
assert got == [] and bare.__dict__["packed"] is got
leaf = bare.leaf
assert type(leaf) is Leaf and bare.__dict__["leaf"] is leaf
try:
    bare._group_current
except AttributeError:
    pass
else:
    raise AssertionError


# --------------------------------------------- google.protobuf as the reference
from google.protobuf import descriptor_pb2, descriptor_pool, message_factory

F = descriptor_pb2.FieldDescriptorProto
fdp = descriptor_pb2.FileDescriptorProto(
    name="keep1_equiv.proto", package="keep1", syntax="proto3"
)
fdp.dependency.extend(
    [
        "google/protobuf/wrappers.proto",
        "google/protobuf/timestamp.proto",
        "google/protobuf/duration.proto",
    ]
)
from google.protobuf import duration_pb2, timestamp_pb2, wrappers_pb2  # noqa: E402,F401

en = fdp.enum_type.add(name="Color")
for ename, number in [("ZERO", 0), ("RED", 1), ("NEG", -5)]:
    en.value.add(name=ename, number=number)
leaf_d = fdp.message_type.add(name="Leaf")
leaf_d.field.add(name="n", number=1, type=F.TYPE_SINT64, label=F.LABEL_OPTIONAL)
leaf_d.field.add(name="s", number=2, type=F.TYPE_STRING, label=F.LABEL_OPTIONAL)
fdp.message_type.add(name="Empty")
node_d = fdp.message_type.add(name="Node")
node_d.oneof_decl.add(name="choice")
node_d.oneof_decl.add(name="second")
node_d.oneof_decl.add(name="_opt")


def add(name, number, ftype, label=F.LABEL_OPTIONAL, **kw):
    return node_d.field.add(name=name, number=number, type=ftype, label=label, **kw)


add("i32", 1, F.TYPE_INT32)
add("text", 2, F.TYPE_STRING, oneof_index=0)
add("num", 3, F.TYPE_INT32, oneof_index=0)
add("leaf", 4, F.TYPE_MESSAGE, type_name=".keep1.Leaf", oneof_index=0)
add("color", 5, F.TYPE_ENUM, type_name=".keep1.Color", oneof_index=0)
add("packed", 6, F.TYPE_INT64, F.LABEL_REPEATED)
ce = node_d.nested_type.add(name="CountsEntry")
ce.options.map_entry = True
ce.field.add(name="key", number=1, type=F.TYPE_STRING, label=F.LABEL_OPTIONAL)
ce.field.add(name="value", number=2, type=F.TYPE_INT32, label=F.LABEL_OPTIONAL)
add("counts", 7, F.TYPE_MESSAGE, F.LABEL_REPEATED, type_name=".keep1.Node.CountsEntry")
add("opt", 8, F.TYPE_INT32, oneof_index=2, proto3_optional=True)
add("child", 9, F.TYPE_MESSAGE, type_name=".keep1.Node")
add("plain_leaf", 10, F.TYPE_MESSAGE, type_name=".keep1.Leaf")
add("a", 11, F.TYPE_BOOL, oneof_index=1)
add("b", 12, F.TYPE_BYTES, oneof_index=1)
add("wrapped", 13, F.TYPE_MESSAGE, type_name=".google.protobuf.Int64Value")
add("ts", 14, F.TYPE_MESSAGE, type_name=".google.protobuf.Timestamp")
add("dur", 15, F.TYPE_MESSAGE, type_name=".google.protobuf.Duration")
le = node_d.nested_type.add(name="LeavesEntry")
le.options.map_entry = True
le.field.add(name="key", number=1, type=F.TYPE_SINT32, label=F.LABEL_OPTIONAL)
le.field.add(
    name="value", number=2, type=F.TYPE_MESSAGE, label=F.LABEL_OPTIONAL,
    type_name=".keep1.Leaf",
)
add("leaves", 16, F.TYPE_MESSAGE, F.LABEL_REPEATED, type_name=".keep1.Node.LeavesEntry")
add("e", 17, F.TYPE_MESSAGE, type_name=".keep1.Empty")
add("colors", 18, F.TYPE_ENUM, F.LABEL_REPEATED, type_name=".keep1.Color")
add("d", 19, F.TYPE_DOUBLE)

pool = descriptor_pool.Default()
pool.Add(fdp)
PbNode = message_factory.GetMessageClass(pool.FindMessageTypeByName("keep1.Node"))

INTS32 = [0, 1, -1, 127, 128, -128, 2**31 - 1, -(2**31), 300, -300]
INTS64 = [0, 1, -1, 2**63 - 1, -(2**63), 2**32, -(2**32), 2**56, 129]
STRS = ["", "a", "\U0001F600", "é中", "x" * 200, "\x00"]
ENUMS = [0, 1, -5, 77, -(2**31), 2**31 - 1]
rng = random.Random(20240611)


def rand_leaf():
    return Leaf(n=rng.choice(INTS64), s=rng.choice(STRS))


def rand_node(depth=0):
    m = Node()
    if rng.random() < 0.6:
        m.i32 = rng.choice(INTS32)
    pick = rng.choice(CHOICE + [None])
    if pick == "text":
        m.text = rng.choice(STRS)
    elif pick == "num":
        m.num = rng.choice(INTS32)
    elif pick == "leaf":
        m.leaf = rand_leaf() if rng.random() < 0.7 else Leaf()
    elif pick == "color":
        m.color = Color.try_value(rng.choice(ENUMS))
    pick = rng.choice(SECOND + [None])
    if pick == "a":
        m.a = rng.random() < 0.5
    elif pick == "b":
        m.b = rng.choice([b"", b"\x00", b"\xff" * 130])
    if rng.random() < 0.5:
        m.packed = [rng.choice(INTS64) for _ in range(rng.randrange(0, 5))]
    if rng.random() < 0.5:
        for _ in range(rng.randrange(0, 4)):
            m.counts[rng.choice(STRS)] = rng.choice(INTS32)
    if rng.random() < 0.4:
        m.opt = rng.choice(INTS32)
    if rng.random() < 0.4:
        m.wrapped = rng.choice(INTS64)
    if rng.random() < 0.4:
        m.ts = datetime(1970, 1, 1, tzinfo=timezone.utc) + timedelta(
            seconds=rng.choice([0, 1, -1, 1697017272, -(10**10), 8 * 10**9]),
            microseconds=rng.choice([0, 1, 999999, 500000]),
        )
    if rng.random() < 0.4:
        m.dur = timedelta(
            seconds=rng.choice([0, 1, -1, 10**9, -(10**9)]),
            microseconds=rng.choice([0, 1, -1, 999999, -500000]),
        )
    if rng.random() < 0.4:
        for _ in range(rng.randrange(0, 3)):
            m.leaves[rng.choice([0, 1, -1, 2**31 - 1, -(2**31)])] = rand_leaf()
    if rng.random() < 0.3:
        m.e = Empty()
    if rng.random() < 0.4:
        m.colors = [Color.try_value(rng.choice(ENUMS)) for _ in range(rng.randrange(0, 4))]
    if rng.random() < 0.4:
        m.d = rng.choice([0.0, 1.5, -2.25, float("inf"), float("-inf"), float("nan"), 5e-324])
    if rng.random() < 0.3:
        m.plain_leaf = rand_leaf()
    if depth < 3 and rng.random() < 0.5:
        m.child = rand_node(depth + 1)
    return m


def selected_state(m):
    out = []
    for group in ("choice", "second"):
        name, value = which_one_of(m, group)
        out.append((group, name, value))
        members = CHOICE if group == "choice" else SECOND
        for other in members:
            if other != name:
                expect_unselected(m, other, group, name or None)
    return out


def presence(m):
    """Presence of the message-typed members as the public API reports it."""
    out = {"opt": m.opt, "wrapped": m.wrapped}
    for name in ("child", "plain_leaf", "e"):
        out[name] = serialized_on_wire(getattr(m, name))
    return out


for i in range(1500):
    m = rand_node()
    data = bytes(m)
    assert len(m) == len(data)
    back = Node().parse(data)
    assert back == m, (i, m, back)
    assert bytes(back) == data
    sm, sb = selected_state(m), selected_state(back)
    assert [(g, n) for g, n, _ in sm] == [(g, n) for g, n, _ in sb]
    for (_, _, v1), (_, _, v2) in zip(sm, sb):
        assert v1 == v2
    pm, pb = presence(m), presence(back)
    assert pm["opt"] == pb["opt"] and pm["wrapped"] == pb["wrapped"]
    for name in ("child", "plain_leaf", "e"):
        # what was sent present arrives present
        if pm[name]:
            assert pb[name]

    # google.protobuf accepts the bytes, agrees on the oneofs and gives back
    # bytes that decode to the same message
    ref = PbNode()
    ref.ParseFromString(data)
    assert ref.WhichOneof("choice") == (which_one_of(m, "choice")[0] or None)
    assert ref.WhichOneof("second") == (which_one_of(m, "second")[0] or None)
    assert ref.HasField("opt") == (m.opt is not None)
    assert ref.HasField("wrapped") == (m.wrapped is not None)
    assert ref.i32 == m.i32 and list(ref.packed) == m.packed
    assert dict(ref.counts) == m.counts
    again = Node().parse(ref.SerializeToString())
    assert again == m, (i, m, again)
    assert [(g, n) for g, n, _ in selected_state(again)] == [(g, n) for g, n, _ in sm]

print("ok")
