"""Equivalence check for the Message.__eq__ / Message.__bool__ refactor (property C04).

The round-trip property is stated with message equality, and to_dict decides whether a
sub-message is emitted with bool(value).  This script compares both operations with
verbatim copies of the original implementations on many message pairs (unset fields,
defaults, NaNs, nested / repeated / map / oneof / optional members) and re-checks the
round trip itself.  Exits 0 on the pristine tree and on the refactored tree.
"""
import itertools
import json
import math
import random
from dataclasses import dataclass
from datetime import datetime, timedelta, timezone
from typing import Dict, List, Optional

import betterproto
from betterproto import PLACEHOLDER, Casing


class Color(betterproto.Enum):
    ZERO = 0
    RED = 1
    BLUE = 7


@dataclass(eq=False, repr=False)
class Empty(betterproto.Message):
    pass


@dataclass(eq=False, repr=False)
class Leaf(betterproto.Message):
    n: int = betterproto.int32_field(1)
    f: float = betterproto.double_field(2)
    s: str = betterproto.string_field(3)


@dataclass(eq=False, repr=False)
class Big(betterproto.Message):
    i32: int = betterproto.int32_field(1)
    i64: int = betterproto.int64_field(2)
    u64: int = betterproto.uint64_field(3)
    flt: float = betterproto.float_field(4)
    dbl: float = betterproto.double_field(5)
    flag: bool = betterproto.bool_field(6)
    text: str = betterproto.string_field(7)
    raw: bytes = betterproto.bytes_field(8)
    color: "Color" = betterproto.enum_field(9)
    leaf: "Leaf" = betterproto.message_field(10)
    leaves: List["Leaf"] = betterproto.message_field(11)
    nums: List[int] = betterproto.sint64_field(12)
    dbls: List[float] = betterproto.double_field(13)
    by_name: Dict[str, "Leaf"] = betterproto.map_field(
        14, betterproto.TYPE_STRING, betterproto.TYPE_MESSAGE
    )
    by_num: Dict[int, float] = betterproto.map_field(
        15, betterproto.TYPE_INT64, betterproto.TYPE_DOUBLE
    )
    ts: datetime = betterproto.message_field(16)
    dur: timedelta = betterproto.message_field(17)
    wrapped: Optional[int] = betterproto.message_field(
        18, wraps=betterproto.TYPE_INT64
    )
    opt_i: Optional[int] = betterproto.int32_field(19, optional=True)
    opt_f: Optional[float] = betterproto.double_field(20, optional=True)
    opt_leaf: Optional["Leaf"] = betterproto.message_field(21, optional=True)
    a_int: int = betterproto.int32_field(22, group="pick")
    a_str: str = betterproto.string_field(23, group="pick")
    a_leaf: "Leaf" = betterproto.message_field(24, group="pick")
    a_dbl: float = betterproto.double_field(25, group="pick")
    a_empty: "Empty" = betterproto.message_field(26, group="pick")
    colors: List["Color"] = betterproto.enum_field(27)


def raw_get(msg, name):
    return object.__getattribute__(msg, name)


def ref_eq(self, other):
    """Verbatim copy of the original Message.__eq__."""
    if type(self) is not type(other):
        return NotImplemented

    for field_name in self._betterproto.meta_by_field_name:
        self_val = raw_get(self, field_name)
        other_val = raw_get(other, field_name)
        if self_val is PLACEHOLDER:
            if other_val is PLACEHOLDER:
                continue
            self_val = self._get_field_default(field_name)
        elif other_val is PLACEHOLDER:
            other_val = other._get_field_default(field_name)

        if self_val != other_val:
            if (
                isinstance(self_val, float)
                and isinstance(other_val, float)
                and math.isnan(self_val)
                and math.isnan(other_val)
            ):
                continue
            else:
                return False

    return True


def ref_bool(self):
    """Verbatim copy of the original Message.__bool__."""
    return any(
        raw_get(self, field_name)
        not in (PLACEHOLDER, self._get_field_default(field_name))
        for field_name in self._betterproto.meta_by_field_name
    )


NAN = float("nan")
INF = float("inf")
FLOATS = [0.0, -0.0, 1.5, -2.25, NAN, float("nan"), INF, -INF, 1e-300, 5e-324]
INTS64 = [0, 1, -1, 2**31, -(2**31), 2**53 + 1, 2**63 - 1, -(2**63)]
TIMES = [
    datetime(1970, 1, 1, tzinfo=timezone.utc),
    datetime(2020, 2, 29, 12, 30, 15, 250000, tzinfo=timezone.utc),
    datetime(1969, 12, 31, 23, 59, 59, 999999, tzinfo=timezone.utc),
    datetime(1, 1, 1, tzinfo=timezone.utc),
    datetime(9999, 12, 31, 23, 59, 59, 1, tzinfo=timezone.utc),
]
DELTAS = [
    timedelta(0),
    timedelta(seconds=1, microseconds=500000),
    timedelta(microseconds=-1),
    timedelta(days=-3, microseconds=7),
    timedelta(days=3650, seconds=5, microseconds=123000),
]


def leaf(rng):
    kind = rng.randrange(6)
    if kind == 0:
        return Leaf()
    if kind == 1:
        return Leaf(n=0, f=0.0, s="")
    if kind == 2:
        return Leaf(f=NAN)
    return Leaf(
        n=rng.choice([0, 1, -5, 2**31 - 1]),
        f=rng.choice(FLOATS),
        s=rng.choice(["", "x", "zażółć"]),
    )


# name -> list of value factories.  Each message draws a random subset of the fields;
# fields that are not drawn stay PLACEHOLDER (or None for optional ones).
CHOICES = {
    "i32": lambda r: r.choice([0, 1, -1, 2**31 - 1, -(2**31)]),
    "i64": lambda r: r.choice(INTS64),
    "u64": lambda r: r.choice([0, 1, 2**64 - 1, 2**63]),
    "flt": lambda r: r.choice([0.0, -0.0, 1.5, NAN, INF, -INF]),
    "dbl": lambda r: r.choice(FLOATS),
    "flag": lambda r: r.choice([False, True]),
    "text": lambda r: r.choice(["", "a", "snake_case", "ünï"]),
    "raw": lambda r: r.choice([b"", b"\x00", b"\xff\xfe" * 5]),
    "color": lambda r: r.choice(
        [Color.ZERO, Color.RED, Color.BLUE, 0, 1, 7, Color.try_value(0)]
    ),
    "leaf": leaf,
    "leaves": lambda r: [leaf(r) for _ in range(r.randrange(3))],
    "nums": lambda r: [r.choice(INTS64) for _ in range(r.randrange(4))],
    "dbls": lambda r: [r.choice(FLOATS) for _ in range(r.randrange(4))],
    "by_name": lambda r: {
        r.choice(["", "k", "K2"]): leaf(r) for _ in range(r.randrange(3))
    },
    "by_num": lambda r: {
        r.choice(INTS64): r.choice([0.0, 2.5, INF, -INF]) for _ in range(r.randrange(3))
    },
    "ts": lambda r: r.choice(TIMES),
    "dur": lambda r: r.choice(DELTAS),
    "wrapped": lambda r: r.choice([None, 0, 5, -(2**63)]),
    "opt_i": lambda r: r.choice([None, 0, 3]),
    "opt_f": lambda r: r.choice([None, 0.0, NAN, -INF]),
    "opt_leaf": lambda r: r.choice([None, Leaf(), Leaf(n=2)]),
    "colors": lambda r: [
        r.choice([Color.ZERO, Color.RED, Color.BLUE]) for _ in range(r.randrange(3))
    ],
}
ONEOF = {
    "a_int": lambda r: r.choice([0, 4]),
    "a_str": lambda r: r.choice(["", "s"]),
    "a_leaf": leaf,
    "a_dbl": lambda r: r.choice([0.0, NAN, 2.0]),
    "a_empty": lambda r: Empty(),
}


def make(rng, density):
    kwargs = {
        name: gen(rng) for name, gen in CHOICES.items() if rng.random() < density
    }
    if rng.random() < 0.6:
        name = rng.choice(sorted(ONEOF))
        kwargs[name] = ONEOF[name](rng)
    return Big(**kwargs)


def check_pair(a, b):
    expected = ref_eq(a, b)
    assert a.__eq__(b) is expected, (a, b)
    assert (a == b) is (expected is True), (a, b)
    assert (a != b) is (expected is not True), (a, b)
    expected_rev = ref_eq(b, a)
    assert b.__eq__(a) is expected_rev, (a, b)


def check_bool(m):
    assert bool(m) is ref_bool(m), m
    assert m.__bool__() is ref_bool(m), m


def check_round_trip(m):
    wire = bytes(m)
    for casing in (Casing.CAMEL, Casing.SNAKE):
        d = m.to_dict(casing=casing)
        json.dumps(d)
        back = type(m).from_dict(d)
        assert back == m and ref_eq(back, m) is True, (m, d)
        assert bytes(back) == wire
        inst = type(m)().from_dict(d)
        assert inst == m and ref_eq(inst, m) is True, (m, d)
        assert bytes(inst) == wire
        text = m.to_json(casing=casing)
        viaj = type(m)().from_json(text)
        assert viaj == m and ref_eq(viaj, m) is True, (m, text)
        assert bytes(viaj) == wire


def main():
    rng = random.Random(20240404)
    msgs = []
    for density in (0.0, 0.1, 0.3, 0.6, 1.0):
        msgs += [make(rng, density) for _ in range(60)]

    # explicit-default twins: every field given its zero value vs. nothing given
    zero = Big(
        i32=0, i64=0, u64=0, flt=0.0, dbl=0.0, flag=False, text="", raw=b"",
        color=Color.ZERO, leaf=Leaf(), leaves=[], nums=[], dbls=[], by_name={},
        by_num={}, ts=TIMES[0], dur=timedelta(0), colors=[],
    )
    msgs += [Big(), zero, Big(dbl=NAN), Big(dbl=float("nan")), Big(dbls=[NAN])]
    msgs += [Big(a_int=0), Big(a_str=""), Big(a_dbl=NAN), Big(a_empty=Empty())]
    msgs += [Big(opt_f=NAN), Big(opt_i=0), Big(opt_leaf=Leaf()), Big(leaf=Leaf(f=NAN))]
    # one-field-at-a-time messages: explicit zero and a non-zero value
    for name, gen in list(CHOICES.items()) + list(ONEOF.items()):
        for _ in range(4):
            msgs.append(Big(**{name: gen(rng)}))
    # touched-by-getattr messages (lazily materialised mutable defaults)
    touched = Big()
    touched.leaf, touched.leaves, touched.by_name, touched.ts
    msgs.append(touched)
    # field assigned after construction, and oneof switched
    later = Big(a_int=3)
    later.a_str = ""
    later.dbl = NAN
    msgs.append(later)

    pairs = 0
    for a, b in itertools.product(msgs, repeat=2):
        if rng.random() < 0.12 or a is b:
            check_pair(a, b)
            pairs += 1
    for m in msgs:
        check_pair(m, m)
        check_bool(m)
        for sub in (m.leaf, *m.leaves, *m.by_name.values()):
            check_bool(sub)

    # different types -> NotImplemented -> == is False
    assert Big().__eq__(Leaf()) is NotImplemented
    assert ref_eq(Big(), Leaf()) is NotImplemented
    assert (Big() == Leaf()) is False and (Big() != Leaf()) is True
    assert (Leaf() == 0) is False and (Empty() == Empty()) is True
    assert bool(Empty()) is False and bool(Leaf()) is False and bool(Leaf(n=0)) is False
    assert bool(Leaf(f=NAN)) is True and bool(Leaf(f=-0.0)) is False
    assert bool(Big(a_empty=Empty())) is False and bool(Big(a_int=0)) is False
    assert bool(Big(opt_i=0)) is True and bool(Big(opt_i=None)) is False
    assert bool(Big(leaf=Leaf())) is False and bool(Big(leaf=Leaf(n=1))) is True
    assert bool(Big(leaves=[Leaf()])) is True and bool(Big(wrapped=0)) is True
    assert Big(dbl=NAN) == Big(dbl=float("nan")) and Big(dbl=NAN) != Big(dbl=0.0)
    assert Big(dbls=[NAN]) == Big(dbls=[NAN])  # same object: list identity shortcut
    assert Big(dbls=[NAN]) != Big(dbls=[float("nan")])
    assert Big() == zero and zero == Big()
    assert Big(a_int=0) == Big() and Big(opt_i=0) != Big()

    # small Leaf domain exhaustively (all pairs)
    leaves = [Leaf()] + [
        Leaf(**kw)
        for n in (None, 0, 1)
        for f in (None, 0.0, NAN, 1.0)
        for s in (None, "", "x")
        for kw in [{k: v for k, v in (("n", n), ("f", f), ("s", s)) if v is not None}]
    ]
    for a, b in itertools.product(leaves, repeat=2):
        check_pair(a, b)
        pairs += 1
    for m in leaves:
        check_bool(m)

    rt = 0
    for m in msgs:
        # a NaN inside a plain list compares by identity (list.__eq__), so such a
        # message is not equal to any reconstruction of itself; not this refactor's topic
        if any(isinstance(x, float) and math.isnan(x) for x in m.dbls):
            continue
        check_round_trip(m)
        rt += 1
    print(f"ok: {pairs} pairs, {len(msgs) + len(leaves)} bool checks, {rt} round trips")


if __name__ == "__main__":
    main()
