"""Writer side of C10 (what dump writes and what __len__ announces as the SIZE_DELIMITED
prefix) for messages with oneof groups, proto3 optional fields, empty members, nested and
repeated fields - compared against google.protobuf built from the same schema."""
import io
import itertools
from dataclasses import dataclass
from datetime import datetime, timedelta, timezone
from typing import Dict, List, Optional

import betterproto
from betterproto import SIZE_DELIMITED, which_one_of
from google.protobuf import descriptor_pb2, descriptor_pool, message_factory
from google.protobuf import proto as gproto


# ---------------------------------------------------------------- betterproto schema
@dataclass(eq=False, repr=False)
class Sub(betterproto.Message):
    v: int = betterproto.int32_field(1)


@dataclass(eq=False, repr=False)
class M(betterproto.Message):
    s: str = betterproto.string_field(1, group="grp")
    i: int = betterproto.int32_field(2, group="grp")
    b: bytes = betterproto.bytes_field(3, group="grp")
    sub: Sub = betterproto.message_field(4, group="grp")
    oi: Optional[int] = betterproto.int32_field(5, optional=True)
    os: Optional[str] = betterproto.string_field(6, optional=True)
    plain: str = betterproto.string_field(7)
    xs: List[int] = betterproto.int32_field(8)
    mp: Dict[str, int] = betterproto.map_field(
        9, betterproto.TYPE_STRING, betterproto.TYPE_INT32
    )
    child: Sub = betterproto.message_field(10)


class Color(betterproto.Enum):
    ZERO = 0
    ONE = 1


@dataclass(eq=False, repr=False)
class X(betterproto.Message):
    """No google twin: checked for self-consistency only."""

    f: float = betterproto.double_field(1, group="g")
    t: bool = betterproto.bool_field(2, group="g")
    e: Color = betterproto.enum_field(3, group="g")
    w: Optional[int] = betterproto.message_field(
        4, wraps=betterproto.TYPE_INT32, group="g"
    )
    ws: Optional[str] = betterproto.message_field(
        5, wraps=betterproto.TYPE_STRING, group="g"
    )
    ts: datetime = betterproto.message_field(6, group="g")
    d: timedelta = betterproto.message_field(7, group="g")
    z: int = betterproto.sint64_field(8, group="g")
    fx: int = betterproto.fixed32_field(9, group="g")
    og: Optional[int] = betterproto.int32_field(20, optional=True, group="_og")
    osg: Optional[str] = betterproto.string_field(21, optional=True, group="_osg")
    ob: Optional[bytes] = betterproto.bytes_field(22, optional=True)
    om: Optional[Sub] = betterproto.message_field(23, optional=True)
    h1: str = betterproto.string_field(30, group="h")
    h2: str = betterproto.string_field(31, group="h")
    tail: str = betterproto.string_field(40)


# ---------------------------------------------------------------- google twin of M / Sub
def build_google():
    F = descriptor_pb2.FieldDescriptorProto
    fp = descriptor_pb2.FileDescriptorProto(
        name="c10_keep1.proto", package="c10k1", syntax="proto3"
    )
    sub = fp.message_type.add(name="Sub")
    sub.field.add(name="v", number=1, type=F.TYPE_INT32, label=F.LABEL_OPTIONAL)
    m = fp.message_type.add(name="M")
    m.oneof_decl.add(name="grp")
    m.oneof_decl.add(name="_oi")
    m.oneof_decl.add(name="_os")
    m.field.add(name="s", number=1, type=F.TYPE_STRING, label=F.LABEL_OPTIONAL, oneof_index=0)
    m.field.add(name="i", number=2, type=F.TYPE_INT32, label=F.LABEL_OPTIONAL, oneof_index=0)
    m.field.add(name="b", number=3, type=F.TYPE_BYTES, label=F.LABEL_OPTIONAL, oneof_index=0)
    m.field.add(name="sub", number=4, type=F.TYPE_MESSAGE, type_name=".c10k1.Sub",
                label=F.LABEL_OPTIONAL, oneof_index=0)
    m.field.add(name="oi", number=5, type=F.TYPE_INT32, label=F.LABEL_OPTIONAL,
                oneof_index=1, proto3_optional=True)
    m.field.add(name="os", number=6, type=F.TYPE_STRING, label=F.LABEL_OPTIONAL,
                oneof_index=2, proto3_optional=True)
    m.field.add(name="plain", number=7, type=F.TYPE_STRING, label=F.LABEL_OPTIONAL)
    m.field.add(name="xs", number=8, type=F.TYPE_INT32, label=F.LABEL_REPEATED)
    entry = m.nested_type.add(name="MpEntry")
    entry.options.map_entry = True
    entry.field.add(name="key", number=1, type=F.TYPE_STRING, label=F.LABEL_OPTIONAL)
    entry.field.add(name="value", number=2, type=F.TYPE_INT32, label=F.LABEL_OPTIONAL)
    m.field.add(name="mp", number=9, type=F.TYPE_MESSAGE, type_name=".c10k1.M.MpEntry",
                label=F.LABEL_REPEATED)
    m.field.add(name="child", number=10, type=F.TYPE_MESSAGE, type_name=".c10k1.Sub",
                label=F.LABEL_OPTIONAL)
    pool = descriptor_pool.DescriptorPool()
    pool.Add(fp)
    return (
        message_factory.GetMessageClass(pool.FindMessageTypeByName("c10k1.M")),
        message_factory.GetMessageClass(pool.FindMessageTypeByName("c10k1.Sub")),
    )


GM, GSub = build_google()


def varint(n):
    out = bytearray()
    while True:
        b = n & 0x7F
        n >>= 7
        if n:
            out.append(b | 0x80)
        else:
            out.append(b)
            return bytes(out)


ONEOF = [
    None,
    ("s", ""),
    ("s", "x" * 127),
    ("i", 0),
    ("i", -5),
    ("b", b""),
    ("b", b"zz"),
    ("sub", None),  # empty sub-message selected
    ("sub", 0),
    ("sub", 3),
]
OI = [None, 0, 7]
OS = [None, "", "t"]
PLAIN = ["", "p"]
XS = [[], [0], [1, -2, 300]]
MP = [{}, {"k": 1}, {"key": -1}]
CHILD = ["unset", "empty", 2]


def make_pair(one, oi, os_, plain, xs, mp, child):
    kw = {}
    g = GM()
    if one is not None:
        name, val = one
        if name == "sub":
            kw["sub"] = Sub() if val is None else Sub(v=val)
            g.sub.SetInParent()
            if val:
                g.sub.v = val
        else:
            kw[name] = val
            setattr(g, name, val)
    if oi is not None:
        kw["oi"] = oi
        g.oi = oi
    if os_ is not None:
        kw["os"] = os_
        g.os = os_
    if plain:
        kw["plain"] = plain
        g.plain = plain
    if xs:
        kw["xs"] = list(xs)
        g.xs.extend(xs)
    if mp:
        kw["mp"] = dict(mp)
        for k, v in mp.items():
            g.mp[k] = v
    if child == "empty":
        g.child.SetInParent()
    elif child != "unset":
        kw["child"] = Sub(v=child)
        g.child.v = child
    return kw, g


def check_one(bm, ref_bytes, selected):
    body = bytes(bm)
    assert body == ref_bytes, (bm, body, ref_bytes)
    assert len(bm) == len(body), (bm, len(bm), len(body))
    out = io.BytesIO()
    bm.dump(out, SIZE_DELIMITED)
    assert out.getvalue() == varint(len(body)) + body
    assert which_one_of(bm, "grp")[0] == selected, (bm, selected)


def main():
    # golden bytes for the zero-valued selected members / optional fields
    golden = [
        (M(), b""),
        (M(s=""), b"\x0a\x00"),
        (M(i=0), b"\x10\x00"),
        (M(b=b""), b"\x1a\x00"),
        (M(sub=Sub()), b"\x22\x00"),
        (M(oi=0), b"\x28\x00"),
        (M(os=""), b"\x32\x00"),
        (M(s="", oi=0, os="", plain=""), b"\x0a\x00\x28\x00\x32\x00"),
    ]
    for m, expected in golden:
        assert bytes(m) == expected, (m, bytes(m))
        assert len(m) == len(expected)
    for mp in ({"": 0}, {"": 3}, {"a": 0}, {"a": 1, "": 0}):
        m = M(mp=dict(mp), s="")
        assert len(m) == len(bytes(m)) and M().parse(bytes(m)).mp == mp
        assert which_one_of(M().parse(bytes(m)), "grp") == ("s", "")
    m = M(s="abc")
    m.s = ""
    assert bytes(m) == b"\x0a\x00" and len(m) == 2
    m.i = 0
    assert bytes(m) == b"\x10\x00" and len(m) == 2 and which_one_of(m, "grp") == ("i", 0)

    combos = list(itertools.product(ONEOF, OI, OS, PLAIN, XS, MP, CHILD))
    frames = []  # (betterproto message, google message, selected member)
    for n, (one, oi, os_, plain, xs, mp, child) in enumerate(combos):
        kw, g = make_pair(one, oi, os_, plain, xs, mp, child)
        ref = g.SerializeToString(deterministic=True)
        selected = one[0] if one else ""
        assert (g.WhichOneof("grp") or "") == selected
        if child != "empty":
            # built through the constructor ...
            check_one(M(**kw), ref, selected)
            # ... and through attribute assignment
            am = M()
            for k, v in kw.items():
                setattr(am, k, v)
            check_one(am, ref, selected)
        # ... and as received from the wire
        pm = M().parse(ref)
        check_one(pm, ref, selected)
        if n % 7 == 0:
            frames.append((pm, g, selected))

    # delimited streams of these messages: both implementations read both writers
    for start in range(0, len(frames), 25):
        chunk = frames[start : start + 25]
        ours, theirs = io.BytesIO(), io.BytesIO()
        ends = []
        for bm, g, _ in chunk:
            bm.dump(ours, SIZE_DELIMITED)
            ends.append(ours.tell())
            gproto.serialize_length_prefixed(g, theirs)
        assert ours.getvalue() == theirs.getvalue()
        ours.seek(0)
        for (bm, g, sel), end in zip(chunk, ends):
            back = M().load(ours, SIZE_DELIMITED)
            assert ours.tell() == end
            assert back == bm and bytes(back) == bytes(bm)
            assert which_one_of(back, "grp")[0] == sel
        ours.seek(0)
        for bm, g, sel in chunk:
            gb = gproto.parse_length_prefixed(GM, ours)
            assert gb == g and (gb.WhichOneof("grp") or "") == sel

    # the schema without a google twin: zero-valued members of every kind
    epoch = datetime(1970, 1, 1, tzinfo=timezone.utc)
    members = [
        {},
        {"f": 0.0}, {"f": -0.0}, {"f": 1.5}, {"f": float("nan")},
        {"t": False}, {"t": True},
        {"e": Color.ZERO}, {"e": Color.ONE},
        {"w": 0}, {"w": 9}, {"ws": ""}, {"ws": "s"},
        {"ts": epoch}, {"ts": datetime(2020, 5, 17, 1, 2, 3, tzinfo=timezone.utc)},
        {"d": timedelta(0)}, {"d": timedelta(seconds=-3, microseconds=5)},
        {"z": 0}, {"z": -64}, {"fx": 0}, {"fx": 77},
    ]
    opts = [
        {}, {"og": 0}, {"og": 5}, {"osg": ""}, {"osg": "q"}, {"ob": b""}, {"ob": b"b"},
        {"om": Sub()}, {"om": Sub(v=0)}, {"om": Sub(v=4)},
        {"og": 0, "osg": "", "ob": b"", "om": Sub()},
    ]
    hs = [{}, {"h1": ""}, {"h2": ""}, {"h2": "hh"}]
    tails = [{}, {"tail": "x" * 126}]
    seq = []
    for a, b, c, d in itertools.product(members, opts, hs, tails):
        kw = {**a, **b, **c, **d}
        x = X(**kw)
        body = bytes(x)
        assert len(x) == len(body), (kw, len(x), len(body))
        # a selected member is always on the wire, whatever its value
        for group, chosen in (("g", a), ("h", c)):
            name = next(iter(chosen), "")
            assert which_one_of(x, group)[0] == name
        if a:
            assert body, kw
        back = X().parse(body)
        assert bytes(back) == body and len(back) == len(body)
        assert which_one_of(back, "g")[0] == next(iter(a), "")
        assert which_one_of(back, "h")[0] == next(iter(c), "")
        for k in b:
            assert betterproto.serialized_on_wire(back) and getattr(back, k) is not None, (kw, k)
        seq.append(x)
    stream = io.BytesIO()
    ends = []
    for x in seq:
        x.dump(stream, SIZE_DELIMITED)
        ends.append(stream.tell())
    assert stream.getvalue() == b"".join(varint(len(bytes(x))) + bytes(x) for x in seq)
    stream.seek(0)
    for x, end in zip(seq, ends):
        back = X().load(stream, SIZE_DELIMITED)
        assert stream.tell() == end
        assert bytes(back) == bytes(x)
        assert which_one_of(back, "g")[0] == which_one_of(x, "g")[0]
        assert which_one_of(back, "h")[0] == which_one_of(x, "h")[0]
    assert stream.read() == b""

    # a few exact encodings in X
    assert bytes(X(f=0.0)) == b"\x09" + bytes(8)
    assert bytes(X(t=False)) == b"\x10\x00"
    assert bytes(X(e=Color.ZERO)) == b"\x18\x00"
    assert bytes(X(ws="")) == b"\x2a\x00"
    assert bytes(X(h2="")) == b"\xfa\x01\x00"
    assert bytes(X(og=0)) == b"\xa0\x01\x00"
    assert bytes(X(osg="")) == b"\xaa\x01\x00"
    assert bytes(X(ob=b"")) == b"\xb2\x01\x00"
    print("C10 keep1 equiv: ok", len(combos), len(seq))


if __name__ == "__main__":
    main()
