"""Equivalence checks for Message.__copy__ / Message.__deepcopy__.

Random operation histories are applied to messages with several oneof groups; after
every step the message is copied / deep-copied / pickled and the copies are checked
against a simple model (group -> (member, value)) and against the original:
selection, attribute access, raw slots, encoding, to_dict, flags, unknown fields,
sharing (shallow) vs. independence (deep) of children, independence of the oneof
bookkeeping.
"""
import copy
import pickle
import random
from dataclasses import dataclass
from typing import Dict, List

import betterproto
from betterproto import PLACEHOLDER, which_one_of


class Kind(betterproto.Enum):
    ZERO = 0
    ONE = 1
    TWO = 2


@dataclass(eq=False, repr=False)
class Empty(betterproto.Message):
    pass


@dataclass(eq=False, repr=False)
class Sub(betterproto.Message):
    val: int = betterproto.int32_field(1)
    a: int = betterproto.int32_field(2, group="inner")
    b: str = betterproto.string_field(3, group="inner")


@dataclass(eq=False, repr=False)
class Msg(betterproto.Message):
    # declared in an order different from the field numbers on purpose
    text: str = betterproto.string_field(3, group="g1")
    num: int = betterproto.int32_field(2, group="g1")
    sub: Sub = betterproto.message_field(4, group="g1")
    nothing: Empty = betterproto.message_field(9, group="g1")
    plain: int = betterproto.int32_field(1)
    kind: Kind = betterproto.enum_field(5, group="g2")
    flag: bool = betterproto.bool_field(6, group="g2")
    blob: bytes = betterproto.bytes_field(7, group="g2")
    dbl: float = betterproto.double_field(8, group="g2")
    child: Sub = betterproto.message_field(10)
    hollow: Empty = betterproto.message_field(11)
    items: List[int] = betterproto.int32_field(12)
    subs: List[Sub] = betterproto.message_field(13)
    table: Dict[str, Sub] = betterproto.map_field(
        14, betterproto.TYPE_STRING, betterproto.TYPE_MESSAGE
    )
    single: int = betterproto.sint64_field(15, group="g3")


GROUPS = {
    "g1": ("text", "num", "sub", "nothing"),
    "g2": ("kind", "flag", "blob", "dbl"),
    "g3": ("single",),
}
GROUP_OF = {m: g for g, ms in GROUPS.items() for m in ms}
FIELDS = [f for f in Msg.__dataclass_fields__]
NUMBER = {
    name: betterproto.FieldMetadata.get(f).number
    for name, f in Msg.__dataclass_fields__.items()
}

VALUES = {
    "text": lambda r: r.choice(["", "x", "héllo"]),
    "num": lambda r: r.choice([0, 1, -1, 2**31 - 1]),
    "sub": lambda r: r.choice(
        [Sub, lambda: Sub(val=3), lambda: Sub(a=0), lambda: Sub(b="q", val=1)]
    )(),
    "nothing": lambda r: Empty(),
    "kind": lambda r: r.choice([Kind.ZERO, Kind.ONE, Kind.TWO]),
    "flag": lambda r: r.choice([False, True]),
    "blob": lambda r: r.choice([b"", b"\x00", b"abc"]),
    "dbl": lambda r: r.choice([0.0, 1.5, -2.0]),
    "single": lambda r: r.choice([0, -5, 2**40]),
}


def raw(msg, name):
    return object.__getattribute__(msg, name)


def check_model(msg, model, where):
    for group, members in GROUPS.items():
        exp = model.get(group)
        name, value = which_one_of(msg, group)
        if exp is None:
            assert (name, value) == ("", None), (where, group, name)
        else:
            assert name == exp[0] and value == exp[1], (where, group, name, value, exp)
        for member in members:
            if exp is not None and member == exp[0]:
                assert getattr(msg, member) == exp[1], (where, member)
            else:
                try:
                    getattr(msg, member)
                except AttributeError:
                    pass
                else:
                    raise AssertionError((where, member, "readable"))
    selected = sorted(NUMBER[e[0]] for e in model.values() if e is not None)
    oneof_numbers = {NUMBER[m] for m in GROUP_OF}
    on_wire = sorted(
        f.number for f in betterproto.parse_fields(bytes(msg)) if f.number in oneof_numbers
    )
    assert on_wire == selected, (where, on_wire, selected)
    keys = sorted(k for k in msg.to_dict(casing=betterproto.Casing.SNAKE) if k in GROUP_OF)
    assert keys == sorted(e[0] for e in model.values() if e is not None), (where, keys)


def child_flags(msg):
    out = {}
    for name in FIELDS:
        value = raw(msg, name)
        if isinstance(value, betterproto.Message):
            out[name] = value._serialized_on_wire
    return out


def check_copies(msg, model, where):
    flags_before = child_flags(msg)
    raw_before = {name: raw(msg, name) for name in FIELDS}
    data = bytes(msg)
    as_dict = msg.to_dict()
    as_dict_all = msg.to_dict(include_default_values=True)

    shallow = copy.copy(msg)
    deep = copy.deepcopy(msg)
    deep2 = copy.deepcopy(msg, {})  # explicit memo argument
    pickled = pickle.loads(pickle.dumps(msg))
    via_method = msg.__copy__()

    # copying does not disturb the original
    assert child_flags(msg) == flags_before, where
    for name in FIELDS:
        assert raw(msg, name) is raw_before[name], (where, name)
    assert bytes(msg) == data and msg.to_dict() == as_dict, where

    for label, dup in (
        ("copy", shallow),
        ("deepcopy", deep),
        ("deepcopy-memo", deep2),
        ("__copy__", via_method),
    ):
        w = f"{where} [{label}]"
        assert type(dup) is Msg and dup is not msg, w
        check_model(dup, model, w)
        assert dup == msg, w
        assert bytes(dup) == data, w
        assert len(dup) == len(data), w
        assert dup.to_dict() == as_dict, w
        assert dup.to_dict(include_default_values=True) == as_dict_all, w
        assert repr(dup) == repr(msg), w
        assert dup._unknown_fields == msg._unknown_fields, w
        assert dup._serialized_on_wire == msg._serialized_on_wire, w
        assert dup._group_current == msg._group_current, w
        assert dup._group_current is not msg._group_current, w
        assert list(dup._group_current) == list(msg._group_current), w
        assert set(dup.__dict__) == set(msg.__dict__), w
        for name in FIELDS:
            mine, theirs = raw(dup, name), raw(msg, name)
            if theirs is PLACEHOLDER:
                assert mine is PLACEHOLDER, (w, name)
                continue
            assert mine is not PLACEHOLDER, (w, name)
            assert mine == theirs, (w, name)
            if label in ("copy", "__copy__"):
                assert mine is theirs, (w, name, "shallow copy shares values")
            elif isinstance(theirs, (betterproto.Message, list, dict)):
                assert mine is not theirs, (w, name, "deep copy must not share")
            if isinstance(theirs, betterproto.Message):
                assert mine._serialized_on_wire == theirs._serialized_on_wire, (w, name)
            if isinstance(theirs, list):
                for x, y in zip(mine, theirs):
                    if isinstance(y, betterproto.Message):
                        assert (x is y) == (label in ("copy", "__copy__")), (w, name)
                        assert x._serialized_on_wire == y._serialized_on_wire, (w, name)

    check_model(pickled, model, where + " [pickle]")
    assert bytes(pickled) == data, where

    # the oneof bookkeeping of a copy is independent of the original
    for dup in (shallow, deep):
        twin = copy.copy(dup) if dup is shallow else copy.deepcopy(dup)
        twin.num = 41
        twin.flag = False
        check_model(dup, model, where + " [twin changed]")
        check_model(msg, model, where + " [twin changed, original]")
        m2 = dict(model, g1=("num", 41), g2=("flag", False))
        check_model(twin, m2, where + " [twin]")
    assert bytes(msg) == data, where


def random_history(seed: int, steps: int) -> None:
    r = random.Random(seed)
    msg, model = Msg(), {}
    for step in range(steps):
        op = r.choice(
            ["set", "set", "set", "plain", "construct", "parse", "from_dict", "copy",
             "deepcopy", "pickle", "read", "containers", "unknown"]
        )
        where = f"seed {seed} step {step} {op}"
        if op == "set":
            member = r.choice(list(GROUP_OF))
            value = VALUES[member](r)
            setattr(msg, member, value)
            model[GROUP_OF[member]] = (member, value)
        elif op == "plain":
            msg.plain = r.choice([0, 5])
        elif op == "construct":
            kwargs, model = {}, {}
            for group, members in GROUPS.items():
                if r.random() < 0.6:
                    member = r.choice(members)
                    kwargs[member] = VALUES[member](r)
                    model[group] = (member, kwargs[member])
            if r.random() < 0.3:
                kwargs["hollow"] = Empty()
            if r.random() < 0.3:
                kwargs["child"] = r.choice([Sub(), Sub(val=2)])
            msg = Msg(**kwargs)
        elif op == "parse":
            other, om = Msg(), {}
            for _ in range(r.randrange(0, 3)):
                member = r.choice(list(GROUP_OF))
                value = VALUES[member](r)
                setattr(other, member, value)
                om[GROUP_OF[member]] = (member, value)
            msg.parse(bytes(other))
            model.update(om)
        elif op == "from_dict":
            member = r.choice(list(GROUP_OF))
            value = VALUES[member](r)
            donor = Msg(**{member: value})
            msg.from_dict(donor.to_dict())
            model[GROUP_OF[member]] = (member, value)
        elif op == "copy":
            msg = copy.copy(msg)
        elif op == "deepcopy":
            msg = copy.deepcopy(msg)
        elif op == "pickle":
            msg = pickle.loads(pickle.dumps(msg))
        elif op == "read":
            # reading creates (and keeps) mutable defaults without setting anything
            msg.child, msg.hollow, msg.items, msg.subs, msg.table
            if model.get("g1", ("",))[0] == "sub":
                msg.sub.val
        elif op == "containers":
            msg.items.append(r.randrange(5))
            msg.subs.append(r.choice([Sub(), Sub(val=1), Sub(b="")]))
            msg.table[r.choice("ab")] = Sub(a=r.randrange(2))
            if r.random() < 0.5:
                msg.hollow = Empty()
            if r.random() < 0.5:
                msg.child.val = r.randrange(3)
        elif op == "unknown":
            msg.parse(b"\xa0\x06\x01")  # field 100, varint
        check_model(msg, model, where)
        check_copies(msg, model, where)


for seed in range(40):
    random_history(seed, 25)

# Constructor given several members of one group: the copy agrees with the original.
for kwargs in (
    dict(text="a", num=1),
    dict(num=1, text="a", sub=Sub(val=1), kind=Kind.ONE, dbl=0.0),
    dict(nothing=Empty(), text=""),
    dict(blob=b"", flag=False, kind=Kind.ZERO),
):
    m = Msg(**kwargs)
    for dup in (copy.copy(m), copy.deepcopy(m)):
        for group in GROUPS:
            assert which_one_of(dup, group) == which_one_of(m, group), (kwargs, group)
        assert bytes(dup) == bytes(m) and dup.to_dict() == m.to_dict(), kwargs
        for name in FIELDS:
            assert (raw(dup, name) is PLACEHOLDER) == (raw(m, name) is PLACEHOLDER)

# Field-less children keep their own flag through a copy of the parent.
m = Msg()
m.hollow  # materialised by reading only
assert m.hollow._serialized_on_wire is False
for dup in (copy.copy(m), copy.deepcopy(m)):
    assert m.hollow._serialized_on_wire is False
    assert raw(dup, "hollow")._serialized_on_wire is False
    assert bytes(dup) == b"" and dup.to_dict() == {}
m.hollow = Empty()
for dup in (copy.copy(m), copy.deepcopy(m)):
    assert raw(dup, "hollow")._serialized_on_wire is True
    assert bytes(dup) == bytes(m) == b"\x5a\x00"

# An untouched message copies to an untouched message.
for dup in (copy.copy(Msg()), copy.deepcopy(Msg())):
    assert all(raw(dup, n) is PLACEHOLDER for n in FIELDS)
    assert dup._serialized_on_wire is False and bytes(dup) == b""

# Nested messages are copied with their own oneof state.
outer = Msg(sub=Sub(b=""))
d = copy.deepcopy(outer)
assert which_one_of(d.sub, "inner") == ("b", "")
d.sub.a = 0
assert which_one_of(outer.sub, "inner") == ("b", "")
s = copy.copy(outer)
s.sub.a = 0  # shared child
assert which_one_of(outer.sub, "inner") == ("a", 0)

print("ok")
