"""Behaviour of Message.load (known/unknown classification, packed decoding,
repeated accumulation, unknown-field bookkeeping) checked against google.protobuf
as the reference encoder/decoder of the *newer* schema.  Must pass on the pristine
tree and with the Message.load refactor applied.
"""
import random
import struct
from dataclasses import dataclass
from io import BytesIO
from typing import Dict, List, Optional

from google.protobuf import descriptor_pb2, descriptor_pool, message_factory

import betterproto
from betterproto import encode_varint

rnd = random.Random(20808)
F = descriptor_pb2.FieldDescriptorProto

# ------------------------------------------------------------------ reference schema
SCALARS = [
    # name, number, protobuf type, betterproto maker, python type
    ("i32", 1, F.TYPE_INT32, "int32_field", int),
    ("i64", 2, F.TYPE_INT64, "int64_field", int),
    ("u32", 3, F.TYPE_UINT32, "uint32_field", int),
    ("u64", 4, F.TYPE_UINT64, "uint64_field", int),
    ("s32", 5, F.TYPE_SINT32, "sint32_field", int),
    ("s64", 6, F.TYPE_SINT64, "sint64_field", int),
    ("b", 7, F.TYPE_BOOL, "bool_field", bool),
    ("fx32", 8, F.TYPE_FIXED32, "fixed32_field", int),
    ("sfx32", 9, F.TYPE_SFIXED32, "sfixed32_field", int),
    ("fx64", 10, F.TYPE_FIXED64, "fixed64_field", int),
    ("sfx64", 11, F.TYPE_SFIXED64, "sfixed64_field", int),
    ("fl", 12, F.TYPE_FLOAT, "float_field", float),
    ("db", 13, F.TYPE_DOUBLE, "double_field", float),
    ("st", 14, F.TYPE_STRING, "string_field", str),
    ("by", 15, F.TYPE_BYTES, "bytes_field", bytes),
]
REP_BASE = 100  # repeated twin of scalar n has number 100 + n (two-byte tags)

fdp = descriptor_pb2.FileDescriptorProto(name="c08_keep2.proto", package="c08k2", syntax="proto3")
sub = fdp.message_type.add(name="Sub")
sub.field.add(name="x", number=1, type=F.TYPE_INT32, label=F.LABEL_OPTIONAL)
sub.field.add(name="y", number=20, type=F.TYPE_STRING, label=F.LABEL_OPTIONAL)
sub.field.add(name="zs", number=3000, type=F.TYPE_SINT64, label=F.LABEL_REPEATED)
new = fdp.message_type.add(name="Newer")
for name, number, ptype, _, _ in SCALARS:
    new.field.add(name=name, number=number, type=ptype, label=F.LABEL_OPTIONAL)
    new.field.add(name="r_" + name, number=REP_BASE + number, type=ptype, label=F.LABEL_REPEATED)
new.field.add(name="sub", number=50, type=F.TYPE_MESSAGE, type_name=".c08k2.Sub", label=F.LABEL_OPTIONAL)
new.field.add(name="subs", number=51, type=F.TYPE_MESSAGE, type_name=".c08k2.Sub", label=F.LABEL_REPEATED)
entry = new.nested_type.add(name="MEntry")
entry.options.map_entry = True
entry.field.add(name="key", number=1, type=F.TYPE_STRING, label=F.LABEL_OPTIONAL)
entry.field.add(name="value", number=2, type=F.TYPE_MESSAGE, type_name=".c08k2.Sub", label=F.LABEL_OPTIONAL)
new.field.add(name="m", number=52, type=F.TYPE_MESSAGE, type_name=".c08k2.Newer.MEntry", label=F.LABEL_REPEATED)
new.oneof_decl.add(name="choice")
new.field.add(name="c_int", number=60, type=F.TYPE_INT32, label=F.LABEL_OPTIONAL, oneof_index=0)
new.field.add(name="c_str", number=61, type=F.TYPE_STRING, label=F.LABEL_OPTIONAL, oneof_index=0)
new.field.add(name="c_sub", number=70000, type=F.TYPE_MESSAGE, type_name=".c08k2.Sub", label=F.LABEL_OPTIONAL, oneof_index=0)

pool = descriptor_pool.DescriptorPool()
pool.Add(fdp)
PbNewer = message_factory.GetMessageClass(pool.FindMessageTypeByName("c08k2.Newer"))
PbSub = message_factory.GetMessageClass(pool.FindMessageTypeByName("c08k2.Sub"))


# ----------------------------------------------------------------- betterproto schemas
@dataclass(eq=False, repr=False)
class Sub(betterproto.Message):
    x: int = betterproto.int32_field(1)
    y: str = betterproto.string_field(20)
    zs: List[int] = betterproto.sint64_field(3000)


@dataclass(eq=False, repr=False)
class SubOlder(betterproto.Message):
    x: int = betterproto.int32_field(1)


SPECS = {}  # field name -> (annotation, factory)
for name, number, _, maker, typ in SCALARS:
    SPECS[name] = (typ, lambda maker=maker, number=number: getattr(betterproto, maker)(number))
    SPECS["r_" + name] = (
        List[typ],
        lambda maker=maker, number=number: getattr(betterproto, maker)(REP_BASE + number),
    )
SPECS["sub"] = (Sub, lambda: betterproto.message_field(50))
SPECS["subs"] = (List[Sub], lambda: betterproto.message_field(51))
SPECS["m"] = (
    Dict[str, Sub],
    lambda: betterproto.map_field(52, betterproto.TYPE_STRING, betterproto.TYPE_MESSAGE),
)
SPECS["c_int"] = (int, lambda: betterproto.int32_field(60, group="choice"))
SPECS["c_str"] = (str, lambda: betterproto.string_field(61, group="choice"))
SPECS["c_sub"] = (Sub, lambda: betterproto.message_field(70000, group="choice"))
ALL = list(SPECS)
_counter = [0]


def make_schema(keep, sub_cls=Sub):
    _counter[0] += 1
    ns = {"__annotations__": {}, "__module__": __name__}
    for name in keep:
        ann, factory = SPECS[name]
        if sub_cls is not Sub:
            ann = {Sub: sub_cls, List[Sub]: List[sub_cls], Dict[str, Sub]: Dict[str, sub_cls]}.get(ann, ann)
        ns["__annotations__"][name] = ann
        ns[name] = factory()
    cls = type(f"Schema{_counter[0]}", (betterproto.Message,), ns)
    return dataclass(eq=False, repr=False)(cls)


Full = make_schema(ALL)

INTS = {
    "i32": [0, 1, -1, 2**31 - 1, -(2**31), 127, 128],
    "i64": [0, 1, -1, 2**63 - 1, -(2**63)],
    "u32": [0, 1, 2**32 - 1, 300],
    "u64": [0, 1, 2**64 - 1, 2**40],
    "s32": [0, 1, -1, 2**31 - 1, -(2**31)],
    "s64": [0, 1, -1, 2**63 - 1, -(2**63)],
    "b": [False, True],
    "fx32": [0, 1, 2**32 - 1],
    "sfx32": [0, -1, 2**31 - 1, -(2**31)],
    "fx64": [0, 1, 2**64 - 1],
    "sfx64": [0, -1, 2**63 - 1, -(2**63)],
    "fl": [0.0, 1.5, -2.25, float("inf")],
    "db": [0.0, 1.5, -2.25, 1e300, float("-inf")],
    "st": ["", "a", "héllo", "z" * 130],
    "by": [b"", b"\x00", bytes(range(200))],
}


def rand_sub():
    s = PbSub()
    if rnd.random() < 0.7:
        s.x = rnd.choice(INTS["i32"])
    if rnd.random() < 0.5:
        s.y = rnd.choice(INTS["st"])
    if rnd.random() < 0.5:
        s.zs.extend(rnd.choice(INTS["s64"]) for _ in range(rnd.randint(1, 3)))
    return s


def rand_pb():
    m = PbNewer()
    for name, *_ in SCALARS:
        if rnd.random() < 0.5:
            setattr(m, name, rnd.choice(INTS[name]))
        if rnd.random() < 0.5:
            getattr(m, "r_" + name).extend(rnd.choice(INTS[name]) for _ in range(rnd.randint(1, 4)))
    if rnd.random() < 0.6:
        m.sub.CopyFrom(rand_sub())
    for _ in range(rnd.choice([0, 0, 1, 3])):
        m.subs.add().CopyFrom(rand_sub())
    for k in rnd.sample(["", "k1", "k2"], rnd.randint(0, 3)):
        m.m[k].CopyFrom(rand_sub())
    c = rnd.randint(0, 3)
    if c == 1:
        m.c_int = rnd.choice(INTS["i32"])
    elif c == 2:
        m.c_str = rnd.choice(INTS["st"])
    elif c == 3:
        m.c_sub.CopyFrom(rand_sub())
    return m


def check_known(older, pb, keep):
    """The fields the older schema does know are decoded as the reference says."""
    for name in keep:
        if name in ("sub", "c_sub"):
            if pb.HasField(name):
                got = getattr(older, name)
                assert got.x == getattr(pb, name).x
            continue
        if name in ("c_int", "c_str"):
            if pb.WhichOneof("choice") == name:
                assert betterproto.which_one_of(older, "choice") == (name, getattr(pb, name))
            else:
                assert betterproto.which_one_of(older, "choice")[0] != name
            continue
        if name == "subs":
            assert [s.x for s in older.subs] == [s.x for s in pb.subs]
            continue
        if name == "m":
            assert {k: v.x for k, v in older.m.items()} == {k: v.x for k, v in pb.m.items()}
            continue
        got, want = getattr(older, name), getattr(pb, name)
        if name.startswith("r_"):
            want = list(want)
            if name == "r_fl":
                want = [struct.unpack("<f", struct.pack("<f", w))[0] for w in want]
            assert got == want, (name, got, want)
            assert all(type(g) is type(w) for g, w in zip(got, want)), name
        else:
            assert got == want and type(got) is type(want), (name, got, want)


# -------------------------------- 1. newer -> older (any subset) -> newer is lossless
def split_fields(data):
    """Top-level fields of `data` as raw chunks (independent mini-parser)."""
    out, pos = [], 0
    while pos < len(data):
        start = pos
        key = shift = 0
        while True:
            b = data[pos]; pos += 1
            key |= (b & 0x7F) << shift; shift += 7
            if not b & 0x80:
                break
        wt = key & 7
        if wt == 0:
            while data[pos] & 0x80:
                pos += 1
            pos += 1
        elif wt == 1:
            pos += 8
        elif wt == 5:
            pos += 4
        else:
            ln = shift = 0
            while True:
                b = data[pos]; pos += 1
                ln |= (b & 0x7F) << shift; shift += 7
                if not b & 0x80:
                    break
            pos += ln
        out.append((key >> 3, data[start:pos]))
    return out


NUMBER_OF = {f.name: f.number for f in PbNewer.DESCRIPTOR.fields}
subsets = [[], ALL, ALL[::2], ALL[1::2], ["i32"], ["sub", "subs", "m"], ["c_int", "c_str"]]
subsets += [[n for n in ALL if rnd.random() < p] for p in (0.2, 0.5, 0.8) for _ in range(8)]
for keep in subsets:
    for sub_cls in (Sub, SubOlder):
        Older = make_schema(keep, sub_cls)
        known_numbers = {NUMBER_OF[n] for n in keep}
        for _ in range(6):
            pb = rand_pb()
            wire = pb.SerializeToString()
            older = Older().parse(wire)
            check_known(older, pb, keep)
            # every dropped field's bytes are kept verbatim, in arrival order
            assert older._unknown_fields == b"".join(
                raw for number, raw in split_fields(wire) if number not in known_numbers
            )
            again = bytes(older)
            assert len(older) == len(again)
            back = PbNewer()
            back.ParseFromString(again)
            assert back == pb, keep
            assert back.SerializeToString(deterministic=True) == pb.SerializeToString(deterministic=True)
            # and via the stream API with a size prefix, followed by more data
            buf = BytesIO()
            older.dump(buf, betterproto.SIZE_DELIMITED)
            buf.write(b"\x08\x05")
            buf.seek(0)
            older2 = Older().load(buf, betterproto.SIZE_DELIMITED)
            assert bytes(older2) == again and buf.read() == b"\x08\x05"
            # betterproto's own full schema agrees too
            assert bytes(Full().parse(again)) == bytes(Full().parse(wire))


# ------------- 2. packed / unpacked / chunked repeated scalars with unknowns in between
def tag(number, wt):
    return encode_varint((number << 3) | wt)


def ld(number, payload):
    return tag(number, 2) + encode_varint(len(payload)) + payload


UNKNOWN_POOL = [
    tag(90, 0) + b"\x96\x01",
    tag(91, 2) + b"\x03abc",
    tag(92, 5) + b"\x01\x02\x03\x04",
    tag(93, 1) + b"\x01\x02\x03\x04\x05\x06\x07\x08",
    tag(9000, 2) + b"\x00",
    tag(2**29 - 1, 0) + b"\xff\xff\xff\xff\xff\xff\xff\xff\xff\x01",
]
Reps = make_schema(["r_" + n for n, *_ in SCALARS if n not in ("st", "by")] + ["i32"])
for name, number, ptype, _, _ in SCALARS:
    if name in ("st", "by"):
        continue
    for _ in range(25):
        values = [rnd.choice(INTS[name]) for _ in range(rnd.randint(0, 7))]
        # encode each item with the reference, then lay them out as a random mix of
        # packed chunks and unpacked single items, with unknown fields in between
        items = []
        for v in values:
            one = PbNewer()
            getattr(one, "r_" + name).append(v)
            raw = one.SerializeToString()  # tag + len + payload (packed, one item)
            t = tag(REP_BASE + number, 2)
            assert raw.startswith(t)
            items.append(raw[len(t) + 1 :])
        if name in ("fx32", "sfx32", "fl"):
            wt_item = 5
        elif name in ("fx64", "sfx64", "db"):
            wt_item = 1
        else:
            wt_item = 0
        chunks, unknown, i = [], [], 0
        while i < len(items):
            if rnd.random() < 0.4:
                chunks.append(tag(REP_BASE + number, wt_item) + items[i])
                i += 1
            else:
                n = rnd.randint(0, len(items) - i)
                chunks.append(ld(REP_BASE + number, b"".join(items[i : i + n])))
                i += n
            if rnd.random() < 0.5:
                u = rnd.choice(UNKNOWN_POOL)
                unknown.append(u)
                chunks.append(u)
        if rnd.random() < 0.5:
            chunks.insert(rnd.randint(0, len(chunks)), tag(1, 0) + b"\x2a")
            want_i32 = 42
        else:
            want_i32 = 0
        data = b"".join(chunks)
        msg = Reps().parse(data)
        ref = PbNewer()
        ref.ParseFromString(data)
        want = list(getattr(ref, "r_" + name))
        got = getattr(msg, "r_" + name)
        assert got == want and [type(g) for g in got] == [type(w) for w in want], (name, got, want)
        assert msg.i32 == want_i32 == ref.i32
        assert msg._unknown_fields == b"".join(unknown)
        back = PbNewer()
        back.ParseFromString(bytes(msg))
        assert back == ref


# ----------------- 3. a known number arriving with another wire type stays unknown data
@dataclass(eq=False, repr=False)
class Typed(betterproto.Message):
    n: int = betterproto.int32_field(1)
    s: str = betterproto.string_field(2)
    f: float = betterproto.float_field(3)
    d: int = betterproto.fixed64_field(4)
    rn: List[int] = betterproto.int32_field(5)
    rs: List[str] = betterproto.string_field(6)
    sub: Sub = betterproto.message_field(7)
    o: Optional[int] = betterproto.int32_field(8, optional=True)


PAYLOAD = {0: b"\x05", 1: b"\x01" * 8, 2: b"\x04\x08\x01\x10\x02", 5: b"\x02" * 4}
ACCEPTS = {1: {0}, 2: {2}, 3: {5}, 4: {1}, 5: {0, 2}, 6: {2}, 7: {2}, 8: {0}}
for number in range(1, 10):
    for wt in (0, 1, 2, 5):
        field = tag(number, wt) + PAYLOAD[wt]
        data = tag(1, 0) + b"\x07" + field + tag(2, 2) + b"\x01z"
        msg = Typed().parse(data)
        if wt in ACCEPTS.get(number, ()):
            assert msg._unknown_fields == b"", (number, wt)
        else:
            assert msg._unknown_fields == field, (number, wt)
            assert bytes(msg) == tag(1, 0) + b"\x07" + tag(2, 2) + b"\x01z" + field
        if not (number == 1 and wt == 0):
            assert msg.n == 7
        if not (number == 2 and wt == 2):
            assert msg.s == "z"
msg = Typed().parse(tag(5, 2) + b"\x03\x01\x02\x03" + tag(5, 0) + b"\x04" + tag(5, 2) + b"\x00" + tag(5, 2) + b"\x01\x05")
assert msg.rn == [1, 2, 3, 4, 5] and msg._unknown_fields == b""
msg = Typed().parse(tag(1, 2) + b"\x02\x01\x02")  # packed run for a singular scalar
assert msg.n == 0 and msg._unknown_fields == tag(1, 2) + b"\x02\x01\x02"

# parse() twice into one instance keeps accumulating unknown fields
acc = Typed()
acc.parse(UNKNOWN_POOL[0] + tag(1, 0) + b"\x01")
acc.parse(UNKNOWN_POOL[1] + tag(5, 0) + b"\x02" + UNKNOWN_POOL[2])
assert acc._unknown_fields == UNKNOWN_POOL[0] + UNKNOWN_POOL[1] + UNKNOWN_POOL[2]
assert (acc.n, acc.rn) == (1, [2])

# malformed packed payloads fail the same way
for bad, exc in ((tag(105, 2) + b"\x01\x80", EOFError),):
    try:
        Reps().parse(bad)
    except exc:
        pass
    else:
        raise AssertionError("expected failure")
for name in ("fx32", "db"):
    number = REP_BASE + dict((n, num) for n, num, *_ in SCALARS)[name]
    try:
        Reps().parse(ld(number, b"\x01\x02\x03"))
    except struct.error:
        pass
    else:
        raise AssertionError("expected struct.error")

print("ok")
