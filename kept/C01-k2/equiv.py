"""Equivalence check for the Message.load refactor (packed-run decoding extracted into
a helper, per-item classification hoisted, list/scalar store branches reordered).
Passes on the pristine tree and with the refactor applied."""
import math
import random
import struct
from dataclasses import dataclass
from datetime import datetime, timedelta, timezone
from typing import Dict, List, Optional

import betterproto
from betterproto import encode_varint

from google.protobuf import descriptor_pb2, descriptor_pool, message_factory

F = descriptor_pb2.FieldDescriptorProto
rnd = random.Random(987654321)


class E(betterproto.Enum):
    ZERO = 0
    ONE = 1
    NEG = -3
    BIG = 2**31 - 1
    SMALL = -(2**31)


@dataclass(eq=False, repr=False)
class Sub(betterproto.Message):
    n: int = betterproto.sint32_field(1)
    tags: List[int] = betterproto.uint32_field(2)
    child: "Sub" = betterproto.message_field(3)


SCALARS = [
    # name, betterproto field factory, google type, struct fmt or None
    ("int32", betterproto.int32_field, F.TYPE_INT32),
    ("int64", betterproto.int64_field, F.TYPE_INT64),
    ("uint32", betterproto.uint32_field, F.TYPE_UINT32),
    ("uint64", betterproto.uint64_field, F.TYPE_UINT64),
    ("sint32", betterproto.sint32_field, F.TYPE_SINT32),
    ("sint64", betterproto.sint64_field, F.TYPE_SINT64),
    ("fixed32", betterproto.fixed32_field, F.TYPE_FIXED32),
    ("fixed64", betterproto.fixed64_field, F.TYPE_FIXED64),
    ("sfixed32", betterproto.sfixed32_field, F.TYPE_SFIXED32),
    ("sfixed64", betterproto.sfixed64_field, F.TYPE_SFIXED64),
    ("float", betterproto.float_field, F.TYPE_FLOAT),
    ("double", betterproto.double_field, F.TYPE_DOUBLE),
    ("bool", betterproto.bool_field, F.TYPE_BOOL),
    ("enum", betterproto.enum_field, F.TYPE_ENUM),
]


@dataclass(eq=False, repr=False)
class M(betterproto.Message):
    # repeated (packed) scalars: numbers 1..14
    r_int32: List[int] = betterproto.int32_field(1)
    r_int64: List[int] = betterproto.int64_field(2)
    r_uint32: List[int] = betterproto.uint32_field(3)
    r_uint64: List[int] = betterproto.uint64_field(4)
    r_sint32: List[int] = betterproto.sint32_field(5)
    r_sint64: List[int] = betterproto.sint64_field(6)
    r_fixed32: List[int] = betterproto.fixed32_field(7)
    r_fixed64: List[int] = betterproto.fixed64_field(8)
    r_sfixed32: List[int] = betterproto.sfixed32_field(9)
    r_sfixed64: List[int] = betterproto.sfixed64_field(10)
    r_float: List[float] = betterproto.float_field(11)
    r_double: List[float] = betterproto.double_field(12)
    r_bool: List[bool] = betterproto.bool_field(13)
    r_enum: List[E] = betterproto.enum_field(14)
    # singular scalars: numbers 21..34
    s_int32: int = betterproto.int32_field(21)
    s_int64: int = betterproto.int64_field(22)
    s_uint32: int = betterproto.uint32_field(23)
    s_uint64: int = betterproto.uint64_field(24)
    s_sint32: int = betterproto.sint32_field(25)
    s_sint64: int = betterproto.sint64_field(26)
    s_fixed32: int = betterproto.fixed32_field(27)
    s_fixed64: int = betterproto.fixed64_field(28)
    s_sfixed32: int = betterproto.sfixed32_field(29)
    s_sfixed64: int = betterproto.sfixed64_field(30)
    s_float: float = betterproto.float_field(31)
    s_double: float = betterproto.double_field(32)
    s_bool: bool = betterproto.bool_field(33)
    s_enum: E = betterproto.enum_field(34)
    # length-delimited things
    r_string: List[str] = betterproto.string_field(41)
    r_bytes: List[bytes] = betterproto.bytes_field(42)
    r_sub: List[Sub] = betterproto.message_field(43)
    s_string: str = betterproto.string_field(44)
    s_bytes: bytes = betterproto.bytes_field(45)
    s_sub: Sub = betterproto.message_field(46)
    m_str_int: Dict[str, int] = betterproto.map_field(47, betterproto.TYPE_STRING, betterproto.TYPE_SINT64)
    m_int_sub: Dict[int, Sub] = betterproto.map_field(48, betterproto.TYPE_INT32, betterproto.TYPE_MESSAGE)
    m_bool_enum: Dict[bool, E] = betterproto.map_field(49, betterproto.TYPE_BOOL, betterproto.TYPE_ENUM)
    one_str: str = betterproto.string_field(51, group="pick")
    one_sub: Sub = betterproto.message_field(52, group="pick")
    one_f64: float = betterproto.double_field(53, group="pick")
    opt_u32: Optional[int] = betterproto.uint32_field(54, optional=True)
    opt_sub: Optional[Sub] = betterproto.message_field(55, optional=True)
    when: datetime = betterproto.message_field(56)
    span: timedelta = betterproto.message_field(57)
    r_when: List[datetime] = betterproto.message_field(58)
    r_span: List[timedelta] = betterproto.message_field(59)
    w_i64: Optional[int] = betterproto.message_field(60, wraps=betterproto.TYPE_INT64)


# ------------------------------------------------------------------ google twin
def build_google():
    fdp = descriptor_pb2.FileDescriptorProto(
        name="keep2.proto", package="keep2", syntax="proto3",
        dependency=["google/protobuf/timestamp.proto", "google/protobuf/duration.proto",
                    "google/protobuf/wrappers.proto"],
    )
    en = fdp.enum_type.add(name="E")
    for name, number in (("ZERO", 0), ("ONE", 1), ("NEG", -3), ("BIG", 2**31 - 1), ("SMALL", -(2**31))):
        en.value.add(name=name, number=number)
    O, R = F.LABEL_OPTIONAL, F.LABEL_REPEATED
    sub = fdp.message_type.add(name="Sub")
    sub.field.add(name="n", number=1, type=F.TYPE_SINT32, label=O)
    sub.field.add(name="tags", number=2, type=F.TYPE_UINT32, label=R)
    sub.field.add(name="child", number=3, type=F.TYPE_MESSAGE, label=O, type_name=".keep2.Sub")
    m = fdp.message_type.add(name="M")
    for i, (name, _, gtype) in enumerate(SCALARS):
        for prefix, base, label in (("r_", 1, R), ("s_", 21, O)):
            f = m.field.add(name=prefix + name, number=base + i, type=gtype, label=label)
            if gtype == F.TYPE_ENUM:
                f.type_name = ".keep2.E"
    m.field.add(name="r_string", number=41, type=F.TYPE_STRING, label=R)
    m.field.add(name="r_bytes", number=42, type=F.TYPE_BYTES, label=R)
    m.field.add(name="r_sub", number=43, type=F.TYPE_MESSAGE, label=R, type_name=".keep2.Sub")
    m.field.add(name="s_string", number=44, type=F.TYPE_STRING, label=O)
    m.field.add(name="s_bytes", number=45, type=F.TYPE_BYTES, label=O)
    m.field.add(name="s_sub", number=46, type=F.TYPE_MESSAGE, label=O, type_name=".keep2.Sub")

    def map_entry(name, ktype, vtype, vtype_name=None):
        entry = m.nested_type.add(name=name)
        entry.options.map_entry = True
        entry.field.add(name="key", number=1, type=ktype, label=O)
        v = entry.field.add(name="value", number=2, type=vtype, label=O)
        if vtype_name:
            v.type_name = vtype_name

    map_entry("MStrIntEntry", F.TYPE_STRING, F.TYPE_SINT64)
    map_entry("MIntSubEntry", F.TYPE_INT32, F.TYPE_MESSAGE, ".keep2.Sub")
    map_entry("MBoolEnumEntry", F.TYPE_BOOL, F.TYPE_ENUM, ".keep2.E")
    m.field.add(name="m_str_int", number=47, type=F.TYPE_MESSAGE, label=R, type_name=".keep2.M.MStrIntEntry")
    m.field.add(name="m_int_sub", number=48, type=F.TYPE_MESSAGE, label=R, type_name=".keep2.M.MIntSubEntry")
    m.field.add(name="m_bool_enum", number=49, type=F.TYPE_MESSAGE, label=R, type_name=".keep2.M.MBoolEnumEntry")
    m.oneof_decl.add(name="pick")
    m.oneof_decl.add(name="_opt_u32")
    m.oneof_decl.add(name="_opt_sub")
    m.field.add(name="one_str", number=51, type=F.TYPE_STRING, label=O, oneof_index=0)
    m.field.add(name="one_sub", number=52, type=F.TYPE_MESSAGE, label=O, oneof_index=0, type_name=".keep2.Sub")
    m.field.add(name="one_f64", number=53, type=F.TYPE_DOUBLE, label=O, oneof_index=0)
    m.field.add(name="opt_u32", number=54, type=F.TYPE_UINT32, label=O, oneof_index=1, proto3_optional=True)
    m.field.add(name="opt_sub", number=55, type=F.TYPE_MESSAGE, label=O, oneof_index=2, proto3_optional=True,
                type_name=".keep2.Sub")
    m.field.add(name="when", number=56, type=F.TYPE_MESSAGE, label=O, type_name=".google.protobuf.Timestamp")
    m.field.add(name="span", number=57, type=F.TYPE_MESSAGE, label=O, type_name=".google.protobuf.Duration")
    m.field.add(name="r_when", number=58, type=F.TYPE_MESSAGE, label=R, type_name=".google.protobuf.Timestamp")
    m.field.add(name="r_span", number=59, type=F.TYPE_MESSAGE, label=R, type_name=".google.protobuf.Duration")
    m.field.add(name="w_i64", number=60, type=F.TYPE_MESSAGE, label=O, type_name=".google.protobuf.Int64Value")

    from google.protobuf import duration_pb2, timestamp_pb2, wrappers_pb2  # noqa: registers in default pool
    pool = descriptor_pool.Default()
    pool.Add(fdp)
    return message_factory.GetMessageClass(pool.FindMessageTypeByName("keep2.M"))


GM = build_google()

# ------------------------------------------------------------------ value pools
I32 = [0, 1, -1, 127, 128, -128, 2**31 - 1, -(2**31), 300, 16384]
I64 = I32 + [2**31, -(2**31) - 1, 2**62, 2**63 - 1, -(2**63)]
U32 = [0, 1, 127, 128, 2**32 - 1, 2**31, 16384]
U64 = U32 + [2**32, 2**63 - 1, 2**63, 2**64 - 1]
F32 = [0.0, -0.0, 1.0, -1.5, 0.25, float("inf"), float("-inf"), float("nan"), 3.4028234663852886e38,
       1.401298464324817e-45, 16777216.0]
F64 = F32 + [1e308, 5e-324, 0.1, -2.5e-300, 2.0**53 + 2]
ENUMS = [0, 1, -3, 2**31 - 1, -(2**31), 77, -77]
POOL = {
    "int32": I32, "int64": I64, "uint32": U32, "uint64": U64, "sint32": I32, "sint64": I64,
    "fixed32": U32, "fixed64": U64, "sfixed32": I32, "sfixed64": I64, "float": F32, "double": F64,
    "bool": [True, False], "enum": ENUMS,
}
TEXTS = ["", "a", "\U0001F600\U00010000", "x" * 127, "y" * 128, "é" * 70, "\x00\x01"]
UTC = timezone.utc
WHENS = [datetime(1970, 1, 1, tzinfo=UTC), datetime(2024, 2, 29, 23, 59, 59, 999999, tzinfo=UTC),
         datetime(1969, 12, 31, 23, 59, 59, 500000, tzinfo=UTC), datetime(1, 1, 1, tzinfo=UTC),
         datetime(9999, 12, 31, 23, 59, 59, 999999, tzinfo=UTC)]
SPANS = [timedelta(0), timedelta(seconds=1, microseconds=500000), timedelta(seconds=-1, microseconds=-500000),
         timedelta(microseconds=-1), timedelta(days=3650000), timedelta(days=-3650000, microseconds=-7)]


def same(a, b):
    """Deep equality that treats NaN as equal to NaN and distinguishes -0.0 from 0.0."""
    if isinstance(a, float) and isinstance(b, float):
        if math.isnan(a) or math.isnan(b):
            return math.isnan(a) and math.isnan(b)
        return a == b and math.copysign(1, a) == math.copysign(1, b)
    if isinstance(a, list) and isinstance(b, list):
        return len(a) == len(b) and all(same(x, y) for x, y in zip(a, b))
    return a == b


def random_sub(depth=0):
    s = Sub()
    if rnd.random() < 0.7:
        s.n = rnd.choice(I32)
    if rnd.random() < 0.6:
        s.tags = [rnd.choice(U32) for _ in range(rnd.randrange(0, 5))]
    if depth < 3 and rnd.random() < 0.4:
        s.child = random_sub(depth + 1)
    return s


def fill_g_sub(g, s):
    g.SetInParent()
    raw = s.__dict__
    if raw.get("n", betterproto.PLACEHOLDER) is not betterproto.PLACEHOLDER:
        g.n = s.n
    g.tags.extend(s.tags)
    if betterproto.serialized_on_wire(s.child) or bytes(s.child):
        fill_g_sub(g.child, s.child)


def random_message():
    bm, gm = M(), GM()
    for name, _, _ in SCALARS:
        if rnd.random() < 0.55:
            vals = [rnd.choice(POOL[name]) for _ in range(rnd.choice([0, 1, 1, 2, 3, 17, 130]))]
            bvals = [E.try_value(v) for v in vals] if name == "enum" else list(vals)
            setattr(bm, "r_" + name, bvals)
            getattr(gm, "r_" + name).extend(vals)
        if rnd.random() < 0.5:
            v = rnd.choice(POOL[name])
            if isinstance(v, float) and v == 0:
                v = 0.0  # a singular -0.0 compares equal to the default and is not sent
            setattr(bm, "s_" + name, E.try_value(v) if name == "enum" else v)
            setattr(gm, "s_" + name, v)
    if rnd.random() < 0.5:
        vals = [rnd.choice(TEXTS) for _ in range(rnd.randrange(0, 4))]
        bm.r_string = list(vals)
        gm.r_string.extend(vals)
    if rnd.random() < 0.5:
        vals = [rnd.choice(TEXTS).encode() for _ in range(rnd.randrange(0, 4))]
        bm.r_bytes = list(vals)
        gm.r_bytes.extend(vals)
    if rnd.random() < 0.5:
        subs = [random_sub() for _ in range(rnd.randrange(0, 4))]
        bm.r_sub = subs
        for s in subs:
            fill_g_sub(gm.r_sub.add(), s)
    if rnd.random() < 0.5:
        bm.s_string = gm.s_string = rnd.choice(TEXTS)
    if rnd.random() < 0.5:
        bm.s_bytes = gm.s_bytes = rnd.choice(TEXTS).encode()
    if rnd.random() < 0.5:
        bm.s_sub = random_sub()
        # a never-touched Sub() assigned to a plain field does not count as present
        if betterproto.serialized_on_wire(bm.s_sub):
            fill_g_sub(gm.s_sub, bm.s_sub)
    # single-entry maps: the order of several entries is unspecified in google.protobuf
    if rnd.random() < 0.5:
        # (google.protobuf always writes key and value of an entry, betterproto leaves out an
        # empty string / empty message, which is equivalent on the wire but not byte-identical)
        k, v = rnd.choice(TEXTS[1:]), rnd.choice(I64)
        bm.m_str_int = {k: v}
        gm.m_str_int[k] = v
    if rnd.random() < 0.5:
        k, s = rnd.choice(I32), random_sub()
        s.n = s.n or 5
        bm.m_int_sub = {k: s}
        fill_g_sub(gm.m_int_sub[k], s)
    if rnd.random() < 0.5:
        k, v = rnd.choice([True, False]), rnd.choice(ENUMS)
        bm.m_bool_enum = {k: E.try_value(v)}
        gm.m_bool_enum[k] = v
    c = rnd.random()
    if c < 0.2:
        bm.one_str = gm.one_str = rnd.choice(TEXTS)
    elif c < 0.4:
        bm.one_sub = rnd.choice([Sub(), random_sub()])
        fill_g_sub(gm.one_sub, bm.one_sub)
    elif c < 0.6:
        bm.one_f64 = gm.one_f64 = rnd.choice(F64)
    if rnd.random() < 0.5:
        bm.opt_u32 = gm.opt_u32 = rnd.choice(U32)
    if rnd.random() < 0.5:
        bm.opt_sub = rnd.choice([Sub(), random_sub()])
        fill_g_sub(gm.opt_sub, bm.opt_sub)
    if rnd.random() < 0.5:
        bm.when = rnd.choice(WHENS)
        if bm.when != WHENS[0]:  # the epoch is the default value of a datetime field
            gm.when.FromDatetime(bm.when)
    if rnd.random() < 0.5:
        bm.span = rnd.choice(SPANS)
        if bm.span:  # a zero timedelta is the default value
            gm.span.FromTimedelta(bm.span)
    if rnd.random() < 0.4:
        bm.r_when = [rnd.choice(WHENS) for _ in range(rnd.randrange(0, 4))]
        for w in bm.r_when:
            gm.r_when.add().FromDatetime(w)
    if rnd.random() < 0.4:
        bm.r_span = [rnd.choice(SPANS) for _ in range(rnd.randrange(0, 4))]
        for d in bm.r_span:
            gm.r_span.add().FromTimedelta(d)
    if rnd.random() < 0.5:
        bm.w_i64 = rnd.choice(I64)
        gm.w_i64.value = bm.w_i64
        gm.w_i64.SetInParent()
    return bm, gm


FIELD_NAMES = [f.name for f in M.__dataclass_fields__.values()]


def check_round_trip(bm, data):
    back = M().parse(data)
    nan_in_list = any(isinstance(v, float) and math.isnan(v) for v in bm.r_float + bm.r_double)
    if not nan_in_list:  # list equality does not know that NaN "equals" NaN
        assert back == bm
    for fname in FIELD_NAMES:
        try:
            want = getattr(bm, fname)
        except AttributeError:  # unselected oneof member
            continue
        if fname not in ("r_float", "s_float"):
            assert same(getattr(back, fname), want), fname
    assert bytes(back) == data
    assert betterproto.which_one_of(back, "pick")[0] == betterproto.which_one_of(bm, "pick")[0]
    assert (back.opt_u32 is None) == (bm.opt_u32 is None)
    assert (back.opt_sub is None) == (bm.opt_sub is None)
    assert (back.w_i64 is None) == (bm.w_i64 is None)
    assert betterproto.serialized_on_wire(back.s_sub) == betterproto.serialized_on_wire(bm.s_sub)
    for name, _, _ in SCALARS:
        got, want = getattr(back, "r_" + name), getattr(bm, "r_" + name)
        if name == "float":
            want = [struct.unpack("<f", struct.pack("<f", v))[0] for v in want]
        assert same(got, want), (name, got, want)
        assert all(type(g) is type(w) for g, w in zip(got, want)), (name, got, want)
    return back


n_cmp = 0
for _ in range(1200):
    bm, gm = random_message()
    data = bytes(bm)
    gdata = gm.SerializeToString(deterministic=True)
    assert data == gdata, (bm, data.hex(), gdata.hex())
    check_round_trip(bm, data)
    assert GM.FromString(data) == gm or any(
        isinstance(v, float) and math.isnan(v)
        for name in ("float", "double") for v in getattr(bm, "r_" + name) + [getattr(bm, "s_" + name)])
    n_cmp += 1


# ------------------------------------------------------------------ hand-made wire forms
def key(number, wire_type):
    return encode_varint((number << 3) | wire_type)


def ld(number, payload):
    return key(number, 2) + encode_varint(len(payload)) + payload


def zz(v):
    return (v << 1) ^ (v >> 63)


def enc_items(name, values):
    """(packed payload pieces, unpacked field encodings) for the repeated field r_<name>."""
    idx = [s[0] for s in SCALARS].index(name) + 1
    fmt = {"fixed32": "<I", "fixed64": "<Q", "sfixed32": "<i", "sfixed64": "<q", "float": "<f", "double": "<d"}.get(name)
    pieces, unpacked = [], []
    for v in values:
        if fmt:
            p = struct.pack(fmt, v)
            wt = 5 if len(p) == 4 else 1
        else:
            wt = 0
            if name in ("sint32", "sint64"):
                p = encode_varint(zz(v))
            else:
                p = encode_varint(int(v))
        pieces.append(p)
        unpacked.append(key(idx, wt) + p)
    return idx, pieces, unpacked


n_wire = 0
for name, _, _ in SCALARS:
    pool = POOL[name]
    for trial in range(60):
        values = [rnd.choice(pool) for _ in range(rnd.randrange(1, 12))]
        idx, pieces, unpacked = enc_items(name, values)
        want = [E.try_value(v) for v in values] if name == "enum" else values
        if name == "float":
            want = [struct.unpack("<f", struct.pack("<f", v))[0] for v in want]
        # 1. one packed run
        # 2. all unpacked
        # 3. packed chunks split at random places, mixed with unpacked items and other fields
        forms = [ld(idx, b"".join(pieces)), b"".join(unpacked)]
        mixed = b""
        i = 0
        while i < len(values):
            j = rnd.randrange(i, len(values) + 1)
            if j == i:
                mixed += rnd.choice([ld(idx, b""), key(21, 0) + b"\x05"])  # empty run / another field
                if rnd.random() < 0.5:
                    mixed += unpacked[i]
                    i += 1
                continue
            mixed += ld(idx, b"".join(pieces[i:j]))
            i = j
        forms.append(mixed)
        for form in forms:
            msg = M().parse(form)
            got = getattr(msg, "r_" + name)
            assert same(got, want), (name, form, got, want)
            assert all(type(g) is type(w) for g, w in zip(got, want))
            # canonical re-encoding is the single packed run (plus whatever else was set)
            assert ld(idx, b"".join(pieces)) in bytes(msg)
            for other, _, _ in SCALARS:
                if other != name:
                    assert getattr(msg, "r_" + other) == []
            n_wire += 1

    # an empty packed run yields an empty list and nothing else
    idx = [s[0] for s in SCALARS].index(name) + 1
    msg = M().parse(ld(idx, b""))
    assert getattr(msg, "r_" + name) == [] and bytes(msg) == b""

    # a length-delimited occurrence of the *singular* scalar is not a packed run
    raw = ld(20 + idx, b"\x01\x02\x03\x04\x05\x06\x07\x08")
    msg = M().parse(raw)
    assert bytes(msg) == raw and msg == M()

# truncated runs fail the same way as before
for name, exc in (("fixed32", struct.error), ("sfixed32", struct.error), ("float", struct.error),
                  ("fixed64", struct.error), ("sfixed64", struct.error), ("double", struct.error),
                  ("int32", EOFError), ("uint64", EOFError), ("sint64", EOFError), ("bool", EOFError),
                  ("enum", EOFError)):
    idx = [s[0] for s in SCALARS].index(name) + 1
    payload = b"\x01\x00\x00\x00\x00\x00\x00\x00\x80\x80\x80" if exc is EOFError else b"\x01\x00\x00\x00\x00\x00\x00\x00\x01\x00\x00"
    target = M(s_int32=7)
    try:
        target.parse(ld(idx, payload))
    except exc:
        pass
    else:
        raise AssertionError(f"truncated {name} run accepted")
    assert getattr(target, "r_" + name) == [] and target.s_int32 == 7
try:
    M().parse(ld(1, b"\xff" * 10 + b"\x01"))
except ValueError:
    pass
else:
    raise AssertionError("11-byte varint accepted")

# parsing into a message that already has content merges: lists grow, scalars are replaced,
# map entries are added/overwritten, oneofs switch
base = M(r_int32=[1], r_double=[0.5], r_string=["a"], s_int32=3, m_str_int={"k": 1, "z": 9}, one_str="x")
add = M(r_int32=[-1, 2], r_double=[float("inf")], r_string=["", "b"], s_int32=-4, m_str_int={"k": -2, "n": 0},
        one_f64=0.0, r_sub=[Sub()], s_sub=Sub(n=0))
base.parse(bytes(add))
assert base.r_int32 == [1, -1, 2] and base.r_double == [0.5, float("inf")] and base.r_string == ["a", "", "b"]
assert base.s_int32 == -4 and base.m_str_int == {"k": -2, "z": 9, "n": 0}
assert betterproto.which_one_of(base, "pick") == ("one_f64", 0.0)
assert base.r_sub == [Sub()] and betterproto.serialized_on_wire(base.s_sub)

print("ok", n_cmp, n_wire)
