"""Equivalence check for the varint encoder refactor (encode_varint / dump_varint /
size_varint).  Passes on the pristine tree and with the refactor applied."""
import io
import random
from dataclasses import dataclass
from typing import Dict, List, Optional

import betterproto
from betterproto import dump_varint, encode_varint, load_varint, decode_varint, size_varint

from google.protobuf import descriptor_pb2, descriptor_pool, message_factory
from google.protobuf.internal import encoder as g_encoder

F = descriptor_pb2.FieldDescriptorProto
rnd = random.Random(20240101)


# ---------------------------------------------------------------- reference encoder
def ref_varint(value: int) -> bytes:
    if value < -(1 << 63):
        raise ValueError
    if value < 0:
        value += 1 << 64
    out = []
    while True:
        low = value % 128
        value //= 128
        if value:
            out.append(low + 128)
        else:
            out.append(low)
            return bytes(out)


class CountingStream:
    def __init__(self):
        self.data = b""

    def write(self, chunk):
        assert isinstance(chunk, (bytes, bytearray))
        self.data += bytes(chunk)
        return len(chunk)


values = set()
for k in range(0, 71):
    for d in (-2, -1, 0, 1, 2):
        values.add((1 << k) + d)
        values.add(-(1 << k) + d)
for k in range(1, 11):
    values.add((1 << (7 * k)) - 1)
    values.add(1 << (7 * k))
    values.add((1 << (7 * k)) + 1)
values.update(range(-300, 70000, 7))
values.update(range(0, 600))
for _ in range(20000):
    bits = rnd.randrange(1, 66)
    v = rnd.getrandbits(bits)
    values.add(v)
    values.add(-v)

checked = errors = 0
for v in sorted(values):
    if v < -(1 << 63):
        for fn in (encode_varint, size_varint, lambda x: dump_varint(x, io.BytesIO())):
            try:
                fn(v)
            except ValueError as exc:
                assert "64-bit" in str(exc) and "10 bytes" in str(exc), str(exc)
                errors += 1
            else:
                raise AssertionError(f"{v} should be rejected")
        continue
    expected = ref_varint(v)
    got = encode_varint(v)
    assert type(got) is bytes and got == expected, (v, got, expected)
    assert size_varint(v) == len(expected), (v, size_varint(v), len(expected))
    for stream in (io.BytesIO(), CountingStream()):
        assert dump_varint(v, stream) is None
        data = stream.getvalue() if isinstance(stream, io.BytesIO) else stream.data
        assert data == expected, (v, data, expected)
    # agrees with google.protobuf (which takes the unsigned 64-bit pattern)
    if -(1 << 63) <= v < (1 << 64):
        unsigned = v if v >= 0 else v + (1 << 64)
        assert got == g_encoder._VarintBytes(unsigned), v
        assert size_varint(v) == g_encoder._VarintSize(unsigned), v
        # and decodes back
        back, raw = load_varint(io.BytesIO(got + b"\x01"))
        assert back == unsigned and raw == got
        assert decode_varint(b"\xff" + got, 1) == (unsigned, 1 + len(got))
    checked += 1
assert checked > 20000 and errors > 0

# dump_varint appends to whatever is already in the stream
s = io.BytesIO()
s.write(b"ab")
dump_varint(300, s)
dump_varint(0, s)
dump_varint(-1, s)
assert s.getvalue() == b"ab\xac\x02\x00" + b"\xff" * 9 + b"\x01"

# bools and enum members are ints, too
class E(betterproto.Enum):
    NEG = -3
    ZERO = 0
    ONE = 1
    BIG = 2**31 - 1
    SMALL = -(2**31)


for member in E:
    assert encode_varint(member) == ref_varint(int(member))
    assert size_varint(member) == len(ref_varint(int(member)))
assert encode_varint(True) == b"\x01" and encode_varint(False) == b"\x00"
assert size_varint(True) == 1 and size_varint(False) == 1
for bad in (None, "1", 1.5, 300.0, b"\x01"):
    for fn in (encode_varint, size_varint):
        try:
            fn(bad)
        except (TypeError, AttributeError):
            pass
        else:
            raise AssertionError(f"{fn.__name__}({bad!r}) should fail")


# ---------------------------------------------------------------- messages vs google
@dataclass(eq=False, repr=False)
class Sub(betterproto.Message):
    n: int = betterproto.int64_field(1)
    s: str = betterproto.string_field(2)


@dataclass(eq=False, repr=False)
class M(betterproto.Message):
    i32: int = betterproto.int32_field(1)
    i64: int = betterproto.int64_field(2)
    u32: int = betterproto.uint32_field(3)
    u64: int = betterproto.uint64_field(4)
    s32: int = betterproto.sint32_field(5)
    s64: int = betterproto.sint64_field(6)
    b: bool = betterproto.bool_field(7)
    e: E = betterproto.enum_field(8)
    text: str = betterproto.string_field(9)
    blob: bytes = betterproto.bytes_field(10)
    sub: Sub = betterproto.message_field(11)
    r_i32: List[int] = betterproto.int32_field(12)
    r_i64: List[int] = betterproto.int64_field(13)
    r_u64: List[int] = betterproto.uint64_field(14)
    r_s64: List[int] = betterproto.sint64_field(15)
    r_e: List[E] = betterproto.enum_field(16)
    r_b: List[bool] = betterproto.bool_field(17)
    r_text: List[str] = betterproto.string_field(18)
    r_sub: List[Sub] = betterproto.message_field(19)
    one_i64: int = betterproto.int64_field(20, group="choice")
    one_u32: int = betterproto.uint32_field(21, group="choice")
    opt_i32: Optional[int] = betterproto.int32_field(22, optional=True)
    mp: Dict[int, int] = betterproto.map_field(23, betterproto.TYPE_INT64, betterproto.TYPE_SINT64)
    far: int = betterproto.int32_field(2047)
    farther: int = betterproto.int64_field(2048)
    farthest: int = betterproto.uint64_field(2**29 - 1)


def build_google():
    fdp = descriptor_pb2.FileDescriptorProto(name="keep1.proto", package="keep1", syntax="proto3")
    en = fdp.enum_type.add(name="E")
    for name, number in (("ZERO", 0), ("NEG", -3), ("ONE", 1), ("BIG", 2**31 - 1), ("SMALL", -(2**31))):
        en.value.add(name=name, number=number)
    sub = fdp.message_type.add(name="Sub")
    sub.field.add(name="n", number=1, type=F.TYPE_INT64, label=F.LABEL_OPTIONAL)
    sub.field.add(name="s", number=2, type=F.TYPE_STRING, label=F.LABEL_OPTIONAL)
    m = fdp.message_type.add(name="M")
    m.oneof_decl.add(name="choice")
    m.oneof_decl.add(name="_opt_i32")
    entry = m.nested_type.add(name="MpEntry")
    entry.options.map_entry = True
    entry.field.add(name="key", number=1, type=F.TYPE_INT64, label=F.LABEL_OPTIONAL)
    entry.field.add(name="value", number=2, type=F.TYPE_SINT64, label=F.LABEL_OPTIONAL)
    O, R = F.LABEL_OPTIONAL, F.LABEL_REPEATED
    spec = [
        ("i32", 1, F.TYPE_INT32, O), ("i64", 2, F.TYPE_INT64, O), ("u32", 3, F.TYPE_UINT32, O),
        ("u64", 4, F.TYPE_UINT64, O), ("s32", 5, F.TYPE_SINT32, O), ("s64", 6, F.TYPE_SINT64, O),
        ("b", 7, F.TYPE_BOOL, O), ("e", 8, F.TYPE_ENUM, O), ("text", 9, F.TYPE_STRING, O),
        ("blob", 10, F.TYPE_BYTES, O), ("sub", 11, F.TYPE_MESSAGE, O),
        ("r_i32", 12, F.TYPE_INT32, R), ("r_i64", 13, F.TYPE_INT64, R), ("r_u64", 14, F.TYPE_UINT64, R),
        ("r_s64", 15, F.TYPE_SINT64, R), ("r_e", 16, F.TYPE_ENUM, R), ("r_b", 17, F.TYPE_BOOL, R),
        ("r_text", 18, F.TYPE_STRING, R), ("r_sub", 19, F.TYPE_MESSAGE, R),
        ("one_i64", 20, F.TYPE_INT64, O), ("one_u32", 21, F.TYPE_UINT32, O), ("opt_i32", 22, F.TYPE_INT32, O),
        ("mp", 23, F.TYPE_MESSAGE, R),
        ("far", 2047, F.TYPE_INT32, O), ("farther", 2048, F.TYPE_INT64, O), ("farthest", 2**29 - 1, F.TYPE_UINT64, O),
    ]
    for name, number, typ, label in spec:
        f = m.field.add(name=name, number=number, type=typ, label=label)
        if typ == F.TYPE_ENUM:
            f.type_name = ".keep1.E"
        elif name in ("sub", "r_sub"):
            f.type_name = ".keep1.Sub"
        elif name == "mp":
            f.type_name = ".keep1.M.MpEntry"
        if name in ("one_i64", "one_u32"):
            f.oneof_index = 0
        if name == "opt_i32":
            f.oneof_index = 1
            f.proto3_optional = True
    pool = descriptor_pool.DescriptorPool()
    pool.Add(fdp)
    return (message_factory.GetMessageClass(pool.FindMessageTypeByName("keep1.M")),
            message_factory.GetMessageClass(pool.FindMessageTypeByName("keep1.Sub")))


GM, GSub = build_google()

I32 = [0, 1, -1, 127, 128, -128, 2**31 - 1, -(2**31), 300, 16383, 16384]
I64 = I32 + [2**31, -(2**31) - 1, 2**62, 2**63 - 1, -(2**63), 2**56 - 1, 2**56, -(2**56)]
U32 = [0, 1, 127, 128, 2**32 - 1, 2**31, 16384, 2097151, 2097152]
U64 = U32 + [2**32, 2**63 - 1, 2**63, 2**64 - 1, 2**49 - 1, 2**49]
ENUMS = [0, 1, -3, 2**31 - 1, -(2**31), 77, -77]
TEXTS = ["", "a", "\U0001F600" * 3, "x" * 127, "y" * 128, "z" * 16383, "w" * 16384, "é" * 64]


def random_kwargs():
    kw = {}
    pick = rnd.choice
    if rnd.random() < 0.7:
        kw["i32"] = pick(I32)
    if rnd.random() < 0.7:
        kw["i64"] = pick(I64)
    if rnd.random() < 0.7:
        kw["u32"] = pick(U32)
    if rnd.random() < 0.7:
        kw["u64"] = pick(U64)
    if rnd.random() < 0.7:
        kw["s32"] = pick(I32)
    if rnd.random() < 0.7:
        kw["s64"] = pick(I64)
    if rnd.random() < 0.5:
        kw["b"] = pick([True, False])
    if rnd.random() < 0.7:
        kw["e"] = pick(ENUMS)
    if rnd.random() < 0.5:
        kw["text"] = pick(TEXTS)
    if rnd.random() < 0.5:
        kw["blob"] = pick(TEXTS).encode()
    if rnd.random() < 0.5:
        kw["sub"] = (pick(I64), pick(TEXTS))
    if rnd.random() < 0.6:
        kw["r_i32"] = [pick(I32) for _ in range(rnd.randrange(0, 40))]
    if rnd.random() < 0.6:
        kw["r_i64"] = [pick(I64) for _ in range(rnd.randrange(0, 40))]
    if rnd.random() < 0.6:
        kw["r_u64"] = [pick(U64) for _ in range(rnd.randrange(0, 40))]
    if rnd.random() < 0.6:
        kw["r_s64"] = [pick(I64) for _ in range(rnd.randrange(0, 40))]
    if rnd.random() < 0.6:
        kw["r_e"] = [pick(ENUMS) for _ in range(rnd.randrange(0, 10))]
    if rnd.random() < 0.6:
        kw["r_b"] = [pick([True, False]) for _ in range(rnd.randrange(0, 10))]
    if rnd.random() < 0.4:
        kw["r_text"] = [pick(TEXTS) for _ in range(rnd.randrange(0, 4))]
    if rnd.random() < 0.4:
        kw["r_sub"] = [(pick(I64), pick(TEXTS)) for _ in range(rnd.randrange(0, 4))]
    c = rnd.random()
    if c < 0.3:
        kw["one_i64"] = pick(I64)
    elif c < 0.6:
        kw["one_u32"] = pick(U32)
    if rnd.random() < 0.5:
        kw["opt_i32"] = pick(I32)
    if rnd.random() < 0.5:
        kw["mp"] = {pick(I64): pick(I64)}  # one entry: map order is not specified
    if rnd.random() < 0.5:
        kw["far"] = pick(I32)
    if rnd.random() < 0.5:
        kw["farther"] = pick(I64)
    if rnd.random() < 0.5:
        kw["farthest"] = pick(U64)
    return kw


def make_both(kw):
    bkw = dict(kw)
    g = GM()
    for name, value in kw.items():
        if name == "sub":
            bkw[name] = Sub(n=value[0], s=value[1])
            g.sub.n, g.sub.s = value
            g.sub.SetInParent()
        elif name == "r_sub":
            bkw[name] = [Sub(n=n, s=s) for n, s in value]
            for n, s in value:
                g.r_sub.add(n=n, s=s)
        elif name == "e":
            bkw[name] = E.try_value(value)
            g.e = value
        elif name == "r_e":
            bkw[name] = [E.try_value(v) for v in value]
            g.r_e.extend(value)
        elif name == "mp":
            for k, v in value.items():
                g.mp[k] = v
        elif isinstance(value, list):
            getattr(g, name).extend(value)
        else:
            setattr(g, name, value)
    return M(**bkw), g


compared = 0
for i in range(1500):
    kw = random_kwargs()
    bm, gm = make_both(kw)
    data = bytes(bm)
    assert data == gm.SerializeToString(deterministic=True), (kw, data, gm.SerializeToString())
    assert len(bm) == len(data) == gm.ByteSize(), kw
    # size-delimited dump uses dump_varint(len(self)) directly
    stream = io.BytesIO()
    bm.dump(stream, delimit=betterproto.SIZE_DELIMITED)
    assert stream.getvalue() == ref_varint(len(data)) + data
    back = M().parse(data)
    assert back == bm, kw
    assert bytes(back) == data
    assert betterproto.which_one_of(back, "choice") == betterproto.which_one_of(bm, "choice")
    assert back.opt_i32 == kw.get("opt_i32")
    stream.seek(0)
    assert M().load(stream, betterproto.SIZE_DELIMITED) == bm
    g2 = GM.FromString(data)
    assert g2 == gm
    compared += 1
assert compared == 1500
print("ok", checked, errors, compared)
