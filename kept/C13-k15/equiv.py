"""C13 keep1 - equivalence check for the refactoring of the code that spells a field of a
generated message (plugin/models.py: FieldCompiler.get_field_string, betterproto_field_args,
datetime_imports, annotation / element_annotation, MapEntryCompiler.annotation).

The plugin is run in-process on a set of packages in which a.x refers to messages, nested
messages, enums and nested enums of the root package, an ancestor, a sibling package, cousins,
descendants and google.protobuf from every reference site (singular, repeated, proto3 optional,
map value, oneof member), next to every scalar / wrapper shape and to fields that are named like
builtins.  Checked for the typing styles direct / root / 310 and the pydantic variants:

  * every generated field line equals the line recorded on the reference tree (literal for the
    default style, derived by an independent rewriting for typing.root / typing.310, digests
    for all option combinations),
  * the cross-package import lines and the datetime imports are the recorded ones,
  * the generated packages import, every reference resolves (typing.get_type_hints) to exactly
    the class generated for the target, and a message round-trips through every referencing
    field.

Run: PYTHONPATH=<worktree>/src /venv/bin/python equiv.py
"""
import datetime as _dt
import hashlib
import re
import contextlib
import importlib
import io
import itertools
import os
import sys
import tempfile
import typing
from pathlib import Path

import betterproto
import betterproto.lib.google.protobuf as bundled
from betterproto.lib.google.protobuf import FileDescriptorSet
from betterproto.lib.google.protobuf.compiler import CodeGeneratorRequest
from betterproto.plugin import compiler as plugin_compiler
from betterproto.plugin.models import monkey_patch_oneof_index
from betterproto.plugin.parser import generate_code

# ruff is not installed: formatting is the identity
plugin_compiler.subprocess.check_output = lambda cmd, input, encoding: input
monkey_patch_oneof_index()

_counter = itertools.count()


def descriptor_set(files, extra=()):
    import grpc_tools
    from grpc_tools import protoc

    inc = os.path.join(os.path.dirname(grpc_tools.__file__), "_proto")
    with tempfile.TemporaryDirectory() as tmp:
        for rel, text in files.items():
            path = Path(tmp, rel)
            path.parent.mkdir(parents=True, exist_ok=True)
            path.write_text(text)
        out = os.path.join(tmp, "set.bin")
        rc = protoc.main(
            ["protoc", f"-I{tmp}", f"-I{inc}", f"--descriptor_set_out={out}",
             "--include_imports", *files, *extra]
        )
        assert rc == 0, "protoc failed"
        return Path(out).read_bytes()


def generate(files, extra=(), parameter=""):
    """Run the plugin in-process, write the response below a fresh root package."""
    fds = FileDescriptorSet().parse(descriptor_set(files, extra))
    request = CodeGeneratorRequest(
        file_to_generate=[*files, *extra], parameter=parameter, proto_file=fds.file
    )
    request = CodeGeneratorRequest().parse(bytes(request))
    with contextlib.redirect_stderr(io.StringIO()):
        response = generate_code(request)
    base = tempfile.mkdtemp(prefix="c13_keep1_")
    root = f"c13gen{next(_counter)}"
    for f in response.file:
        path = Path(base, root, f.name)
        path.parent.mkdir(parents=True, exist_ok=True)
        path.write_text(f.content)
    sys.path.insert(0, base)
    importlib.invalidate_caches()
    return root, {f.name: f.content for f in response.file}



# --- input protos ---
SCALARS = ["double", "float", "int32", "int64", "uint32", "uint64", "sint32", "sint64",
           "fixed32", "fixed64", "sfixed32", "sfixed64", "bool", "string", "bytes"]
WRAPPERS = ["DoubleValue", "FloatValue", "Int32Value", "Int64Value", "UInt32Value",
            "UInt64Value", "BoolValue", "StringValue", "BytesValue"]
# (proto type, kind) of everything a field of a.x.Holder refers to
TARGETS = [
    ("RootMsg", "message"), ("RootMsg.Sub", "message"), ("RootKind", "enum"),
    ("a.Top", "message"), ("a.Top.Nested", "message"), ("a.Top.NEnum", "enum"),
    ("a.y.Target", "message"), ("a.y.Target.Inner", "message"), ("a.y.Kind", "enum"),
    ("a.y.Target.NKind", "enum"), ("a.y.Target.Inner.Deep", "message"),
    ("a.x.Local", "message"), ("a.x.Local.In", "message"), ("a.x.LocalKind", "enum"),
    ("a.x.deep.Leaf", "message"), ("a.x.deep.er.Leaf2", "message"), ("a.x.deep.LeafKind", "enum"),
    ("p.q.Far", "message"), ("p.Near", "message"), ("a.yy.z.Cousin", "message"),
    ("google.protobuf.Any", "message"), ("google.protobuf.Struct", "message"),
    ("google.protobuf.NullValue", "enum"), ("google.protobuf.Field.Kind", "enum"),
    ("google.protobuf.Timestamp", "message"), ("google.protobuf.Duration", "message"),
    ("google.protobuf.Empty", "message"),
]


def build_protos():
    files = {}
    files["root.proto"] = 'syntax="proto3"; message RootMsg { int32 v = 1; message Sub { int32 v = 1; } } enum RootKind { R0 = 0; R1 = 1; }'
    files["a.proto"] = 'syntax="proto3"; package a; message Top { int32 v = 1; message Nested { int32 v = 1; } enum NEnum { N0 = 0; N1 = 1; } }'
    files["y.proto"] = ('syntax="proto3"; package a.y; message Target { int32 v = 1; '
                        'message Inner { int32 w = 1; message Deep { int32 d = 1; } } enum NKind { N0 = 0; N1 = 1; } } '
                        'enum Kind { K0 = 0; K1 = 1; }')
    files["deep.proto"] = 'syntax="proto3"; package a.x.deep; message Leaf { int32 v = 1; } enum LeafKind { L0 = 0; L1 = 1; }'
    files["deeper.proto"] = 'syntax="proto3"; package a.x.deep.er; message Leaf2 { int32 v = 1; }'
    files["pq.proto"] = 'syntax="proto3"; package p.q; message Far { int32 v = 1; }'
    files["p.proto"] = 'syntax="proto3"; package p; message Near { int32 v = 1; }'
    files["cousin.proto"] = 'syntax="proto3"; package a.yy.z; message Cousin { int32 v = 1; }'

    imports = "".join(f'import "{f}";\n' for f in files) + "".join(
        f'import "google/protobuf/{n}.proto";\n'
        for n in ("any", "struct", "type", "timestamp", "duration", "empty", "wrappers"))
    lines = ['syntax="proto3";', "package a.x;", imports,
             "message Local { int32 v = 1; message In { int32 v = 1; } }",
             "enum LocalKind { LK0 = 0; LK1 = 1; }"]

    n = [0]

    def num():
        n[0] += 1
        return n[0]

    # one message with every shape of reference to every target
    body, oneof = [], []
    for i, (t, kind) in enumerate(TARGETS):
        body.append(f"  {t} one{i} = {num()};")
        body.append(f"  repeated {t} many{i} = {num()};")
        body.append(f"  optional {t} opt{i} = {num()};")
        body.append(f"  map<string, {t}> map{i} = {num()};")
        oneof.append(f"    {t} pick{i} = {num()};")
    lines.append("message Holder {\n" + "\n".join(body) + "\n  oneof pick {\n" + "\n".join(oneof) + "\n  }\n}")

    n[0] = 0
    body, oneof = [], []
    for s in SCALARS:
        body.append(f"  {s} one_{s} = {num()};")
        body.append(f"  repeated {s} many_{s} = {num()};")
        body.append(f"  optional {s} opt_{s} = {num()};")
        oneof.append(f"    {s} pick_{s} = {num()};")
        if s not in ("double", "float", "bytes"):
            body.append(f"  map<{s}, {s}> map_{s} = {num()};")
    for w in WRAPPERS:
        body.append(f"  google.protobuf.{w} one_{w} = {num()};")
        body.append(f"  repeated google.protobuf.{w} many_{w} = {num()};")
        body.append(f"  optional google.protobuf.{w} opt_{w} = {num()};")
        body.append(f"  map<int32, google.protobuf.{w}> map_{w} = {num()};")
        oneof.append(f"    google.protobuf.{w} pick_{w} = {num()};")
    lines.append("message Scalars {\n" + "\n".join(body) + "\n  oneof choice {\n" + "\n".join(oneof) + "\n  }\n}")

    # fields named like builtins shadow them inside the class body
    lines.append("""message Shadow {
  int32 int = 1;
  float float = 2;
  string str = 3;
  bool bool = 4;
  bytes bytes = 5;
  repeated int32 ints = 6;
  optional int32 opt_int = 7;
  map<int32, string> int_to_str = 8;
  map<string, bytes> str_to_bytes = 9;
  google.protobuf.Int32Value wrapped_int = 10;
  google.protobuf.StringValue wrapped_str = 11;
  google.protobuf.DoubleValue wrapped_float = 12;
  repeated google.protobuf.BoolValue wrapped_bools = 13;
  map<string, google.protobuf.Int32Value> map_wrapped = 14;
  a.y.Target target = 15;
  repeated a.y.Kind kinds = 16;
  map<int64, a.y.Target> targets = 17;
  uint64 other = 18;
  oneof which { int32 w_int = 19; string w_str = 20; a.y.Target w_target = 21; google.protobuf.BytesValue w_bytes = 22; }
  google.protobuf.Timestamp ts = 23;
}""")
    lines.append("message HalfShadow { int32 list = 1; repeated string names = 2; map<string, int32> dict = 3; int32 plain = 4; double float = 5; optional float of = 6; }")
    lines.append("message SameName { int32 int = 1; }")
    lines.append("message Times { google.protobuf.Timestamp datetime = 1; google.protobuf.Duration timedelta = 2; repeated google.protobuf.Duration ds = 3; }")
    lines.append("message Empty {}")
    files["x.proto"] = "\n".join(lines)
    return files

# --- recorded on the reference tree ---
GOLDEN_FIELDS = ['v: int = betterproto.int32_field(1)',
 'v: int = betterproto.int32_field(1)',
 'one0: "__RootMsg__" = betterproto.message_field(1)',
 'many0: List["__RootMsg__"] = betterproto.message_field(2)',
 'opt0: Optional["__RootMsg__"] = betterproto.message_field(3, optional=True)',
 'map0: Dict[str, "__RootMsg__"] = betterproto.map_field(4, betterproto.TYPE_STRING, betterproto.TYPE_MESSAGE)',
 'one1: "__RootMsgSub__" = betterproto.message_field(6)',
 'many1: List["__RootMsgSub__"] = betterproto.message_field(7)',
 'opt1: Optional["__RootMsgSub__"] = betterproto.message_field(8, optional=True)',
 'map1: Dict[str, "__RootMsgSub__"] = betterproto.map_field(9, betterproto.TYPE_STRING, betterproto.TYPE_MESSAGE)',
 'one2: "__RootKind__" = betterproto.enum_field(11)',
 'many2: List["__RootKind__"] = betterproto.enum_field(12)',
 'opt2: Optional["__RootKind__"] = betterproto.enum_field(13, optional=True)',
 'map2: Dict[str, "__RootKind__"] = betterproto.map_field(14, betterproto.TYPE_STRING, betterproto.TYPE_ENUM)',
 'one3: "__a__.Top" = betterproto.message_field(16)',
 'many3: List["__a__.Top"] = betterproto.message_field(17)',
 'opt3: Optional["__a__.Top"] = betterproto.message_field(18, optional=True)',
 'map3: Dict[str, "__a__.Top"] = betterproto.map_field(19, betterproto.TYPE_STRING, betterproto.TYPE_MESSAGE)',
 'one4: "__a__.TopNested" = betterproto.message_field(21)',
 'many4: List["__a__.TopNested"] = betterproto.message_field(22)',
 'opt4: Optional["__a__.TopNested"] = betterproto.message_field(23, optional=True)',
 'map4: Dict[str, "__a__.TopNested"] = betterproto.map_field(24, betterproto.TYPE_STRING, betterproto.TYPE_MESSAGE)',
 'one5: "__a__.TopNEnum" = betterproto.enum_field(26)',
 'many5: List["__a__.TopNEnum"] = betterproto.enum_field(27)',
 'opt5: Optional["__a__.TopNEnum"] = betterproto.enum_field(28, optional=True)',
 'map5: Dict[str, "__a__.TopNEnum"] = betterproto.map_field(29, betterproto.TYPE_STRING, betterproto.TYPE_ENUM)',
 'one6: "_y__.Target" = betterproto.message_field(31)',
 'many6: List["_y__.Target"] = betterproto.message_field(32)',
 'opt6: Optional["_y__.Target"] = betterproto.message_field(33, optional=True)',
 'map6: Dict[str, "_y__.Target"] = betterproto.map_field(34, betterproto.TYPE_STRING, betterproto.TYPE_MESSAGE)',
 'one7: "_y__.TargetInner" = betterproto.message_field(36)',
 'many7: List["_y__.TargetInner"] = betterproto.message_field(37)',
 'opt7: Optional["_y__.TargetInner"] = betterproto.message_field(38, optional=True)',
 'map7: Dict[str, "_y__.TargetInner"] = betterproto.map_field(39, betterproto.TYPE_STRING, betterproto.TYPE_MESSAGE)',
 'one8: "_y__.Kind" = betterproto.enum_field(41)',
 'many8: List["_y__.Kind"] = betterproto.enum_field(42)',
 'opt8: Optional["_y__.Kind"] = betterproto.enum_field(43, optional=True)',
 'map8: Dict[str, "_y__.Kind"] = betterproto.map_field(44, betterproto.TYPE_STRING, betterproto.TYPE_ENUM)',
 'one9: "_y__.TargetNKind" = betterproto.enum_field(46)',
 'many9: List["_y__.TargetNKind"] = betterproto.enum_field(47)',
 'opt9: Optional["_y__.TargetNKind"] = betterproto.enum_field(48, optional=True)',
 'map9: Dict[str, "_y__.TargetNKind"] = betterproto.map_field(49, betterproto.TYPE_STRING, betterproto.TYPE_ENUM)',
 'one10: "_y__.TargetInnerDeep" = betterproto.message_field(51)',
 'many10: List["_y__.TargetInnerDeep"] = betterproto.message_field(52)',
 'opt10: Optional["_y__.TargetInnerDeep"] = betterproto.message_field(53, optional=True)',
 'map10: Dict[str, "_y__.TargetInnerDeep"] = betterproto.map_field(54, betterproto.TYPE_STRING, betterproto.TYPE_MESSAGE)',
 'one11: "Local" = betterproto.message_field(56)',
 'many11: List["Local"] = betterproto.message_field(57)',
 'opt11: Optional["Local"] = betterproto.message_field(58, optional=True)',
 'map11: Dict[str, "Local"] = betterproto.map_field(59, betterproto.TYPE_STRING, betterproto.TYPE_MESSAGE)',
 'one12: "LocalIn" = betterproto.message_field(61)',
 'many12: List["LocalIn"] = betterproto.message_field(62)',
 'opt12: Optional["LocalIn"] = betterproto.message_field(63, optional=True)',
 'map12: Dict[str, "LocalIn"] = betterproto.map_field(64, betterproto.TYPE_STRING, betterproto.TYPE_MESSAGE)',
 'one13: "LocalKind" = betterproto.enum_field(66)',
 'many13: List["LocalKind"] = betterproto.enum_field(67)',
 'opt13: Optional["LocalKind"] = betterproto.enum_field(68, optional=True)',
 'map13: Dict[str, "LocalKind"] = betterproto.map_field(69, betterproto.TYPE_STRING, betterproto.TYPE_ENUM)',
 'one14: "deep.Leaf" = betterproto.message_field(71)',
 'many14: List["deep.Leaf"] = betterproto.message_field(72)',
 'opt14: Optional["deep.Leaf"] = betterproto.message_field(73, optional=True)',
 'map14: Dict[str, "deep.Leaf"] = betterproto.map_field(74, betterproto.TYPE_STRING, betterproto.TYPE_MESSAGE)',
 'one15: "deep_er.Leaf2" = betterproto.message_field(76)',
 'many15: List["deep_er.Leaf2"] = betterproto.message_field(77)',
 'opt15: Optional["deep_er.Leaf2"] = betterproto.message_field(78, optional=True)',
 'map15: Dict[str, "deep_er.Leaf2"] = betterproto.map_field(79, betterproto.TYPE_STRING, betterproto.TYPE_MESSAGE)',
 'one16: "deep.LeafKind" = betterproto.enum_field(81)',
 'many16: List["deep.LeafKind"] = betterproto.enum_field(82)',
 'opt16: Optional["deep.LeafKind"] = betterproto.enum_field(83, optional=True)',
 'map16: Dict[str, "deep.LeafKind"] = betterproto.map_field(84, betterproto.TYPE_STRING, betterproto.TYPE_ENUM)',
 'one17: "__p_q__.Far" = betterproto.message_field(86)',
 'many17: List["__p_q__.Far"] = betterproto.message_field(87)',
 'opt17: Optional["__p_q__.Far"] = betterproto.message_field(88, optional=True)',
 'map17: Dict[str, "__p_q__.Far"] = betterproto.map_field(89, betterproto.TYPE_STRING, betterproto.TYPE_MESSAGE)',
 'one18: "__p__.Near" = betterproto.message_field(91)',
 'many18: List["__p__.Near"] = betterproto.message_field(92)',
 'opt18: Optional["__p__.Near"] = betterproto.message_field(93, optional=True)',
 'map18: Dict[str, "__p__.Near"] = betterproto.map_field(94, betterproto.TYPE_STRING, betterproto.TYPE_MESSAGE)',
 'one19: "_yy_z__.Cousin" = betterproto.message_field(96)',
 'many19: List["_yy_z__.Cousin"] = betterproto.message_field(97)',
 'opt19: Optional["_yy_z__.Cousin"] = betterproto.message_field(98, optional=True)',
 'map19: Dict[str, "_yy_z__.Cousin"] = betterproto.map_field(99, betterproto.TYPE_STRING, betterproto.TYPE_MESSAGE)',
 'one20: "betterproto_lib_google_protobuf.Any" = betterproto.message_field(101)',
 'many20: List["betterproto_lib_google_protobuf.Any"] = betterproto.message_field(102)',
 'opt20: Optional["betterproto_lib_google_protobuf.Any"] = betterproto.message_field(103, optional=True)',
 'map20: Dict[str, "betterproto_lib_google_protobuf.Any"] = betterproto.map_field(104, betterproto.TYPE_STRING, betterproto.TYPE_MESSAGE)',
 'one21: "betterproto_lib_google_protobuf.Struct" = betterproto.message_field(106)',
 'many21: List["betterproto_lib_google_protobuf.Struct"] = betterproto.message_field(107)',
 'opt21: Optional["betterproto_lib_google_protobuf.Struct"] = betterproto.message_field(108, optional=True)',
 'map21: Dict[str, "betterproto_lib_google_protobuf.Struct"] = betterproto.map_field(109, betterproto.TYPE_STRING, betterproto.TYPE_MESSAGE)',
 'one22: "betterproto_lib_google_protobuf.NullValue" = betterproto.enum_field(111)',
 'many22: List["betterproto_lib_google_protobuf.NullValue"] = betterproto.enum_field(112)',
 'opt22: Optional["betterproto_lib_google_protobuf.NullValue"] = betterproto.enum_field(113, optional=True)',
 'map22: Dict[str, "betterproto_lib_google_protobuf.NullValue"] = betterproto.map_field(114, betterproto.TYPE_STRING, betterproto.TYPE_ENUM)',
 'one23: "betterproto_lib_google_protobuf.FieldKind" = betterproto.enum_field(116)',
 'many23: List["betterproto_lib_google_protobuf.FieldKind"] = betterproto.enum_field(117)',
 'opt23: Optional["betterproto_lib_google_protobuf.FieldKind"] = betterproto.enum_field(118, optional=True)',
 'map23: Dict[str, "betterproto_lib_google_protobuf.FieldKind"] = betterproto.map_field(119, betterproto.TYPE_STRING, betterproto.TYPE_ENUM)',
 'one24: datetime = betterproto.message_field(121)',
 'many24: List[datetime] = betterproto.message_field(122)',
 'opt24: Optional[datetime] = betterproto.message_field(123, optional=True)',
 'map24: Dict[str, datetime] = betterproto.map_field(124, betterproto.TYPE_STRING, betterproto.TYPE_MESSAGE)',
 'one25: timedelta = betterproto.message_field(126)',
 'many25: List[timedelta] = betterproto.message_field(127)',
 'opt25: Optional[timedelta] = betterproto.message_field(128, optional=True)',
 'map25: Dict[str, timedelta] = betterproto.map_field(129, betterproto.TYPE_STRING, betterproto.TYPE_MESSAGE)',
 'one26: "betterproto_lib_google_protobuf.Empty" = betterproto.message_field(131)',
 'many26: List["betterproto_lib_google_protobuf.Empty"] = betterproto.message_field(132)',
 'opt26: Optional["betterproto_lib_google_protobuf.Empty"] = betterproto.message_field(133, optional=True)',
 'map26: Dict[str, "betterproto_lib_google_protobuf.Empty"] = betterproto.map_field(134, betterproto.TYPE_STRING, betterproto.TYPE_MESSAGE)',
 'pick0: "__RootMsg__" = betterproto.message_field(5, group="pick")',
 'pick1: "__RootMsgSub__" = betterproto.message_field(10, group="pick")',
 'pick2: "__RootKind__" = betterproto.enum_field(15, group="pick")',
 'pick3: "__a__.Top" = betterproto.message_field(20, group="pick")',
 'pick4: "__a__.TopNested" = betterproto.message_field(25, group="pick")',
 'pick5: "__a__.TopNEnum" = betterproto.enum_field(30, group="pick")',
 'pick6: "_y__.Target" = betterproto.message_field(35, group="pick")',
 'pick7: "_y__.TargetInner" = betterproto.message_field(40, group="pick")',
 'pick8: "_y__.Kind" = betterproto.enum_field(45, group="pick")',
 'pick9: "_y__.TargetNKind" = betterproto.enum_field(50, group="pick")',
 'pick10: "_y__.TargetInnerDeep" = betterproto.message_field(55, group="pick")',
 'pick11: "Local" = betterproto.message_field(60, group="pick")',
 'pick12: "LocalIn" = betterproto.message_field(65, group="pick")',
 'pick13: "LocalKind" = betterproto.enum_field(70, group="pick")',
 'pick14: "deep.Leaf" = betterproto.message_field(75, group="pick")',
 'pick15: "deep_er.Leaf2" = betterproto.message_field(80, group="pick")',
 'pick16: "deep.LeafKind" = betterproto.enum_field(85, group="pick")',
 'pick17: "__p_q__.Far" = betterproto.message_field(90, group="pick")',
 'pick18: "__p__.Near" = betterproto.message_field(95, group="pick")',
 'pick19: "_yy_z__.Cousin" = betterproto.message_field(100, group="pick")',
 'pick20: "betterproto_lib_google_protobuf.Any" = betterproto.message_field(105, group="pick")',
 'pick21: "betterproto_lib_google_protobuf.Struct" = betterproto.message_field(110, group="pick")',
 'pick22: "betterproto_lib_google_protobuf.NullValue" = betterproto.enum_field(115, group="pick")',
 'pick23: "betterproto_lib_google_protobuf.FieldKind" = betterproto.enum_field(120, group="pick")',
 'pick24: datetime = betterproto.message_field(125, group="pick")',
 'pick25: timedelta = betterproto.message_field(130, group="pick")',
 'pick26: "betterproto_lib_google_protobuf.Empty" = betterproto.message_field(135, group="pick")',
 'one_double: float = betterproto.double_field(1)',
 'many_double: List[float] = betterproto.double_field(2)',
 'opt_double: Optional[float] = betterproto.double_field(3, optional=True)',
 'one_float: float = betterproto.float_field(5)',
 'many_float: List[float] = betterproto.float_field(6)',
 'opt_float: Optional[float] = betterproto.float_field(7, optional=True)',
 'one_int32: int = betterproto.int32_field(9)',
 'many_int32: List[int] = betterproto.int32_field(10)',
 'opt_int32: Optional[int] = betterproto.int32_field(11, optional=True)',
 'map_int32: Dict[int, int] = betterproto.map_field(13, betterproto.TYPE_INT32, betterproto.TYPE_INT32)',
 'one_int64: int = betterproto.int64_field(14)',
 'many_int64: List[int] = betterproto.int64_field(15)',
 'opt_int64: Optional[int] = betterproto.int64_field(16, optional=True)',
 'map_int64: Dict[int, int] = betterproto.map_field(18, betterproto.TYPE_INT64, betterproto.TYPE_INT64)',
 'one_uint32: int = betterproto.uint32_field(19)',
 'many_uint32: List[int] = betterproto.uint32_field(20)',
 'opt_uint32: Optional[int] = betterproto.uint32_field(21, optional=True)',
 'map_uint32: Dict[int, int] = betterproto.map_field(23, betterproto.TYPE_UINT32, betterproto.TYPE_UINT32)',
 'one_uint64: int = betterproto.uint64_field(24)',
 'many_uint64: List[int] = betterproto.uint64_field(25)',
 'opt_uint64: Optional[int] = betterproto.uint64_field(26, optional=True)',
 'map_uint64: Dict[int, int] = betterproto.map_field(28, betterproto.TYPE_UINT64, betterproto.TYPE_UINT64)',
 'one_sint32: int = betterproto.sint32_field(29)',
 'many_sint32: List[int] = betterproto.sint32_field(30)',
 'opt_sint32: Optional[int] = betterproto.sint32_field(31, optional=True)',
 'map_sint32: Dict[int, int] = betterproto.map_field(33, betterproto.TYPE_SINT32, betterproto.TYPE_SINT32)',
 'one_sint64: int = betterproto.sint64_field(34)',
 'many_sint64: List[int] = betterproto.sint64_field(35)',
 'opt_sint64: Optional[int] = betterproto.sint64_field(36, optional=True)',
 'map_sint64: Dict[int, int] = betterproto.map_field(38, betterproto.TYPE_SINT64, betterproto.TYPE_SINT64)',
 'one_fixed32: int = betterproto.fixed32_field(39)',
 'many_fixed32: List[int] = betterproto.fixed32_field(40)',
 'opt_fixed32: Optional[int] = betterproto.fixed32_field(41, optional=True)',
 'map_fixed32: Dict[int, int] = betterproto.map_field(43, betterproto.TYPE_FIXED32, betterproto.TYPE_FIXED32)',
 'one_fixed64: int = betterproto.fixed64_field(44)',
 'many_fixed64: List[int] = betterproto.fixed64_field(45)',
 'opt_fixed64: Optional[int] = betterproto.fixed64_field(46, optional=True)',
 'map_fixed64: Dict[int, int] = betterproto.map_field(48, betterproto.TYPE_FIXED64, betterproto.TYPE_FIXED64)',
 'one_sfixed32: int = betterproto.sfixed32_field(49)',
 'many_sfixed32: List[int] = betterproto.sfixed32_field(50)',
 'opt_sfixed32: Optional[int] = betterproto.sfixed32_field(51, optional=True)',
 'map_sfixed32: Dict[int, int] = betterproto.map_field(53, betterproto.TYPE_SFIXED32, betterproto.TYPE_SFIXED32)',
 'one_sfixed64: int = betterproto.sfixed64_field(54)',
 'many_sfixed64: List[int] = betterproto.sfixed64_field(55)',
 'opt_sfixed64: Optional[int] = betterproto.sfixed64_field(56, optional=True)',
 'map_sfixed64: Dict[int, int] = betterproto.map_field(58, betterproto.TYPE_SFIXED64, betterproto.TYPE_SFIXED64)',
 'one_bool: bool = betterproto.bool_field(59)',
 'many_bool: List[bool] = betterproto.bool_field(60)',
 'opt_bool: Optional[bool] = betterproto.bool_field(61, optional=True)',
 'map_bool: Dict[bool, bool] = betterproto.map_field(63, betterproto.TYPE_BOOL, betterproto.TYPE_BOOL)',
 'one_string: str = betterproto.string_field(64)',
 'many_string: List[str] = betterproto.string_field(65)',
 'opt_string: Optional[str] = betterproto.string_field(66, optional=True)',
 'map_string: Dict[str, str] = betterproto.map_field(68, betterproto.TYPE_STRING, betterproto.TYPE_STRING)',
 'one_bytes: bytes = betterproto.bytes_field(69)',
 'many_bytes: List[bytes] = betterproto.bytes_field(70)',
 'opt_bytes: Optional[bytes] = betterproto.bytes_field(71, optional=True)',
 'one_double_value: Optional[float] = betterproto.message_field(73, wraps=betterproto.TYPE_DOUBLE)',
 'many_double_value: List[Optional[float]] = betterproto.message_field(74, wraps=betterproto.TYPE_DOUBLE)',
 'opt_double_value: Optional[Optional[float]] = betterproto.message_field(75, wraps=betterproto.TYPE_DOUBLE, optional=True)',
 'map_double_value: Dict[int, "betterproto_lib_google_protobuf.DoubleValue"] = betterproto.map_field(76, betterproto.TYPE_INT32, betterproto.TYPE_MESSAGE)',
 'one_float_value: Optional[float] = betterproto.message_field(78, wraps=betterproto.TYPE_FLOAT)',
 'many_float_value: List[Optional[float]] = betterproto.message_field(79, wraps=betterproto.TYPE_FLOAT)',
 'opt_float_value: Optional[Optional[float]] = betterproto.message_field(80, wraps=betterproto.TYPE_FLOAT, optional=True)',
 'map_float_value: Dict[int, "betterproto_lib_google_protobuf.FloatValue"] = betterproto.map_field(81, betterproto.TYPE_INT32, betterproto.TYPE_MESSAGE)',
 'one_int32_value: Optional[int] = betterproto.message_field(83, wraps=betterproto.TYPE_INT32)',
 'many_int32_value: List[Optional[int]] = betterproto.message_field(84, wraps=betterproto.TYPE_INT32)',
 'opt_int32_value: Optional[Optional[int]] = betterproto.message_field(85, wraps=betterproto.TYPE_INT32, optional=True)',
 'map_int32_value: Dict[int, "betterproto_lib_google_protobuf.Int32Value"] = betterproto.map_field(86, betterproto.TYPE_INT32, betterproto.TYPE_MESSAGE)',
 'one_int64_value: Optional[int] = betterproto.message_field(88, wraps=betterproto.TYPE_INT64)',
 'many_int64_value: List[Optional[int]] = betterproto.message_field(89, wraps=betterproto.TYPE_INT64)',
 'opt_int64_value: Optional[Optional[int]] = betterproto.message_field(90, wraps=betterproto.TYPE_INT64, optional=True)',
 'map_int64_value: Dict[int, "betterproto_lib_google_protobuf.Int64Value"] = betterproto.map_field(91, betterproto.TYPE_INT32, betterproto.TYPE_MESSAGE)',
 'one_u_int32_value: Optional[int] = betterproto.message_field(93, wraps=betterproto.TYPE_UINT32)',
 'many_u_int32_value: List[Optional[int]] = betterproto.message_field(94, wraps=betterproto.TYPE_UINT32)',
 'opt_u_int32_value: Optional[Optional[int]] = betterproto.message_field(95, wraps=betterproto.TYPE_UINT32, optional=True)',
 'map_u_int32_value: Dict[int, "betterproto_lib_google_protobuf.UInt32Value"] = betterproto.map_field(96, betterproto.TYPE_INT32, betterproto.TYPE_MESSAGE)',
 'one_u_int64_value: Optional[int] = betterproto.message_field(98, wraps=betterproto.TYPE_UINT64)',
 'many_u_int64_value: List[Optional[int]] = betterproto.message_field(99, wraps=betterproto.TYPE_UINT64)',
 'opt_u_int64_value: Optional[Optional[int]] = betterproto.message_field(100, wraps=betterproto.TYPE_UINT64, optional=True)',
 'map_u_int64_value: Dict[int, "betterproto_lib_google_protobuf.UInt64Value"] = betterproto.map_field(101, betterproto.TYPE_INT32, betterproto.TYPE_MESSAGE)',
 'one_bool_value: Optional[bool] = betterproto.message_field(103, wraps=betterproto.TYPE_BOOL)',
 'many_bool_value: List[Optional[bool]] = betterproto.message_field(104, wraps=betterproto.TYPE_BOOL)',
 'opt_bool_value: Optional[Optional[bool]] = betterproto.message_field(105, wraps=betterproto.TYPE_BOOL, optional=True)',
 'map_bool_value: Dict[int, "betterproto_lib_google_protobuf.BoolValue"] = betterproto.map_field(106, betterproto.TYPE_INT32, betterproto.TYPE_MESSAGE)',
 'one_string_value: Optional[str] = betterproto.message_field(108, wraps=betterproto.TYPE_STRING)',
 'many_string_value: List[Optional[str]] = betterproto.message_field(109, wraps=betterproto.TYPE_STRING)',
 'opt_string_value: Optional[Optional[str]] = betterproto.message_field(110, wraps=betterproto.TYPE_STRING, optional=True)',
 'map_string_value: Dict[int, "betterproto_lib_google_protobuf.StringValue"] = betterproto.map_field(111, betterproto.TYPE_INT32, betterproto.TYPE_MESSAGE)',
 'one_bytes_value: Optional[bytes] = betterproto.message_field(113, wraps=betterproto.TYPE_BYTES)',
 'many_bytes_value: List[Optional[bytes]] = betterproto.message_field(114, wraps=betterproto.TYPE_BYTES)',
 'opt_bytes_value: Optional[Optional[bytes]] = betterproto.message_field(115, wraps=betterproto.TYPE_BYTES, optional=True)',
 'map_bytes_value: Dict[int, "betterproto_lib_google_protobuf.BytesValue"] = betterproto.map_field(116, betterproto.TYPE_INT32, betterproto.TYPE_MESSAGE)',
 'pick_double: float = betterproto.double_field(4, group="choice")',
 'pick_float: float = betterproto.float_field(8, group="choice")',
 'pick_int32: int = betterproto.int32_field(12, group="choice")',
 'pick_int64: int = betterproto.int64_field(17, group="choice")',
 'pick_uint32: int = betterproto.uint32_field(22, group="choice")',
 'pick_uint64: int = betterproto.uint64_field(27, group="choice")',
 'pick_sint32: int = betterproto.sint32_field(32, group="choice")',
 'pick_sint64: int = betterproto.sint64_field(37, group="choice")',
 'pick_fixed32: int = betterproto.fixed32_field(42, group="choice")',
 'pick_fixed64: int = betterproto.fixed64_field(47, group="choice")',
 'pick_sfixed32: int = betterproto.sfixed32_field(52, group="choice")',
 'pick_sfixed64: int = betterproto.sfixed64_field(57, group="choice")',
 'pick_bool: bool = betterproto.bool_field(62, group="choice")',
 'pick_string: str = betterproto.string_field(67, group="choice")',
 'pick_bytes: bytes = betterproto.bytes_field(72, group="choice")',
 'pick_double_value: Optional[float] = betterproto.message_field(77, wraps=betterproto.TYPE_DOUBLE, group="choice")',
 'pick_float_value: Optional[float] = betterproto.message_field(82, wraps=betterproto.TYPE_FLOAT, group="choice")',
 'pick_int32_value: Optional[int] = betterproto.message_field(87, wraps=betterproto.TYPE_INT32, group="choice")',
 'pick_int64_value: Optional[int] = betterproto.message_field(92, wraps=betterproto.TYPE_INT64, group="choice")',
 'pick_u_int32_value: Optional[int] = betterproto.message_field(97, wraps=betterproto.TYPE_UINT32, group="choice")',
 'pick_u_int64_value: Optional[int] = betterproto.message_field(102, wraps=betterproto.TYPE_UINT64, group="choice")',
 'pick_bool_value: Optional[bool] = betterproto.message_field(107, wraps=betterproto.TYPE_BOOL, group="choice")',
 'pick_string_value: Optional[str] = betterproto.message_field(112, wraps=betterproto.TYPE_STRING, group="choice")',
 'pick_bytes_value: Optional[bytes] = betterproto.message_field(117, wraps=betterproto.TYPE_BYTES, group="choice")',
 'int: builtins.int = betterproto.int32_field(1)',
 'float: builtins.float = betterproto.float_field(2)',
 'str: builtins.str = betterproto.string_field(3)',
 'bool: builtins.bool = betterproto.bool_field(4)',
 'bytes: builtins.bytes = betterproto.bytes_field(5)',
 'ints: List[builtins.int] = betterproto.int32_field(6)',
 'opt_int: Optional[builtins.int] = betterproto.int32_field(7, optional=True)',
 'int_to_str: Dict[builtins.int, builtins.str] = betterproto.map_field(8, betterproto.TYPE_INT32, betterproto.TYPE_STRING)',
 'str_to_bytes: Dict[builtins.str, builtins.bytes] = betterproto.map_field(9, betterproto.TYPE_STRING, betterproto.TYPE_BYTES)',
 'wrapped_int: Optional[builtins.int] = betterproto.message_field(10, wraps=betterproto.TYPE_INT32)',
 'wrapped_str: Optional[builtins.str] = betterproto.message_field(11, wraps=betterproto.TYPE_STRING)',
 'wrapped_float: Optional[builtins.float] = betterproto.message_field(12, wraps=betterproto.TYPE_DOUBLE)',
 'wrapped_bools: List[Optional[builtins.bool]] = betterproto.message_field(13, wraps=betterproto.TYPE_BOOL)',
 'map_wrapped: Dict[builtins.str, "betterproto_lib_google_protobuf.Int32Value"] = betterproto.map_field(14, betterproto.TYPE_STRING, betterproto.TYPE_MESSAGE)',
 'target: "_y__.Target" = betterproto.message_field(15)',
 'kinds: List["_y__.Kind"] = betterproto.enum_field(16)',
 'targets: Dict[builtins.int, "_y__.Target"] = betterproto.map_field(17, betterproto.TYPE_INT64, betterproto.TYPE_MESSAGE)',
 'other: builtins.int = betterproto.uint64_field(18)',
 'w_int: builtins.int = betterproto.int32_field(19, group="which")',
 'w_str: builtins.str = betterproto.string_field(20, group="which")',
 'w_target: "_y__.Target" = betterproto.message_field(21, group="which")',
 'w_bytes: Optional[builtins.bytes] = betterproto.message_field(22, wraps=betterproto.TYPE_BYTES, group="which")',
 'ts: datetime = betterproto.message_field(23)',
 'list: int = betterproto.int32_field(1)',
 'names: List[str] = betterproto.string_field(2)',
 'dict: Dict[str, int] = betterproto.map_field(3, betterproto.TYPE_STRING, betterproto.TYPE_INT32)',
 'plain: int = betterproto.int32_field(4)',
 'float: builtins.float = betterproto.double_field(5)',
 'of: Optional[builtins.float] = betterproto.float_field(6, optional=True)',
 'int: builtins.int = betterproto.int32_field(1)',
 'datetime: datetime = betterproto.message_field(1)',
 'timedelta: timedelta = betterproto.message_field(2)',
 'ds: List[timedelta] = betterproto.message_field(3)']

GOLDEN_DIGESTS = {'': '720b33098ba1dc5af7f9648e04f9ea992f87b83215103579e05781512f39eb49',
 'pydantic_dataclasses': '230e5364af9e7faa6e9624e2a99590c7734b02c674e0863b931fd2216f8080ad',
 'pydantic_dataclasses,typing.310': 'bd127382167e1f2c9835f200668c0bc5f35a9763eac66165c90c3b6903629f6f',
 'pydantic_dataclasses,typing.root': 'c7152dfc2262aff1eaaad3afc6f021c517b6199225800988e6be0f63bf68c06c',
 'typing.310': '9198bb7d4bef8df4ea44632f62bbc781c664e8ba94465a9109803e5a1501218c',
 'typing.direct': '720b33098ba1dc5af7f9648e04f9ea992f87b83215103579e05781512f39eb49',
 'typing.root': '6ecaa1eac07044cec903822d077a1f8f4ee74747bd287a39954927db1569f1eb'}

GOLDEN_IMPORTS = ['from . import deep',
 'from .. import y as _y__',
 'from ... import RootKind as __RootKind__',
 'from ... import RootMsg as __RootMsg__',
 'from ... import RootMsgSub as __RootMsgSub__',
 'from ... import a as __a__',
 'from ... import p as __p__',
 'from ...p import q as __p_q__',
 'from ..yy import z as _yy_z__',
 'from .deep import er as deep_er',
 'import betterproto.lib.google.protobuf as betterproto_lib_google_protobuf']

GOLDEN_IMPORTS_PYDANTIC = ['from . import deep',
 'from .. import y as _y__',
 'from ... import RootKind as __RootKind__',
 'from ... import RootMsg as __RootMsg__',
 'from ... import RootMsgSub as __RootMsgSub__',
 'from ... import a as __a__',
 'from ... import p as __p__',
 'from ...p import q as __p_q__',
 'from ..yy import z as _yy_z__',
 'from .deep import er as deep_er',
 'import betterproto.lib.pydantic.google.protobuf as betterproto_lib_pydantic_google_protobuf']


# ---------------------------------------------------------------------------------
# helpers
# ---------------------------------------------------------------------------------
FIELD_LINE = re.compile(r"^    (\w+): (.*) = (betterproto\.\w+_field\(.*\))$")


def field_lines(src):
    return [l.strip() for l in src.splitlines() if FIELD_LINE.match(l)]


def import_lines(src):
    return sorted(
        l for l in src.splitlines() if re.match(r"^(from \.|import betterproto\.lib)", l)
    )


def parse_annotation(text):
    """direct-style annotation -> nested tuples."""
    for generic in ("Optional", "List"):
        if text.startswith(generic + "[") and text.endswith("]"):
            return (generic, parse_annotation(text[len(generic) + 1 : -1]))
    if text.startswith("Dict[") and text.endswith("]"):
        key, _, value = text[5:-1].partition(", ")
        return ("Dict", key, parse_annotation(value))
    assert "[" not in text, text
    return text


def unquote(text):
    return text[1:-1] if text.startswith('"') else text


def spell(tree, style):
    if isinstance(tree, str):
        return tree
    if style == "root":
        if tree[0] == "Dict":
            return f"typing.Dict[{tree[1]}, {spell(tree[2], style)}]"
        return f"typing.{tree[0]}[{spell(tree[1], style)}]"
    assert style == "310"
    if tree[0] == "Optional":
        return f'"{unquote(spell(tree[1], style))} | None"'
    if tree[0] == "List":
        return f'"list[{unquote(spell(tree[1], style))}]"'
    return f'"dict[{tree[1]}, {unquote(spell(tree[2], style))}]"'


def restyle(line, style):
    name, annotation, call = FIELD_LINE.match("    " + line).groups()
    return f"{name}: {spell(parse_annotation(annotation), style)} = {call}"


assert restyle('m: Dict[str, "_y__.T"] = betterproto.map_field(1, a, b)', "310") == (
    'm: "dict[str, _y__.T]" = betterproto.map_field(1, a, b)'
)
assert restyle("m: List[Optional[int]] = betterproto.message_field(1)", "310") == (
    'm: "list[int | None]" = betterproto.message_field(1)'
)
assert restyle('m: Optional["T"] = betterproto.message_field(1)', "root") == (
    'm: typing.Optional["T"] = betterproto.message_field(1)'
)


def digest(lines):
    return hashlib.sha256("\n".join(lines).encode()).hexdigest()


def load(name):
    return importlib.import_module(name)


def target_class(root, proto_name):
    """The class generated (or bundled) for a fully qualified proto type."""
    if proto_name == "google.protobuf.Timestamp":
        return _dt.datetime
    if proto_name == "google.protobuf.Duration":
        return _dt.timedelta
    parts = proto_name.split(".")
    package = [p for p in parts if p[0].islower()]
    cls_name = "".join(p for p in parts if p[0].isupper())
    if package == ["google", "protobuf"]:
        return getattr(bundled, cls_name)
    module = load(".".join([root, *package]))
    return getattr(module, cls_name)


def sample(cls, kind):
    if cls is _dt.datetime:
        return _dt.datetime(2020, 1, 2, 3, 4, 5, tzinfo=_dt.timezone.utc)
    if cls is _dt.timedelta:
        return _dt.timedelta(seconds=3, microseconds=7)
    if kind == "enum":
        return list(cls)[-1]
    inst = cls()
    if hasattr(inst, "v"):
        inst.v = 5
    elif hasattr(inst, "w"):
        inst.w = 6
    elif hasattr(inst, "d"):
        inst.d = 7
    elif cls is bundled.Any:
        inst.value = b"x"
    elif cls is bundled.Struct:
        inst.fields = {"k": bundled.Value(bool_value=True)}
    return inst


# ---------------------------------------------------------------------------------
# 1. text of the generated fields, for every option combination
# ---------------------------------------------------------------------------------
OPTIONS = [
    "",
    "typing.direct",
    "typing.root",
    "typing.310",
    "pydantic_dataclasses",
    "pydantic_dataclasses,typing.310",
    "pydantic_dataclasses,typing.root",
]
PROTOS = build_protos()
generated = {}
for option in OPTIONS:
    root, out = generate(PROTOS, parameter=option)
    generated[option] = (root, out)
    src = out["a/x/__init__.py"]
    lines = field_lines(src)
    assert len(lines) == len(GOLDEN_FIELDS) == 287, (option, len(lines))
    assert digest(lines) == GOLDEN_DIGESTS[option], option
    if option in ("", "typing.direct"):
        for got, want in zip(lines, GOLDEN_FIELDS):
            assert got == want, (option, got, want)
    elif option in ("typing.root", "typing.310"):
        style = option.split(".")[1]
        for got, want in zip(lines, GOLDEN_FIELDS):
            assert got == restyle(want, style), (option, got, restyle(want, style))
    pydantic = "pydantic" in option
    assert import_lines(src) == (GOLDEN_IMPORTS_PYDANTIC if pydantic else GOLDEN_IMPORTS), option
    assert re.search(r"^from datetime import datetime, timedelta$", src, re.M), option
    assert re.search(r"^import builtins$", src, re.M), option
    compile(src, "a/x/__init__.py", "exec")
    # modules that need no datetime / builtins do not import them
    other = out["a/y/__init__.py"]
    assert "import builtins" not in other and "from datetime" not in other
    assert field_lines(other) == [
        "v: int = betterproto.int32_field(1)",
        "w: int = betterproto.int32_field(1)",
        "d: int = betterproto.int32_field(1)",
    ], option

# a few literal spot checks, independent of the recorded table
direct = field_lines(generated[""][1]["a/x/__init__.py"])
for expected in [
    'one6: "_y__.Target" = betterproto.message_field(31)',
    'many7: List["_y__.TargetInner"] = betterproto.message_field(37)',
    'opt8: Optional["_y__.Kind"] = betterproto.enum_field(43, optional=True)',
    'map9: Dict[str, "_y__.TargetNKind"] = betterproto.map_field(49, betterproto.TYPE_STRING, betterproto.TYPE_ENUM)',
    'pick0: "__RootMsg__" = betterproto.message_field(5, group="pick")',
    'one_int32_value: Optional[int] = betterproto.message_field(83, wraps=betterproto.TYPE_INT32)',
    "int: builtins.int = betterproto.int32_field(1)",
    "wrapped_int: Optional[builtins.int] = betterproto.message_field(10, wraps=betterproto.TYPE_INT32)",
    "int_to_str: Dict[builtins.int, builtins.str] = betterproto.map_field(8, betterproto.TYPE_INT32, betterproto.TYPE_STRING)",
    "ds: List[timedelta] = betterproto.message_field(3)",
]:
    assert expected in direct, expected
pyd = field_lines(generated["pydantic_dataclasses"][1]["a/x/__init__.py"])
assert 'pick6: Optional["_y__.Target"] = betterproto.message_field(35, optional=True, group="pick")' in pyd
assert (
    'pick20: Optional["betterproto_lib_pydantic_google_protobuf.Any"] = '
    'betterproto.message_field(105, optional=True, group="pick")' in pyd
)

# ---------------------------------------------------------------------------------
# 2. the generated packages import and every reference is the right class
# ---------------------------------------------------------------------------------
for option in ("", "typing.root", "typing.310"):
    root, out = generated[option]
    for name in out:
        package = name[: -len("__init__.py")].strip("/").replace("/", ".")
        load(f"{root}.{package}" if package else root)
    px = load(f"{root}.a.x")
    hints = typing.get_type_hints(px.Holder, vars(px), {})
    values = {}
    for i, (proto_name, kind) in enumerate(TARGETS):
        cls = target_class(root, proto_name)
        where = (option, proto_name)
        assert hints[f"one{i}"] is cls, where
        assert hints[f"many{i}"].__args__[0] is cls, where
        assert hints[f"opt{i}"].__args__[0] is cls, where
        assert hints[f"map{i}"].__args__ == (str, cls), where
        assert hints[f"pick{i}"] is cls, where
        values[f"one{i}"] = sample(cls, kind)
        values[f"many{i}"] = [sample(cls, kind), sample(cls, kind)]
        values[f"opt{i}"] = sample(cls, kind)
        values[f"map{i}"] = {"k": sample(cls, kind)}
    msg = px.Holder(**values)
    back = px.Holder().parse(bytes(msg))
    assert back == msg, option
    for i, (proto_name, kind) in enumerate(TARGETS):
        cls = target_class(root, proto_name)
        for got in (
            getattr(back, f"one{i}"),
            getattr(back, f"many{i}")[0],
            getattr(back, f"opt{i}"),
            getattr(back, f"map{i}")["k"],
        ):
            assert type(got) is cls, (option, proto_name, type(got))
        # one oneof member at a time
        single = px.Holder(**{f"pick{i}": sample(cls, kind)})
        back1 = px.Holder().parse(bytes(single))
        assert betterproto.which_one_of(back1, "pick")[0] == f"pick{i}", (option, proto_name)
        assert type(getattr(back1, f"pick{i}")) is cls, (option, proto_name)

    # builtin-shadowing fields still resolve to the builtin types
    sh = typing.get_type_hints(px.Shadow, vars(px), {})
    assert sh["int"] is int and sh["str"] is str and sh["bytes"] is bytes and sh["bool"] is bool
    assert sh["float"] is float and sh["other"] is int
    assert sh["ints"].__args__ == (int,) and set(sh["opt_int"].__args__) == {int, type(None)}
    assert sh["int_to_str"].__args__ == (int, str) and sh["str_to_bytes"].__args__ == (str, bytes)
    assert set(sh["wrapped_int"].__args__) == {int, type(None)}
    assert sh["map_wrapped"].__args__ == (str, bundled.Int32Value)
    py_ = load(f"{root}.a.y")
    assert sh["target"] is py_.Target and sh["kinds"].__args__ == (py_.Kind,)
    assert sh["targets"].__args__ == (int, py_.Target) and sh["w_target"] is py_.Target
    m = px.Shadow(int=1, float=2.5, str="s", bool=True, bytes=b"b", ints=[1, 2], opt_int=0,
                  int_to_str={1: "a"}, str_to_bytes={"k": b"v"}, wrapped_int=3, wrapped_str="",
                  wrapped_bools=[True, False], map_wrapped={"k": bundled.Int32Value(value=4)},
                  target=py_.Target(v=1), kinds=[py_.Kind.K1], targets={7: py_.Target(v=2)},
                  other=9, w_bytes=b"zz")
    assert px.Shadow().parse(bytes(m)) == m

    sc = typing.get_type_hints(px.Scalars, vars(px), {})
    assert sc["one_double"] is float and sc["many_string"].__args__ == (str,)
    assert set(sc["opt_bytes"].__args__) == {bytes, type(None)}
    assert sc["map_int64"].__args__ == (int, int) and sc["map_string"].__args__ == (str, str)
    assert set(sc["one_bytes_value"].__args__) == {bytes, type(None)}
    assert sc["map_bool_value"].__args__ == (int, bundled.BoolValue)
    s = px.Scalars(one_double=1.5, many_string=["a", ""], opt_bytes=b"", map_int64={1: 2},
                   one_bytes_value=b"", one_int32_value=0, map_bool_value={1: bundled.BoolValue(value=True)},
                   pick_string_value="x")
    back = px.Scalars().parse(bytes(s))
    assert back == s and back.one_int32_value == 0 and back.opt_bytes == b""
    assert betterproto.which_one_of(back, "choice") == ("pick_string_value", "x")


print("C13 keep1 equiv: OK")
