"""C15 keep2: JSON / dict input for Timestamp and Duration fields (RFC 3339 strings and
decimal-seconds strings) is converted to the exact datetime / timedelta - for singular,
optional, repeated and map fields, via the class-level from_dict, the instance-level
from_dict and from_json - and the neighbouring branches of the same dispatch (wrapper
fields, nested messages, maps of messages / enums / scalars) behave as before.
Timestamps are cross-checked against google.protobuf's JSON parser."""
import json
import random
from dataclasses import dataclass
from datetime import datetime, timedelta, timezone
from typing import Dict, List, Optional

from google.protobuf import duration_pb2, timestamp_pb2

import betterproto

US = timedelta(microseconds=1)
EPOCH = datetime(1970, 1, 1, tzinfo=timezone.utc)
LIMIT_S = 315_576_000_000


class Colour(betterproto.Enum):
    ZERO = 0
    RED = 1
    BLUE = 5


@dataclass(eq=False, repr=False)
class Inner(betterproto.Message):
    n: int = betterproto.int64_field(1)
    when: datetime = betterproto.message_field(2)
    span: timedelta = betterproto.message_field(3)


@dataclass(eq=False, repr=False)
class Outer(betterproto.Message):
    when: datetime = betterproto.message_field(1)
    span: timedelta = betterproto.message_field(2)
    maybe_when: Optional[datetime] = betterproto.message_field(3, optional=True)
    maybe_span: Optional[timedelta] = betterproto.message_field(4, optional=True)
    whens: List[datetime] = betterproto.message_field(5)
    spans: List[timedelta] = betterproto.message_field(6)
    when_by: Dict[str, datetime] = betterproto.map_field(
        7, betterproto.TYPE_STRING, betterproto.TYPE_MESSAGE
    )
    span_by: Dict[int, timedelta] = betterproto.map_field(
        8, betterproto.TYPE_INT32, betterproto.TYPE_MESSAGE
    )
    inner: Inner = betterproto.message_field(9)
    inners: List[Inner] = betterproto.message_field(10)
    inner_by: Dict[str, Inner] = betterproto.map_field(
        11, betterproto.TYPE_STRING, betterproto.TYPE_MESSAGE
    )
    big: Optional[int] = betterproto.message_field(12, wraps=betterproto.TYPE_INT64)
    blob: Optional[bytes] = betterproto.message_field(13, wraps=betterproto.TYPE_BYTES)
    ratio: Optional[float] = betterproto.message_field(14, wraps=betterproto.TYPE_DOUBLE)
    label: Optional[str] = betterproto.message_field(15, wraps=betterproto.TYPE_STRING)
    flag: Optional[bool] = betterproto.message_field(16, wraps=betterproto.TYPE_BOOL)
    colour_by: Dict[str, Colour] = betterproto.map_field(
        17, betterproto.TYPE_STRING, betterproto.TYPE_ENUM
    )
    count_by: Dict[bool, int] = betterproto.map_field(
        18, betterproto.TYPE_BOOL, betterproto.TYPE_INT64
    )


# ---- independent oracles ------------------------------------------------------------
def ts_text(dt: datetime, offset_minutes=None) -> str:
    """RFC 3339 text for an aware datetime; 'Z' form or a numeric offset."""
    if offset_minutes is None:
        local, suffix = dt.astimezone(timezone.utc), "Z"
    else:
        tz = timezone(timedelta(minutes=offset_minutes))
        local = dt.astimezone(tz)
        sign = "-" if offset_minutes < 0 else "+"
        suffix = "%s%02d:%02d" % (sign, abs(offset_minutes) // 60, abs(offset_minutes) % 60)
    text = "%04d-%02d-%02dT%02d:%02d:%02d" % (
        local.year, local.month, local.day, local.hour, local.minute, local.second)
    if local.microsecond:
        if local.microsecond % 1000 == 0:
            text += ".%03d" % (local.microsecond // 1000)
        else:
            text += ".%06d" % local.microsecond
    return text + suffix


def span_text(delta: timedelta) -> str:
    total = delta // US
    digits = str(abs(total)).rjust(7, "0")
    return ("-" if total < 0 else "") + digits[:-6] + "." + digits[-6:] + "s"


def ref_instant(text: str) -> datetime:
    ref = timestamp_pb2.Timestamp()
    ref.FromJsonString(text)
    assert ref.nanos % 1000 == 0
    return EPOCH + timedelta(seconds=ref.seconds, microseconds=ref.nanos // 1000)


def ref_span(text: str) -> timedelta:
    ref = duration_pb2.Duration()
    ref.FromJsonString(text)
    assert ref.nanos % 1000 == 0
    return timedelta(seconds=ref.seconds, microseconds=ref.nanos // 1000)


def same_instant(got, want):
    assert isinstance(got, datetime) and got.tzinfo is not None, got
    assert got == want and got.utcoffset() is not None, (got, want)
    assert (got - EPOCH) // US == (want - EPOCH) // US


# ---- value pools --------------------------------------------------------------------
MIN_DT = datetime(1, 1, 1, tzinfo=timezone.utc)
MAX_DT = datetime(9999, 12, 31, 23, 59, 59, 999999, tzinfo=timezone.utc)
rng = random.Random(0xC15)

datetimes = [
    EPOCH, EPOCH + US, EPOCH - US, EPOCH + timedelta(seconds=1), EPOCH - timedelta(seconds=1),
    EPOCH - timedelta(seconds=1, microseconds=500_000), MIN_DT, MIN_DT + US, MAX_DT,
    MAX_DT - US, datetime(1969, 12, 31, 23, 59, 59, 999999, tzinfo=timezone.utc),
    datetime(2242, 12, 31, 23, 0, 0, 1, tzinfo=timezone.utc),
    datetime(2023, 3, 15, 22, 35, 51, 253277, tzinfo=timezone.utc),
    datetime(1972, 1, 1, 10, 0, 20, 21000, tzinfo=timezone.utc),
    datetime(999, 12, 31, 23, 59, 59, 999000, tzinfo=timezone.utc),
    datetime(2000, 2, 29, 12, 0, 0, tzinfo=timezone.utc),
    EPOCH + (2**53 + 1) * US,
]
span_of_range = (MAX_DT - MIN_DT) // US
for _ in range(600):
    datetimes.append(MIN_DT + rng.randint(0, span_of_range) * US)
for _ in range(200):
    datetimes.append(EPOCH + rng.randint(-3 * 10**6, 3 * 10**6) * US)

spans = [t * US for t in (
    0, 1, -1, 999, 1000, -1000, 500_000, -500_000, 999_999, -999_999, 10**6, -(10**6),
    -1_500_000, 1_200_000, 86_400 * 10**6, -86_400 * 10**6, 2**53 + 1, -(2**53 + 1),
    LIMIT_S * 10**6, -LIMIT_S * 10**6, LIMIT_S * 10**6 - 1, -(LIMIT_S * 10**6 - 1),
    8_640_000_000_999_999, -8_640_000_000_999_999)]
for _ in range(600):
    spans.append(rng.randint(-LIMIT_S * 10**6, LIMIT_S * 10**6) * US)
for _ in range(200):
    spans.append(rng.randint(-3 * 10**6, 3 * 10**6) * US)

OFFSETS = [None, 0, 60, -60, 330, -570, 14 * 60, -12 * 60, 1, -1, 23 * 60 + 59]


def offsets_for(dt):
    """Offsets whose local wall clock still lies in years 0001-9999."""
    out = []
    for off in OFFSETS:
        if off is None:
            out.append(off)
            continue
        try:
            dt.astimezone(timezone(timedelta(minutes=off)))
        except OverflowError:
            continue
        out.append(off)
    return out


# ---- singular fields: every loader, every spelling ----------------------------------
checked = 0
for i, dt in enumerate(datetimes):
    offs = offsets_for(dt)
    for off in (offs if i < 40 else [offs[i % len(offs)]]):
        text = ts_text(dt, off)
        want = ref_instant(text)
        same_instant(want, dt)  # oracle and reference agree
        same_instant(Outer.from_dict({"when": text}).when, dt)
        same_instant(Outer().from_dict({"when": text}).when, dt)
        same_instant(Outer().from_json(json.dumps({"when": text})).when, dt)
        same_instant(Outer.from_dict({"maybeWhen": text}).maybe_when, dt)
        same_instant(Outer.from_dict({"maybe_when": text}).maybe_when, dt)
        same_instant(Outer.from_dict({"inner": {"when": text}}).inner.when, dt)
        checked += 1

for delta in spans:
    texts = [span_text(delta)]
    total = delta // US
    if total % 1000 == 0:
        texts.append(span_text(delta)[:-4] + "s")  # 3 digits
    if total % 10**6 == 0:
        texts.append(span_text(delta)[:-8] + "s")  # no fraction at all
    texts.append(span_text(delta)[:-1] + "000s")  # 9 digits
    for text in texts:
        assert ref_span(text) == delta, (text, delta)
        for got in (
            Outer.from_dict({"span": text}).span,
            Outer().from_dict({"span": text}).span,
            Outer().from_json(json.dumps({"span": text})).span,
            Outer.from_dict({"maybeSpan": text}).maybe_span,
            Outer.from_dict({"inner": {"span": text}}).inner.span,
        ):
            assert type(got) is timedelta and got == delta, (text, got, delta)
        checked += 1

# ---- repeated and map fields --------------------------------------------------------
for _ in range(300):
    k = rng.randrange(0, 6)
    dts = [rng.choice(datetimes) for _ in range(k)]
    sps = [rng.choice(spans) for _ in range(k)]
    dt_texts = [ts_text(d, rng.choice(offsets_for(d))) for d in dts]
    payload = {
        "whens": dt_texts,
        "spans": [span_text(s) for s in sps],
        "whenBy": {"k%d" % j: t for j, t in enumerate(dt_texts)},
        "spanBy": {str(j - 2): span_text(s) for j, s in enumerate(sps)},
        "inners": [
            {"n": str(j), "when": t, "span": span_text(s)}
            for j, (t, s) in enumerate(zip(dt_texts, sps))
        ],
        "innerBy": {
            "i%d" % j: {"n": j, "when": t} for j, t in enumerate(dt_texts)
        },
    }
    for msg in (
        Outer.from_dict(payload),
        Outer().from_dict(payload),
        Outer().from_json(json.dumps(payload)),
    ):
        assert type(msg.whens) is list and len(msg.whens) == k
        for got, want in zip(msg.whens, dts):
            same_instant(got, want)
        assert msg.spans == sps and all(type(s) is timedelta for s in msg.spans)
        assert sorted(msg.when_by) == sorted("k%d" % j for j in range(k))
        for j, want in enumerate(dts):
            same_instant(msg.when_by["k%d" % j], want)
        assert msg.span_by == {j - 2: s for j, s in enumerate(sps)}
        assert len(msg.inners) == k
        for j, inner in enumerate(msg.inners):
            assert type(inner) is Inner and inner.n == j
            same_instant(inner.when, dts[j])
            assert inner.span == sps[j]
        assert sorted(msg.inner_by) == sorted("i%d" % j for j in range(k))
        for j in range(k):
            assert type(msg.inner_by["i%d" % j]) is Inner
            assert msg.inner_by["i%d" % j].n == j
            same_instant(msg.inner_by["i%d" % j].when, dts[j])
        # and the binary form of what was loaded is what the reference would send
        for got, want in zip(msg.whens, dts):
            ref = timestamp_pb2.Timestamp()
            ref.FromDatetime(want)
            assert bytes(betterproto._Timestamp.from_datetime(got)) == ref.SerializeToString()
    checked += 1

# empty containers and explicit nulls
m = Outer.from_dict({"whens": [], "spans": [], "whenBy": {}, "spanBy": {}, "inners": [],
                     "when": None, "span": None, "maybeWhen": None, "big": None})
assert m.whens == [] and m.spans == [] and m.when_by == {} and m.span_by == {}
assert m.inners == [] and m.maybe_when is None and m.big is None
assert m.when == EPOCH and m.span == timedelta(0)

# ---- the other branches of the same dispatch: wrappers, messages, enum / scalar maps -
m = Outer.from_dict({
    "big": "9007199254740993", "blob": "AAEC/w==", "ratio": "NaN", "label": "x", "flag": True,
    "inner": {"n": "-9007199254740993"},
    "colourBy": {"a": "RED", "b": 5, "c": "ZERO"},
    "countBy": {"true": "9007199254740993", "false": 2},
})
assert m.big == 9007199254740993 and type(m.big) is int
assert m.blob == b"\x00\x01\x02\xff" and m.label == "x" and m.flag is True
assert m.ratio != m.ratio
assert type(m.inner) is Inner and m.inner.n == -9007199254740993
assert m.colour_by == {"a": Colour.RED, "b": 5, "c": Colour.ZERO}
assert m.count_by == {True: 9007199254740993, False: 2}
assert Outer.from_dict({"ratio": "-Infinity"}).ratio == float("-inf")
assert Outer.from_dict({"ratio": 1.5, "big": 7}).ratio == 1.5
assert Outer().from_dict({"big": "12"}).big == 12

# unknown keys are ignored, known ones still converted
m = Outer.from_dict({"nope": "1970-01-01T00:00:00Z", "span": "-0.000001s"})
assert m.span == -US

# round trip through to_dict / to_json keeps every instant and span
for dt, delta in zip(datetimes[:300], spans[:300]):
    tz = timezone(timedelta(minutes=rng.choice([0, 330, -570, 60])))
    try:
        local = dt.astimezone(tz)
    except OverflowError:
        local = dt
    src = Outer(when=local, span=delta, maybe_when=local, whens=[local, dt],
                spans=[delta, -delta], when_by={"a": local}, span_by={3: delta})
    for back in (Outer.from_dict(src.to_dict()), Outer().from_json(src.to_json())):
        same_instant(back.when, dt)
        same_instant(back.maybe_when, dt)
        same_instant(back.whens[0], dt)
        same_instant(back.whens[1], dt)
        same_instant(back.when_by["a"], dt)
        assert back.span == delta and back.spans == [delta, -delta]
        assert back.span_by == {3: delta}
        assert bytes(back) == bytes(src)
    checked += 1

print("ok", checked, "cases")
