"""C20 equivalence script for the immutability guards of betterproto enums.

Every way of assigning to / deleting from an enum class, a member or a placeholder
for an undefined number must be refused with exactly the AttributeError the library
has always raised, and must leave the class and the members untouched.  Runs over a
fixed set of hand-written enums and a few hundred random enum definitions
(zero / negative / gapped / aliased numbers), and re-checks the rest of the enum API
(lookups, copy, pickle, binary and JSON round trips) after the refused attempts.
"""
import copy
import pickle
import random
from dataclasses import dataclass
from typing import Dict, List, Optional

import betterproto

INT32_MIN, INT32_MAX = -(2**31), 2**31 - 1


def refused(action, expected_message):
    try:
        action()
    except AttributeError as exc:
        assert type(exc) is AttributeError, type(exc)
        assert exc.args == (expected_message,), (exc.args, expected_message)
        assert str(exc) == expected_message
        assert exc.__cause__ is None and exc.__context__ is None
        return
    raise AssertionError(f"not refused: {expected_message}")


def snapshot(enum_cls):
    return (
        [(m.name, m.value, int(m), id(m)) for m in enum_cls],
        [(k, id(v)) for k, v in enum_cls.__members__.items()],
        [(k, id(v)) for k, v in enum_cls._value_map_.items()],
        len(enum_cls),
        sorted(k for k in vars(enum_cls)),
        sorted(k for k in vars(type(enum_cls))),
        [dict(vars(m)) for m in enum_cls],
    )


def exercise(enum_cls, declared):
    """declared: list of (name, number) in declaration order."""
    cname = enum_cls.__name__
    cls_set = f"{cname}: cannot reassign Enum members."
    cls_del = f"{cname}: cannot delete Enum members."
    mem_set = f"{cname} Cannot reassign a member's attributes."
    mem_del = f"{cname} Cannot delete a member's attributes."

    before = snapshot(enum_cls)
    first = {}
    for name, number in declared:
        first.setdefault(number, name)

    # ---- class level
    names = [n for n, _ in declared]
    for attr in names + [
        "BRAND_NEW",
        "_value_map_",
        "_member_map_",
        "__members__",
        "__doc__",
        "__name__",
        "__module__",
        "name",
        "value",
        "try_value",
        "from_string",
        "__class__",
        "__dict__",
    ]:
        for new_value in (0, 1, -1, None, "x", enum_cls, {}):
            refused(lambda: setattr(enum_cls, attr, new_value), cls_set)
        refused(lambda: delattr(enum_cls, attr), cls_del)
        # explicit calls of the slots / methods
        refused(lambda: type(enum_cls).__setattr__(enum_cls, attr, 5), cls_set)
        refused(lambda: type(enum_cls).__delattr__(enum_cls, attr), cls_del)
    # statement forms
    def assign_stmt():
        enum_cls.SOMETHING = 3

    def delete_stmt():
        del enum_cls.SOMETHING

    refused(assign_stmt, cls_set)
    refused(delete_stmt, cls_del)

    # ---- member level (members, aliases, placeholders)
    undefined = [
        n
        for n in (0, 1, -1, 5, 99, -99, INT32_MIN, INT32_MAX, 123456)
        if n not in first
    ]
    subjects = [enum_cls[n] for n in names] + [enum_cls.try_value(n) for n in undefined]
    for member in subjects:
        state = dict(vars(member))
        for attr in ("name", "value", "extra", "_x", "__doc__", "real", "__class__"):
            for new_value in (0, 7, None, "x"):
                refused(lambda: setattr(member, attr, new_value), mem_set)
            refused(lambda: delattr(member, attr), mem_del)
            refused(lambda: type(member).__setattr__(member, attr, 1), mem_set)
            refused(lambda: type(member).__delattr__(member, attr), mem_del)
            refused(lambda: member.__setattr__(attr, 1), mem_set)
            refused(lambda: member.__delattr__(attr), mem_del)

        def m_assign():
            member.name = "OTHER"

        def m_assign2():
            member.value = 1234

        def m_del():
            del member.name

        def m_del2():
            del member.value

        refused(m_assign, mem_set)
        refused(m_assign2, mem_set)
        refused(m_del, mem_del)
        refused(m_del2, mem_del)
        assert dict(vars(member)) == state

    # ---- nothing changed
    assert snapshot(enum_cls) == before

    # ---- and the API still answers as declared
    for name, number in declared:
        member = enum_cls[name]
        assert member is enum_cls(number) is enum_cls.from_string(name)
        assert member is enum_cls.try_value(number)
        assert member is getattr(enum_cls, name) or name in dir(int)
        assert member.name == first[number] and member.value == number == int(member)
        assert copy.copy(member) is member and copy.deepcopy(member) is member
        assert copy.deepcopy([member, {"k": member}])[1]["k"] is member
        for protocol in range(pickle.HIGHEST_PROTOCOL + 1):
            again = pickle.loads(pickle.dumps(member, protocol))
            assert (again.name, again.value, int(again)) == (first[number], number, number)
            assert type(again) is enum_cls
        assert member in enum_cls
    assert [m.name for m in enum_cls] == [first[n] for _, n in declared]
    assert list(enum_cls.__members__) == names
    assert len(enum_cls) == len(declared)
    for number in undefined:
        ph = enum_cls.try_value(number)
        assert ph == number and ph.name is None and ph.value == number
        assert type(ph) is enum_cls and ph not in enum_cls
        try:
            enum_cls(number)
        except ValueError as exc:
            assert str(exc) == f"{number!r} is not a valid {cname}"
        else:
            raise AssertionError("closed lookup accepted an undefined number")
    try:
        enum_cls.from_string("definitely not a member")
    except ValueError as exc:
        assert str(exc) == f"Unknown value definitely not a member for enum {cname}"
        assert isinstance(exc.__cause__, KeyError)
    else:
        raise AssertionError
    return undefined


# ---------------------------------------------------------------- fixed enums
class Colour(betterproto.Enum):
    RED = 1
    GREEN = 2
    BLUE = 3


class Signed(betterproto.Enum):
    ZERO = 0
    MINUS_ONE = -1
    MIN = INT32_MIN
    MAX = INT32_MAX
    ALSO_ZERO = 0
    ALSO_MIN = INT32_MIN
    FORTY_TWO = 42


class Single(betterproto.Enum):
    ONLY = 7


class NoZero(betterproto.Enum):
    A = 5
    B = -5
    C = 5
    D = 5


exercise(Colour, [("RED", 1), ("GREEN", 2), ("BLUE", 3)])
exercise(
    Signed,
    [
        ("ZERO", 0),
        ("MINUS_ONE", -1),
        ("MIN", INT32_MIN),
        ("MAX", INT32_MAX),
        ("ALSO_ZERO", 0),
        ("ALSO_MIN", INT32_MIN),
        ("FORTY_TWO", 42),
    ],
)
exercise(Single, [("ONLY", 7)])
exercise(NoZero, [("A", 5), ("B", -5), ("C", 5), ("D", 5)])

# the base class itself is just as closed
for attr in ("x", "name", "try_value", "__doc__"):
    refused(
        lambda: setattr(betterproto.Enum, attr, 1), "Enum: cannot reassign Enum members."
    )
    refused(lambda: delattr(betterproto.Enum, attr), "Enum: cannot delete Enum members.")

# guards are ordinary attributes of the classes they protect
assert "__setattr__" in vars(betterproto.Enum) and "__delattr__" in vars(betterproto.Enum)
assert "__setattr__" in vars(betterproto.enum.EnumType)
assert "__delattr__" in vars(betterproto.enum.EnumType)
assert callable(betterproto.Enum.__setattr__) and callable(betterproto.Enum.__delattr__)
# and they are not taken for members
assert len(betterproto.Enum) == 0 and list(betterproto.Enum) == []
for cls in (Colour, Signed, Single, NoZero):
    assert "__setattr__" not in cls.__members__ and "__delattr__" not in cls.__members__

# ---------------------------------------------------------------- random enums
rng = random.Random(20)
pool = [0, 1, -1, 2, 3, 5, 7, 100, -100, INT32_MIN, INT32_MAX, INT32_MIN + 1, INT32_MAX - 1]
for i in range(150):
    n = rng.randint(1, 8)
    declared = []
    for j in range(n):
        if declared and rng.random() < 0.3:
            number = rng.choice(declared)[1]  # alias
        elif rng.random() < 0.5:
            number = rng.choice(pool)
        else:
            number = rng.randint(INT32_MIN, INT32_MAX)
        declared.append((f"M{j}_{'X' * rng.randint(0, 3)}", number))
    enum_cls = betterproto.enum.EnumType(
        f"Rnd{i}", (betterproto.Enum,), {"__module__": __name__, **dict(declared)}
    )
    globals()[f"Rnd{i}"] = enum_cls  # picklable by reference
    exercise(enum_cls, declared)


# ---------------------------------------------------------------- in messages
@dataclass(eq=False, repr=False)
class Holder(betterproto.Message):
    single: Signed = betterproto.enum_field(1)
    many: List[Signed] = betterproto.enum_field(2)
    by_key: Dict[str, Signed] = betterproto.map_field(
        3, betterproto.TYPE_STRING, betterproto.TYPE_ENUM
    )
    one_a: Signed = betterproto.enum_field(4, group="pick")
    one_b: str = betterproto.string_field(5, group="pick")
    maybe: Optional[Signed] = betterproto.enum_field(6, optional=True)


numbers = [0, -1, 1, 42, 43, -43, INT32_MIN, INT32_MAX, INT32_MIN + 1, INT32_MAX - 1, 1000]
for number in numbers:
    value = Signed.try_value(number)
    msg = Holder(
        single=value,
        many=[value, Signed.ZERO, value],
        by_key={"a": value, "": Signed.try_value(0)},
        one_a=value,
        maybe=value,
    )
    refused(lambda: setattr(msg.single, "name", "X"), "Signed Cannot reassign a member's attributes.")
    refused(lambda: delattr(msg.many[0], "value"), "Signed Cannot delete a member's attributes.")
    for back in (
        Holder().parse(bytes(msg)),
        Holder().from_dict(msg.to_dict()),
        Holder().from_json(msg.to_json()),
        copy.deepcopy(msg),
        copy.copy(msg),
        pickle.loads(pickle.dumps(msg)),
    ):
        assert back.single == number
        assert back.many == [number, 0, number]
        assert back.by_key == {"a": number, "": 0}
        assert back.one_a == number and back.maybe == number
        assert betterproto.which_one_of(back, "pick")[0] == "one_a"
        decoded = Holder().parse(bytes(back))
        for got in [decoded.single, decoded.one_a, decoded.maybe, decoded.by_key["a"], *decoded.many]:
            if got in Signed._value_map_:
                assert got is Signed(int(got))
            refused(lambda: setattr(got, "value", 0), "Signed Cannot reassign a member's attributes.")
            refused(lambda: delattr(got, "name"), "Signed Cannot delete a member's attributes.")

print("C20 keep1 equiv: ok")
