"""Equivalence check for keep2 (C03): oneof_index monkey patch, is_oneof and OneOfFieldCompiler arguments."""
import glob
import hashlib
import os
import sys
import tempfile

WT = "/tmp/wt/R12C03"
sys.path.insert(0, WT + "/src")

import betterproto  # noqa: E402
from betterproto.lib.google.protobuf import (  # noqa: E402
    DescriptorProto,
    FieldDescriptorProto,
    FieldDescriptorProtoLabel,
    FieldDescriptorProtoType,
    FieldOptions,
    FileDescriptorProto,
    FileDescriptorSet,
    MessageOptions,
    OneofDescriptorProto,
)
from betterproto.lib.google.protobuf.compiler import CodeGeneratorRequest  # noqa: E402
from betterproto.plugin import compiler as plugin_compiler  # noqa: E402
from betterproto.plugin import models  # noqa: E402
from betterproto.plugin import parser as plugin_parser  # noqa: E402

assert betterproto.__file__.startswith(WT), betterproto.__file__
plugin_compiler.subprocess.check_output = lambda cmd, input, encoding: input
models.monkey_patch_oneof_index()

EXTRA_PROTO = r'''
syntax = "proto3";
package extra.pkg;
import "google/protobuf/wrappers.proto";
import "google/protobuf/timestamp.proto";
import "google/protobuf/duration.proto";

// An enum with aliases and negative numbers
enum Color {
  option allow_alias = true;
  COLOR_UNKNOWN = 0;
  COLOR_RED = 1;
  COLOR_CRIMSON = 1;
  COLOR_NEGATIVE = -5;
}

message Scalars {
  double f_double = 1; float f_float = 2; int32 f_int32 = 3; int64 f_int64 = 4;
  uint32 f_uint32 = 5; uint64 f_uint64 = 6; sint32 f_sint32 = 7; sint64 f_sint64 = 8;
  fixed32 f_fixed32 = 9; fixed64 f_fixed64 = 10; sfixed32 f_sfixed32 = 11;
  sfixed64 f_sfixed64 = 12; bool f_bool = 13; string f_string = 14; bytes f_bytes = 15;
  repeated double r_double = 21; repeated float r_float = 22; repeated int32 r_int32 = 23;
  repeated int64 r_int64 = 24; repeated uint32 r_uint32 = 25; repeated uint64 r_uint64 = 26;
  repeated sint32 r_sint32 = 27; repeated sint64 r_sint64 = 28; repeated fixed32 r_fixed32 = 29;
  repeated fixed64 r_fixed64 = 30; repeated sfixed32 r_sfixed32 = 31;
  repeated sfixed64 r_sfixed64 = 32; repeated bool r_bool = 33; repeated string r_string = 34;
  repeated bytes r_bytes = 35; repeated Color r_color = 36; repeated Scalars r_self = 37;
  optional double o_double = 41; optional int32 o_int32 = 43; optional bool o_bool = 53;
  optional string o_string = 54; optional bytes o_bytes = 55; optional Color o_color = 56;
  optional Scalars o_self = 57;
}

message Maps {
  map<int32, string> m_int32 = 1; map<int64, int64> m_int64 = 2; map<uint32, bool> m_uint32 = 3;
  map<uint64, bytes> m_uint64 = 4; map<sint32, double> m_sint32 = 5; map<sint64, float> m_sint64 = 6;
  map<fixed32, Color> m_fixed32 = 7; map<fixed64, Maps> m_fixed64 = 8;
  map<sfixed32, Scalars> m_sfixed32 = 9; map<sfixed64, google.protobuf.Timestamp> m_sfixed64 = 10;
  map<bool, google.protobuf.Int32Value> m_bool = 11; map<string, google.protobuf.Duration> m_string = 12;
  map<string, Nested.Inner> m_nested = 13;
  map<string, int32> snake_case_map = 14;
  message Nested {
    message Inner { int32 x = 1; map<string, Inner> again = 2; }
    enum Kind { KIND_A = 0; B = 1; }
    Inner inner = 1; Kind kind = 2;
  }
  // hand written look-alike, not a map
  message LookalikeEntry { string key = 1; int32 value = 2; }
  repeated LookalikeEntry lookalike = 20;
}

message OneOfs {
  oneof first { int32 a = 1; string b = 2; Color c = 3; OneOfs d = 4; google.protobuf.BoolValue e = 5; }
  int32 between = 6;
  oneof second { bytes f = 7; google.protobuf.Timestamp g = 8; google.protobuf.Duration h = 9; }
  optional int32 opt = 10;
  oneof single { double only = 11; }
  optional google.protobuf.StringValue opt_wrapped = 12;
}

message WellKnown {
  google.protobuf.DoubleValue w_double = 1; google.protobuf.FloatValue w_float = 2;
  google.protobuf.Int32Value w_int32 = 3; google.protobuf.Int64Value w_int64 = 4;
  google.protobuf.UInt32Value w_uint32 = 5; google.protobuf.UInt64Value w_uint64 = 6;
  google.protobuf.BoolValue w_bool = 7; google.protobuf.StringValue w_string = 8;
  google.protobuf.BytesValue w_bytes = 9; google.protobuf.Timestamp ts = 10;
  google.protobuf.Duration dur = 11; repeated google.protobuf.Timestamp r_ts = 12;
  repeated google.protobuf.Int32Value r_w = 13;
}

message Keywords {
  int32 int = 1; string str = 2; bool bool = 3; float float = 4; bytes bytes = 5;
  repeated int32 list = 6; int32 from = 7; int32 class = 8; int32 None = 9;
  map<string, int32> dict = 10; optional string type = 11;
  oneof in { int32 is = 12; string lambda = 13; }
}

message A { B b = 1; repeated A as = 2; }
message B { A a = 1; map<string, B> bs = 2; }
'''


def _protoc(proto_dir, names, out):
    from grpc_tools import protoc
    import grpc_tools

    inc = os.path.join(os.path.dirname(grpc_tools.__file__), "_proto")
    rc = protoc.main(
        ["protoc", f"-I{proto_dir}", f"-I{inc}", "--include_imports",
         "--include_source_info", f"--descriptor_set_out={out}", *names]
    )
    assert rc == 0, (proto_dir, names)
    with open(out, "rb") as fh:
        return fh.read()


def build_requests():
    """(label, serialized FileDescriptorSet, files to generate) for the corpus."""
    reqs = []
    tmp = tempfile.mkdtemp()
    for d in sorted(glob.glob(WT + "/tests/inputs/*/")):
        names = sorted(
            os.path.relpath(p, d) for p in glob.glob(d + "**/*.proto", recursive=True)
        )
        if not names:
            continue
        label = os.path.basename(d.rstrip("/"))
        reqs.append((label, _protoc(d, names, os.path.join(tmp, label + ".bin")), names))
    extra_dir = os.path.join(tmp, "extra")
    os.makedirs(extra_dir)
    with open(os.path.join(extra_dir, "extra.proto"), "w") as fh:
        fh.write(EXTRA_PROTO)
    reqs.append(("extra", _protoc(extra_dir, ["extra.proto"], os.path.join(tmp, "x.bin")), ["extra.proto"]))
    return reqs


def make_request(fds_bytes, names, parameter):
    fds = FileDescriptorSet().parse(fds_bytes)
    return CodeGeneratorRequest(
        file_to_generate=list(names), parameter=parameter, proto_file=fds.file
    )


def run_plugin(fds_bytes, names, parameter):
    """Runs generate_code and returns {file name: content}."""
    response = plugin_parser.generate_code(make_request(fds_bytes, names, parameter))
    return {f.name: f.content for f in response.file}


def normalise(content):
    """The stubbed-out ruff would sort the import block; imports_end is a set whose
    iteration order depends on the per-process string hash seed, so every run of
    consecutive top-level import lines is sorted before comparing."""
    out, run = [], []
    for line in content.split("\n"):
        if line.startswith(("from ", "import ")):
            run.append(line)
            continue
        out.extend(sorted(run))
        run = []
        out.append(line)
    out.extend(sorted(run))
    return "\n".join(out)


def corpus_digest(reqs, parameters=("", "pydantic_dataclasses", "typing.root", "typing.310", "INCLUDE_GOOGLE")):
    cwd = os.getcwd()
    os.chdir(tempfile.mkdtemp())
    sys_stderr = sys.stderr
    sys.stderr = open(os.devnull, "w")
    try:
        h = hashlib.sha256()
        n = 0
        for label, data, names in reqs:
            for parameter in parameters:
                files = run_plugin(data, names, parameter)
                assert files, label
                for name in sorted(files):
                    n += 1
                    h.update(repr((label, parameter, name, normalise(files[name]))).encode())
        return n, h.hexdigest()
    finally:
        sys.stderr = sys_stderr
        os.chdir(cwd)


def check_generated_package_against_descriptor(reqs):
    """Imports the package generated for EXTRA_PROTO and compares every dataclass
    field with the descriptor as parsed by google.protobuf (independent oracle)."""
    import dataclasses
    import importlib

    from google.protobuf import descriptor_pb2

    from betterproto.compile.naming import pythonize_class_name

    label, data, names = reqs[-1]
    assert label == "extra"
    out = tempfile.mkdtemp()
    cwd = os.getcwd()
    os.chdir(out)
    err, sys.stderr = sys.stderr, open(os.devnull, "w")
    try:
        files = run_plugin(data, names, "")
    finally:
        sys.stderr = err
        os.chdir(cwd)
    for name, content in files.items():
        path = os.path.join(out, name)
        os.makedirs(os.path.dirname(path), exist_ok=True)
        with open(path, "w") as fh:
            fh.write(content)
    sys.path.insert(0, out)
    mod = importlib.import_module("extra.pkg")
    fds = descriptor_pb2.FileDescriptorSet.FromString(data)
    fdp = [f for f in fds.file if f.name == "extra.proto"][0]
    T = descriptor_pb2.FieldDescriptorProto
    type_names = {v.number: v.name for v in T.Type.DESCRIPTOR.values}
    checked = 0

    def walk(msgs, prefix):
        for m in msgs:
            yield prefix + m.name, m
            yield from walk(m.nested_type, prefix + m.name + "_")

    def walk_enums(fdp):
        for e in fdp.enum_type:
            yield e.name, e
        for flat, m in walk(fdp.message_type, ""):
            for e in m.enum_type:
                yield flat + "_" + e.name, e

    for flat, m in walk(fdp.message_type, ""):
        if m.options.map_entry:
            continue
        cls = getattr(mod, pythonize_class_name(flat))
        by_number = {
            f.metadata["betterproto"].number: f for f in dataclasses.fields(cls)
        }
        assert len(by_number) == len(m.field) == len(dataclasses.fields(cls)), flat
        entries = {n.name: n for n in m.nested_type if n.options.map_entry}
        for fd in m.field:
            meta = by_number[fd.number].metadata["betterproto"]
            entry = entries.get(fd.type_name.split(".")[-1]) if fd.type == T.TYPE_MESSAGE else None
            if entry is not None:
                assert meta.proto_type == "map", (flat, fd.name)
                assert meta.map_types == (
                    type_names[entry.field[0].type][5:].lower(),
                    type_names[entry.field[1].type][5:].lower(),
                ), (flat, fd.name, meta.map_types)
            else:
                assert meta.proto_type == type_names[fd.type][5:].lower(), (flat, fd.name)
                assert meta.map_types is None
            in_oneof = fd.HasField("oneof_index") and not fd.proto3_optional
            assert meta.group == (m.oneof_decl[fd.oneof_index].name if in_oneof else None), (flat, fd.name, meta.group)
            assert bool(meta.optional) == bool(fd.proto3_optional), (flat, fd.name)
            wrapper = fd.type_name.startswith(".google.protobuf.") and fd.type_name.endswith("Value")
            assert (meta.wraps is not None) == (wrapper and entry is None), (flat, fd.name)
            checked += 1
    for flat, e in walk_enums(fdp):
        cls = getattr(mod, pythonize_class_name(flat))
        numbers = {member.value for member in cls}
        assert numbers == {v.number for v in e.value}, flat
        checked += 1
    return checked

GOLDEN = (825, "11c0161326dec4b527511a324c0f499934246c424279da3c6306ffa9f54f002e")


# ---------------------------------------------------------------------------
# unit level: oneof_index monkey patch, is_oneof, OneOfFieldCompiler arguments
# ---------------------------------------------------------------------------
import dataclasses  # noqa: E402

from google.protobuf import descriptor_pb2  # noqa: E402

from betterproto import which_one_of  # noqa: E402
from betterproto.lib.google.protobuf import Field as TypeProtoField  # noqa: E402

T = FieldDescriptorProtoType
L = FieldDescriptorProtoLabel


def groups(cls):
    return {f.name: f.metadata["betterproto"].group for f in dataclasses.fields(cls)}


def all_meta(cls):
    return {f.name: dataclasses.asdict(f.metadata["betterproto"]) for f in dataclasses.fields(cls)}


# the patch (already applied by the harness) touches exactly the two oneof_index
# fields, and only their group; applying it again changes nothing
for cls in (FieldDescriptorProto, TypeProtoField):
    g = groups(cls)
    assert g.pop("oneof_index") == "oneof_index"
    assert set(g.values()) == {None}, g
before = {cls: all_meta(cls) for cls in (FieldDescriptorProto, TypeProtoField, DescriptorProto)}
assert models.monkey_patch_oneof_index() is None
assert before == {cls: all_meta(cls) for cls in before}
assert before[FieldDescriptorProto]["oneof_index"]["number"] == 9
assert before[FieldDescriptorProto]["oneof_index"]["proto_type"] == "int32"
assert before[TypeProtoField]["oneof_index"]["number"] == 7
assert groups(DescriptorProto)["oneof_decl"] is None
assert FieldDescriptorProto._betterproto.oneof_group_by_field == {"oneof_index": "oneof_index"}
assert TypeProtoField._betterproto.oneof_group_by_field == {"oneof_index": "oneof_index"}


def ref_is_oneof(fd):
    return (
        not fd.proto3_optional
        and which_one_of(fd, "oneof_index")[0] == "oneof_index"
    )


# is_oneof on descriptors decoded from the wire, google.protobuf as the oracle
n_is_oneof = 0
for t in range(1, 19):
    for label in (1, 2, 3):
        for index in (None, 0, 1, 2, 7, 2**31 - 1):
            for p3 in (None, False, True):
                for type_name in ("", ".a.B", ".google.protobuf.BoolValue"):
                    g = descriptor_pb2.FieldDescriptorProto(name="f", number=3, type=t, label=label)
                    if index is not None:
                        g.oneof_index = index
                    if p3 is not None:
                        g.proto3_optional = p3
                    if type_name:
                        g.type_name = type_name
                    fd = FieldDescriptorProto().parse(g.SerializeToString())
                    got = models.is_oneof(fd)
                    assert got is ref_is_oneof(fd), (t, label, index, p3)
                    assert got is (g.HasField("oneof_index") and not g.proto3_optional)
                    # the question does not disturb the message
                    assert bytes(fd) == FieldDescriptorProto().parse(g.SerializeToString()).SerializeToString()
                    n_is_oneof += 1
# ... and on descriptors built in Python
for index in (None, 0, 1, 5):
    for p3 in (False, True):
        kwargs = {} if index is None else {"oneof_index": index}
        fd = FieldDescriptorProto(name="f", number=1, type=T.TYPE_INT32, proto3_optional=p3, **kwargs)
        assert models.is_oneof(fd) is ref_is_oneof(fd) is (index is not None and not p3)
        fd2 = FieldDescriptorProto(name="f", number=1, type=T.TYPE_INT32, proto3_optional=p3)
        assert models.is_oneof(fd2) is False
        if index is not None:
            fd2.oneof_index = index
            assert models.is_oneof(fd2) is (not p3)
        n_is_oneof += 2


def new_output(package="unit.pkg", pydantic=False):
    request = models.PluginRequestCompiler(plugin_request_obj=CodeGeneratorRequest())
    out = models.OutputTemplate(
        parent_request=request,
        package_proto_obj=FileDescriptorProto(name="unit.proto", package=package),
        pydantic_dataclasses=pydantic,
    )
    request.output_packages[package] = out
    return out


# OneOfFieldCompiler / PydanticOneOfFieldCompiler: arguments and rendered field
src = FileDescriptorProto(name="unit.proto", package="unit.pkg")
DECLS = ["first", "second_group", "Third", "_synthetic", "x"]
KINDS = [
    (T.TYPE_INT32, "", "int32", None),
    (T.TYPE_STRING, "", "string", None),
    (T.TYPE_BYTES, "", "bytes", None),
    (T.TYPE_ENUM, ".unit.pkg.Kind", "enum", None),
    (T.TYPE_MESSAGE, ".unit.pkg.Msg", "message", None),
    (T.TYPE_MESSAGE, ".google.protobuf.BoolValue", "message", "betterproto.TYPE_BOOL"),
    (T.TYPE_MESSAGE, ".google.protobuf.Int64Value", "message", "betterproto.TYPE_INT64"),
    (T.TYPE_MESSAGE, ".google.protobuf.EnumValue", "message", None),
    (T.TYPE_MESSAGE, ".google.protobuf.Timestamp", "message", None),
]
n_args = 0
for cls, pydantic in ((models.OneOfFieldCompiler, False), (models.PydanticOneOfFieldCompiler, True)):
    for t, type_name, kind, wraps in KINDS:
        for index, decl in enumerate(DECLS):
            for p3 in (False, True):  # (True only reaches this class in hand-made calls)
                out = new_output(pydantic=pydantic)
                fd = FieldDescriptorProto(name="choice", number=11, type=t, type_name=type_name,
                                          label=L.LABEL_OPTIONAL, oneof_index=index, proto3_optional=p3)
                msg = DescriptorProto(name="Msg", field=[fd],
                                      oneof_decl=[OneofDescriptorProto(name=d) for d in DECLS])
                mc = models.MessageCompiler(source_file=src, parent=out, proto_obj=msg, path=[4, 0],
                                            typing_compiler=out.typing_compiler)
                fc = cls(source_file=src, parent=mc, proto_obj=fd, path=[4, 0, 2, 0],
                         typing_compiler=out.typing_compiler)
                expected = []
                if wraps:
                    expected.append(f"wraps={wraps}")
                if pydantic or p3:
                    expected.append("optional=True")
                expected.append(f'group="{decl}"')
                args = fc.betterproto_field_args
                assert args == expected, (args, expected)
                assert type(args) is list
                args.append("scribble")  # a fresh list on every access
                assert fc.betterproto_field_args == expected
                assert fc.get_field_string() == (
                    f"choice: {fc.annotation} = betterproto.{kind}_field(11, " + ", ".join(expected) + ")"
                )
                assert mc.has_oneof_fields is True and mc.fields == [fc]
                assert out.pydantic_imports == ({"model_validator"} if pydantic else set())
                # plain fields of the same descriptor carry no group
                plain = models.FieldCompiler(source_file=src, parent=mc, proto_obj=fd, path=[4, 0, 2, 0],
                                             typing_compiler=out.typing_compiler)
                assert plain.betterproto_field_args == expected[:-1][: (1 if wraps else 0) + (1 if p3 else 0)]
                n_args += 1
# an index outside oneof_decl is rejected with IndexError, as before
out = new_output()
fd = FieldDescriptorProto(name="choice", number=1, type=T.TYPE_INT32, oneof_index=3)
mc = models.MessageCompiler(source_file=src, parent=out, proto_obj=DescriptorProto(name="M", field=[fd]),
                            path=[4, 0], typing_compiler=out.typing_compiler)
fc = models.OneOfFieldCompiler(source_file=src, parent=mc, proto_obj=fd, path=[4, 0, 2, 0],
                               typing_compiler=out.typing_compiler)
try:
    fc.betterproto_field_args
except IndexError:
    pass
else:
    raise AssertionError("expected IndexError")

# ---------------------------------------------------------------------------
# end to end: plugin output for tests/inputs + the extra schema
# ---------------------------------------------------------------------------
reqs = build_requests()
checked = check_generated_package_against_descriptor(reqs)
n_files, digest = corpus_digest(reqs)
assert (n_files, digest) == GOLDEN, (n_files, digest)  # pristine-tree digest
print(f"equiv OK: {n_is_oneof} is_oneof cases, {n_args} oneof field cases, {checked} generated classes "
      f"fields/enums checked, {n_files} generated files match the golden digest")
