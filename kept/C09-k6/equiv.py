"""C09 equivalence check for the scalar codecs below Message.dump / Message.__len__:
the varint writer (dump_varint -> encode_varint, delimiter of SIZE_DELIMITED dumps) and the
fixed-width float/double/fixed32/fixed64/sfixed32/sfixed64 codecs (encode, measure, decode).

  * dump_varint / encode_varint / size_varint against an independent reference and against
    google.protobuf's pure-python varint encoder, incl. boundaries, negatives, bools, enums,
    error cases;
  * messages with fixed-width members in every position (singular, oneof, optional, packed
    repeated, map key/value, nested, huge field numbers): the C09 observations
    (len / bytes / dump / delimited dump / SerializeToString) and byte equality with
    google.protobuf for the same schema; decode gives the values back;
  * out-of-range values fail identically in len(m) and bytes(m).
Exits 0 on success.
"""
import math
import random
import struct
from dataclasses import dataclass
from io import BytesIO
from typing import Dict, List, Optional

from google.protobuf import descriptor_pb2, descriptor_pool, message_factory
from google.protobuf.internal import encoder as g_encoder

import betterproto
from betterproto import dump_varint, encode_varint, size_varint

FD = descriptor_pb2.FieldDescriptorProto


# ------------------------------------------------------------------ varints
def ref_varint(n: int) -> bytes:
    """Independent reference: unsigned LEB128 of n mod 2**64 (n >= -2**63)."""
    if n < 0:
        n += 1 << 64
    out = []
    while True:
        low, n = n % 128, n // 128
        if n == 0:
            out.append(low)
            return bytes(out)
        out.append(low + 128)


class Recorder:
    def __init__(self):
        self.writes = []

    def write(self, data):
        assert isinstance(data, bytes), type(data)
        self.writes.append(data)
        return len(data)


class Tone(betterproto.Enum):
    NONE = 0
    ONE = 1
    EDGE = 127
    OVER = 128
    BIG = 2**31 - 1
    NEG = -1


varint_values = set()
for k in range(0, 71):
    for delta in (-2, -1, 0, 1, 2):
        v = (1 << k) + delta
        varint_values.add(v)
        varint_values.add(-v)
for k in range(1, 11):
    for delta in (-1, 0, 1):
        varint_values.add((1 << (7 * k)) + delta)
        varint_values.add(128 * (1 << (7 * (k - 1))) + delta)
rng = random.Random(90902)
for _ in range(20000):
    bits = rng.randrange(1, 65)
    varint_values.add(rng.getrandbits(bits))
    varint_values.add(-rng.getrandbits(min(bits, 63)))
varint_values |= set(range(-300, 20000))

n_varints = 0
for v in sorted(varint_values):
    if v < -(1 << 63):
        for fn in (encode_varint, size_varint, lambda x: dump_varint(x, BytesIO())):
            try:
                fn(v)
            except ValueError as exc:
                assert "not representable as a 64-bit integer" in str(exc)
            else:
                raise AssertionError(("no error", v))
        continue
    want = ref_varint(v)
    assert encode_varint(v) == want, v
    assert type(encode_varint(v)) is bytes
    assert size_varint(v) == len(want), v
    rec = Recorder()
    assert dump_varint(v, rec) is None
    assert b"".join(rec.writes) == want, v
    assert len(rec.writes) == len(want), v  # one write per byte, as before
    if v < (1 << 64):
        assert g_encoder._VarintBytes(v if v >= 0 else v + (1 << 64)) == want, v
    n_varints += 1

# bools and enum members are written as their integer value
for flag in (False, True):
    assert encode_varint(flag) == bytes([int(flag)]) and size_varint(flag) == 1
for member in Tone:
    assert encode_varint(member) == ref_varint(int(member)), member
    assert size_varint(member) == len(ref_varint(int(member))), member
    s = BytesIO()
    dump_varint(member, s)
    assert s.getvalue() == ref_varint(int(member))
# values that are not integers are refused, and nothing is written
for bad in (1.0, 0.5, 200.0, "1", None, b"\x01"):
    rec = Recorder()
    try:
        dump_varint(bad, rec)
    except TypeError:
        pass
    else:
        raise AssertionError(("accepted", bad))
    assert rec.writes == [], bad


# ------------------------------------------------------------------ fixed-width members
@dataclass(eq=False, repr=False)
class Leaf(betterproto.Message):
    f: float = betterproto.float_field(1)
    d: float = betterproto.double_field(2)
    u32: int = betterproto.fixed32_field(3)
    u64: int = betterproto.fixed64_field(4)
    s32: int = betterproto.sfixed32_field(5)
    s64: int = betterproto.sfixed64_field(6)


@dataclass(eq=False, repr=False)
class Fixed(betterproto.Message):
    f: float = betterproto.float_field(1)
    d: float = betterproto.double_field(2)
    u32: int = betterproto.fixed32_field(3)
    u64: int = betterproto.fixed64_field(4)
    s32: int = betterproto.sfixed32_field(5)
    s64: int = betterproto.sfixed64_field(6)
    rf: List[float] = betterproto.float_field(7)
    rd: List[float] = betterproto.double_field(8)
    ru32: List[int] = betterproto.fixed32_field(9)
    ru64: List[int] = betterproto.fixed64_field(10)
    rs32: List[int] = betterproto.sfixed32_field(11)
    rs64: List[int] = betterproto.sfixed64_field(12)
    one_f: float = betterproto.float_field(13, group="one")
    one_d: float = betterproto.double_field(14, group="one")
    one_u32: int = betterproto.fixed32_field(15, group="one")
    one_s64: int = betterproto.sfixed64_field(16, group="one")
    opt_f: Optional[float] = betterproto.float_field(17, optional=True)
    opt_u64: Optional[int] = betterproto.fixed64_field(18, optional=True)
    opt_s32: Optional[int] = betterproto.sfixed32_field(19, optional=True)
    leaf: Leaf = betterproto.message_field(20)
    leaves: List[Leaf] = betterproto.message_field(21)
    m_u32_d: Dict[int, float] = betterproto.map_field(
        22, betterproto.TYPE_FIXED32, betterproto.TYPE_DOUBLE
    )
    m_s64_f: Dict[int, float] = betterproto.map_field(
        23, betterproto.TYPE_SFIXED64, betterproto.TYPE_FLOAT
    )
    m_str_s32: Dict[str, int] = betterproto.map_field(
        24, betterproto.TYPE_STRING, betterproto.TYPE_SFIXED32
    )
    far_d: float = betterproto.double_field(70000)
    far_u32: int = betterproto.fixed32_field(536870911)


def build_google():
    f = descriptor_pb2.FileDescriptorProto(
        name="c09_keep2.proto", package="c09k2", syntax="proto3"
    )
    scalar = [("f", FD.TYPE_FLOAT), ("d", FD.TYPE_DOUBLE), ("u32", FD.TYPE_FIXED32),
              ("u64", FD.TYPE_FIXED64), ("s32", FD.TYPE_SFIXED32), ("s64", FD.TYPE_SFIXED64)]
    leaf = f.message_type.add(name="Leaf")
    for i, (name, typ) in enumerate(scalar, 1):
        leaf.field.add(name=name, number=i, type=typ, label=FD.LABEL_OPTIONAL)
    m = f.message_type.add(name="Fixed")
    m.oneof_decl.add(name="one")
    for i, (name, typ) in enumerate(scalar, 1):
        m.field.add(name=name, number=i, type=typ, label=FD.LABEL_OPTIONAL)
    for i, (name, typ) in enumerate(scalar, 7):
        m.field.add(name="r" + name, number=i, type=typ, label=FD.LABEL_REPEATED)
    for name, num, typ in (("one_f", 13, FD.TYPE_FLOAT), ("one_d", 14, FD.TYPE_DOUBLE),
                           ("one_u32", 15, FD.TYPE_FIXED32), ("one_s64", 16, FD.TYPE_SFIXED64)):
        m.field.add(name=name, number=num, type=typ, label=FD.LABEL_OPTIONAL, oneof_index=0)
    for name, num, typ in (("opt_f", 17, FD.TYPE_FLOAT), ("opt_u64", 18, FD.TYPE_FIXED64),
                           ("opt_s32", 19, FD.TYPE_SFIXED32)):
        m.oneof_decl.add(name="_" + name)
        m.field.add(name=name, number=num, type=typ, label=FD.LABEL_OPTIONAL,
                    oneof_index=len(m.oneof_decl) - 1, proto3_optional=True)
    m.field.add(name="leaf", number=20, type=FD.TYPE_MESSAGE, type_name=".c09k2.Leaf",
                label=FD.LABEL_OPTIONAL)
    m.field.add(name="leaves", number=21, type=FD.TYPE_MESSAGE, type_name=".c09k2.Leaf",
                label=FD.LABEL_REPEATED)
    for name, num, kt, vt in (("m_u32_d", 22, FD.TYPE_FIXED32, FD.TYPE_DOUBLE),
                              ("m_s64_f", 23, FD.TYPE_SFIXED64, FD.TYPE_FLOAT),
                              ("m_str_s32", 24, FD.TYPE_STRING, FD.TYPE_SFIXED32)):
        entry_name = "".join(p.capitalize() for p in name.split("_")) + "Entry"
        e = m.nested_type.add(name=entry_name)
        e.options.map_entry = True
        e.field.add(name="key", number=1, type=kt, label=FD.LABEL_OPTIONAL)
        e.field.add(name="value", number=2, type=vt, label=FD.LABEL_OPTIONAL)
        m.field.add(name=name, number=num, type=FD.TYPE_MESSAGE,
                    type_name=".c09k2.Fixed." + entry_name, label=FD.LABEL_REPEATED)
    m.field.add(name="far_d", number=70000, type=FD.TYPE_DOUBLE, label=FD.LABEL_OPTIONAL)
    m.field.add(name="far_u32", number=536870911, type=FD.TYPE_FIXED32, label=FD.LABEL_OPTIONAL)
    fd = descriptor_pool.Default().Add(f)
    return message_factory.GetMessageClass(fd.message_types_by_name["Fixed"])


GFixed = build_google()

F32 = [0.0, -0.0, 1.0, -1.5, 0.1, 3.4028234663852886e38, -3.4028234663852886e38,
       1.401298464324817e-45, 1.1754943508222875e-38, float("inf"), float("-inf"), float("nan"),
       16777217.0]
F64 = [0.0, -0.0, 1.0, -2.5, 0.1, 1.7976931348623157e308, -1.7976931348623157e308, 5e-324,
       2.2250738585072014e-308, float("inf"), float("-inf"), float("nan"), 2.0**53 + 2, 1e39]
U32 = [0, 1, 127, 128, 255, 256, 65535, 65536, 2**31 - 1, 2**31, 2**32 - 1]
U64 = U32 + [2**32, 2**53, 2**63 - 1, 2**63, 2**64 - 1]
S32 = [0, 1, -1, 127, -128, 32767, -32768, 2**31 - 1, -(2**31)]
S64 = S32 + [2**31, -(2**31) - 1, 2**62, 2**63 - 1, -(2**63)]
POOL = {"f": F32, "d": F64, "u32": U32, "u64": U64, "s32": S32, "s64": S64}
KIND = {"f": "f", "d": "d", "u32": "u32", "u64": "u64", "s32": "s32", "s64": "s64",
        "one_f": "f", "one_d": "d", "one_u32": "u32", "one_s64": "s64",
        "opt_f": "f", "opt_u64": "u64", "opt_s32": "s32", "far_d": "d", "far_u32": "u32"}
FMT = {"f": "<f", "d": "<d", "u32": "<I", "u64": "<Q", "s32": "<i", "s64": "<q"}
ONE = ["one_f", "one_d", "one_u32", "one_s64"]
ORDER = list(Fixed.__dataclass_fields__)


def same(a, b):
    if isinstance(a, float) and isinstance(b, float):
        return (math.isnan(a) and math.isnan(b)) or (
            a == b and math.copysign(1, a) == math.copysign(1, b))
    return a == b


def as_f32(x):
    return struct.unpack("<f", struct.pack("<f", x))[0]


def neg_zero(v):
    return isinstance(v, float) and v == 0 and math.copysign(1, v) < 0


NO_PRESENCE = {"f", "d", "far_d"}  # plain members: betterproto leaves -0.0 out like 0.0


def leaf_pair(spec, g):
    for k, v in spec.items():
        if not neg_zero(v):
            setattr(g, k, v)
    g.SetInParent()
    return Leaf(**spec)


def build_pair(spec):
    kwargs, g = {}, GFixed()
    for name in ORDER:
        if name not in spec:
            continue
        v = spec[name]
        if name in KIND:
            kwargs[name] = v
            if not (name in NO_PRESENCE and neg_zero(v)):
                setattr(g, name, v)
        elif name in ("rf", "rd", "ru32", "ru64", "rs32", "rs64"):
            kwargs[name] = list(v)
            getattr(g, name).extend(v)
        elif name == "leaf":
            kwargs[name] = leaf_pair(v, g.leaf)
        elif name == "leaves":
            kwargs[name] = [leaf_pair(x, g.leaves.add()) for x in v]
        else:  # maps
            kwargs[name] = dict(v)
            for k, x in v.items():
                getattr(g, name)[k] = x
    return Fixed(**kwargs), g


CHECKED = 0


def check_c09(m, label, expected=None):
    global CHECKED
    CHECKED += 1
    data = bytes(m)
    if expected is not None:
        assert data == expected, (label, data, expected)
    assert m.SerializeToString() == data, label
    assert len(m) == len(data), (label, len(m), len(data))
    s = BytesIO()
    m.dump(s)
    assert s.getvalue() == data, label
    s = BytesIO()
    m.dump(s, betterproto.SIZE_DELIMITED)
    assert s.getvalue() == ref_varint(len(data)) + data, label
    return data


def check_spec(spec, label):
    m, g = build_pair(spec)
    has_map = any(spec.get(k) for k in ("m_u32_d", "m_s64_f", "m_str_s32"))
    if has_map:
        # google always writes both key and value of an entry; compare decoded instead
        data = check_c09(m, label)
        g2 = GFixed()
        g2.ParseFromString(data)
        assert g2.SerializeToString(deterministic=True) == g.SerializeToString(
            deterministic=True), label
    else:
        data = check_c09(m, label, g.SerializeToString(deterministic=True))
    # decoding gives the stored values back (through the fixed-width decoder)
    back = Fixed().parse(data)
    check_c09(back, label + "/reparsed", None if has_map else data)
    for name, v in spec.items():
        got = getattr(back, name)
        if name in KIND:
            want = as_f32(v) if KIND[name] == "f" else v
            if name in NO_PRESENCE and neg_zero(v):
                want = 0.0
            assert same(got, want), (label, name, got, want)
        elif name.startswith("r"):
            kind = name[1:]
            want = [as_f32(x) if kind == "f" else x for x in v]
            assert len(got) == len(want) and all(map(same, got, want)), (label, name)
        elif name.startswith("m_"):
            assert set(got) == set(v), (label, name)
            for k, x in v.items():
                want = as_f32(x) if name == "m_s64_f" else x
                assert same(got[k], want), (label, name, k)
    return data


# golden encodings, field by field and value by value
for i, (name, kind) in enumerate([("f", "f"), ("d", "d"), ("u32", "u32"), ("u64", "u64"),
                                  ("s32", "s32"), ("s64", "s64")], 1):
    wire = 5 if kind in ("f", "u32", "s32") else 1
    for v in POOL[kind]:
        if kind == "f" and abs(v) > 3.5e38 and not math.isinf(v):
            continue
        payload = struct.pack(FMT[kind], v)
        is_default = v == 0  # -0.0 too
        expected = b"" if is_default else bytes([i << 3 | wire]) + payload
        data = check_spec({name: v}, f"golden {name}={v!r}")
        assert data == expected, (name, v, data, expected)
        # packed: one length-delimited field holding the raw items
        items = [v, v, POOL[kind][1]]
        expected = bytes([(i + 6) << 3 | 2]) + ref_varint(len(payload) * 3) + payload * 2 + \
            struct.pack(FMT[kind], POOL[kind][1])
        data = check_spec({"r" + name: items}, f"golden packed {name}={v!r}")
        assert data == expected, (name, v)

# oneof / optional members are written even when zero
for name in ONE + ["opt_f", "opt_u64", "opt_s32"]:
    kind = KIND[name]
    for v in POOL[kind]:
        data = check_spec({name: v}, f"presence {name}={v!r}")
        assert data.endswith(struct.pack(FMT[kind], v)) and len(data) == 2 + len(
            struct.pack(FMT[kind], v)) - (ORDER.index(name) + 1 < 16), (name, v, data)

# huge field numbers: 3- and 5-byte keys
assert check_spec({"far_d": 1.0}, "far_d") == ref_varint(70000 << 3 | 1) + struct.pack("<d", 1.0)
assert check_spec({"far_u32": 7}, "far_u32") == ref_varint(536870911 << 3 | 5) + struct.pack("<I", 7)

# nested, repeated nested, maps
check_spec({"leaf": {"f": 1.0}}, "leaf")
check_spec({"leaf": {"u32": 0}}, "leaf zero")
check_spec({"leaves": [{}, {"d": -0.0}, {"s64": -(2**63), "u64": 2**64 - 1}]}, "leaves")
check_spec({"m_u32_d": {0: 0.0}}, "map default entry")
check_spec({"m_u32_d": {0: 0.0, 1: -0.0, 2**32 - 1: float("inf")}}, "map u32->d")
check_spec({"m_s64_f": {-(2**63): 1.5, 2**63 - 1: -1.5, 0: 0.0}}, "map s64->f")
check_spec({"m_str_s32": {"": 0, "a": -1, "b" * 200: 2**31 - 1}}, "map str->s32")
for n in (0, 1, 15, 16, 31, 32, 33, 127, 128, 129, 2047, 2048, 2049, 4100):
    check_spec({"rf": [1.0] * n}, f"packed floats x{n}")
    check_spec({"rs64": [-1] * n}, f"packed sfixed64 x{n}")
    check_spec({"ru32": list(range(n))}, f"packed fixed32 x{n}")

# random messages
rng = random.Random(20909)


def pick(kind):
    r = rng.random()
    if r < 0.5:
        return rng.choice(POOL[kind])
    if kind == "f":
        return as_f32(rng.uniform(-1e30, 1e30))
    if kind == "d":
        return struct.unpack("<d", struct.pack("<Q", rng.getrandbits(64)))[0]
    lo, hi = {"u32": (0, 2**32 - 1), "u64": (0, 2**64 - 1), "s32": (-(2**31), 2**31 - 1),
              "s64": (-(2**63), 2**63 - 1)}[kind]
    return rng.randint(lo, hi)


def pick_f(kind):
    while True:
        v = pick(kind)
        if kind != "f" or math.isinf(v) or math.isnan(v) or abs(v) <= 3.4028234663852886e38:
            return v


for i in range(1200):
    spec = {}
    for name, kind in KIND.items():
        if name in ONE:
            continue
        if rng.random() < 0.35:
            spec[name] = pick_f(kind)
    if rng.random() < 0.7:
        name = rng.choice(ONE)
        spec[name] = pick_f(KIND[name])
    for kind in POOL:
        if rng.random() < 0.3:
            spec["r" + kind] = [pick_f(kind) for _ in range(rng.randrange(0, 40))]
    if rng.random() < 0.4:
        spec["leaf"] = {k: pick_f(k) for k in POOL if rng.random() < 0.5} or {"u32": 1}
    if rng.random() < 0.3:
        spec["leaves"] = [{k: pick_f(k) for k in POOL if rng.random() < 0.4}
                          for _ in range(rng.randrange(0, 5))]
    if rng.random() < 0.3:
        spec["m_u32_d"] = {pick("u32"): pick_f("d") for _ in range(rng.randrange(0, 4))}
    if rng.random() < 0.3:
        spec["m_s64_f"] = {pick("s64"): pick_f("f") for _ in range(rng.randrange(0, 4))}
    if rng.random() < 0.3:
        spec["m_str_s32"] = {rng.choice(["", "k", "key2", "é"]): pick("s32")
                             for _ in range(rng.randrange(0, 4))}
    # NaN map values/keys compare unequal in google's message equality; keep them out of maps
    for mk in ("m_u32_d", "m_s64_f"):
        if mk in spec:
            spec[mk] = {k: (0.5 if isinstance(x, float) and math.isnan(x) else x)
                        for k, x in spec[mk].items()}
    check_spec(spec, f"random {i}")

# unknown fixed-width fields are kept verbatim
unknown = b"\xcd\x3e\x01\x02\x03\x04" + b"\xc9\x3e" + bytes(range(8))
base = bytes(Fixed(f=1.0, one_u32=0))
check_c09(Fixed().parse(base + unknown), "unknown fixed", base + unknown)
# a known fixed32 number arriving as fixed64 is not decoded but kept
odd = b"\x19" + bytes(range(8))  # field 3 (fixed32) with wire type 1
check_c09(Fixed().parse(odd), "mismatching width", odd)

# values that do not fit: bytes(m) and len(m) fail the same way, whatever position
BAD = [("u32", -1), ("u32", 2**32), ("u64", -1), ("u64", 2**64), ("s32", 2**31),
       ("s32", -(2**31) - 1), ("s64", 2**63), ("s64", -(2**63) - 1), ("f", 1e39), ("f", -1e39),
       ("u32", 1.5), ("s64", "7"), ("d", "x"), ("f", None)]


def failure(fn):
    try:
        fn()
    except Exception as exc:  # noqa: BLE001 - the type is what is compared
        return type(exc)
    return None


for kind, v in BAD:
    if v is None:
        candidates = [Fixed(rf=[1.0, None])]
    else:
        candidates = [Fixed(**{kind: v}), Fixed(**{"r" + kind: [POOL[kind][1], v]}),
                      Fixed(leaf=Leaf(**{kind: v})), Fixed(leaves=[Leaf(**{kind: v})])]
    if kind == "u32" and v is not None:
        candidates.append(Fixed(m_u32_d={v: 1.0}))
        candidates.append(Fixed(one_u32=v))
    if kind == "d":
        candidates.append(Fixed(m_u32_d={1: v}))
    for m in candidates:
        e_bytes = failure(lambda: bytes(m))
        e_len = failure(lambda: len(m))
        e_dump = failure(lambda: m.dump(BytesIO(), betterproto.SIZE_DELIMITED))
        assert e_bytes is not None, (kind, v)
        assert e_bytes is e_len is e_dump, (kind, v, e_bytes, e_len, e_dump)
        assert e_bytes in (struct.error, OverflowError), (kind, v, e_bytes)
        want = OverflowError if isinstance(v, float) and kind == "f" else struct.error
        assert e_bytes is want, (kind, v, e_bytes)

# truncated fixed-width payloads are rejected on decode
for wire in (b"\x0d\x00\x00\x00", b"\x11\x00\x00\x00\x00\x00\x00\x00", b"\x3a\x03\x00\x00\x00"):
    assert failure(lambda: Fixed().parse(wire)) is not None, wire

print(f"C09 keep2 equiv: {n_varints} varints, {CHECKED} message states checked OK")
