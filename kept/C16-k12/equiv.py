"""C16 keep2: decoding of every scalar kind (Message._postprocess_single: sign extension,
zig-zag inverse, bool, fixed-width/float/double unpacking, strings) inverts the encoders
and agrees with google.protobuf, for singular, optional, packed and unpacked repeated
fields; length-delimited message kinds (nested, wrapper, Timestamp, Duration, map) and
enums keep working as before."""
import random
import struct
from dataclasses import dataclass
from datetime import datetime, timedelta, timezone
from typing import Dict, List, Optional

import betterproto
from betterproto import decode_varint, encode_varint
from google.protobuf import descriptor_pb2, descriptor_pool, message_factory

rnd = random.Random(1602)


def ints(lo, hi, n=300):
    vals = {lo, lo + 1, hi - 1, hi, 0, 1, 2, 63, 64, 127, 128, 255, 256, 300}
    for p in range(1, 65):
        for d in (-2, -1, 0, 1, 2):
            for s in (1, -1):
                vals.add(s * (1 << p) + d)
    vals.update(rnd.randint(lo, hi) for _ in range(n))
    vals.update(rnd.randint(lo, hi) >> rnd.randrange(64) for _ in range(n))
    return sorted(v for v in vals if lo <= v <= hi)


def floats(fmt, ifmt, bits):
    out = [0.0, -0.0, 1.0, -1.0, 1.5, float("inf"), float("-inf")]
    for _ in range(300):
        x = struct.unpack(fmt, struct.pack(ifmt, rnd.getrandbits(bits)))[0]
        if x == x:
            out.append(x)
    return out


DOMAIN = {
    "bool": [False, True],
    "int32": ints(-(2**31), 2**31 - 1),
    "int64": ints(-(2**63), 2**63 - 1),
    "uint32": ints(0, 2**32 - 1),
    "uint64": ints(0, 2**64 - 1),
    "sint32": ints(-(2**31), 2**31 - 1),
    "sint64": ints(-(2**63), 2**63 - 1),
    "fixed32": ints(0, 2**32 - 1),
    "fixed64": ints(0, 2**64 - 1),
    "sfixed32": ints(-(2**31), 2**31 - 1),
    "sfixed64": ints(-(2**63), 2**63 - 1),
    "float": floats("<f", "<I", 32),
    "double": floats("<d", "<Q", 64),
    "string": ["", "a", "x" * 127, "x" * 128, "héllo 世界 \U0001f600", "\x00\x7f\x80"],
    "bytes": [b"", b"\x00", bytes(range(256))],
}

F = descriptor_pb2.FieldDescriptorProto
KINDS = [
    ("double", F.TYPE_DOUBLE, float), ("float", F.TYPE_FLOAT, float), ("int32", F.TYPE_INT32, int),
    ("int64", F.TYPE_INT64, int), ("uint32", F.TYPE_UINT32, int), ("uint64", F.TYPE_UINT64, int),
    ("sint32", F.TYPE_SINT32, int), ("sint64", F.TYPE_SINT64, int), ("fixed32", F.TYPE_FIXED32, int),
    ("fixed64", F.TYPE_FIXED64, int), ("sfixed32", F.TYPE_SFIXED32, int), ("sfixed64", F.TYPE_SFIXED64, int),
    ("bool", F.TYPE_BOOL, bool), ("string", F.TYPE_STRING, str), ("bytes", F.TYPE_BYTES, bytes),
]
fdp = descriptor_pb2.FileDescriptorProto(name="c16_keep2.proto", package="c16k2", syntax="proto3")
for kind, ftype, _ in KINDS:
    m = fdp.message_type.add(name="M_" + kind)
    m.field.add(name="v", number=1, type=ftype, label=F.LABEL_OPTIONAL, proto3_optional=True, oneof_index=0)
    m.field.add(name="plain", number=2, type=ftype, label=F.LABEL_OPTIONAL)
    m.field.add(name="rep", number=300, type=ftype, label=F.LABEL_REPEATED)
    f = m.field.add(name="unpacked", number=17, type=ftype, label=F.LABEL_REPEATED)
    if kind not in ("string", "bytes"):
        f.options.packed = False
    m.oneof_decl.add(name="_v")
pool = descriptor_pool.DescriptorPool()
pool.Add(fdp)
REF = {k: message_factory.GetMessageClass(pool.FindMessageTypeByName("c16k2.M_" + k)) for k, _, _ in KINDS}


def make(kind, pytype):
    field = getattr(betterproto, kind + "_field")
    ns = {
        "__annotations__": {"v": Optional[pytype], "plain": pytype, "rep": List[pytype], "unpacked": List[pytype]},
        "v": field(1, optional=True),
        "plain": field(2),
        "rep": field(300),
        "unpacked": field(17),
        "__module__": __name__,
    }
    return dataclass(eq=False, repr=False)(type("B_" + kind, (betterproto.Message,), ns))


BP = {k: make(k, t) for k, _, t in KINDS}


def same(a, b):
    """equal, of the same type, and with the same sign of zero"""
    if isinstance(a, list):
        return isinstance(b, list) and len(a) == len(b) and all(same(x, y) for x, y in zip(a, b))
    if type(a) is not type(b):
        return False
    if isinstance(a, float):
        return struct.pack("<d", a) == struct.pack("<d", b)
    return a == b


cmp = 0
for kind, _, pytype in KINDS:
    values = DOMAIN[kind]
    for v in values:
        # bytes produced by the reference encoder are decoded to the very same value ...
        kw = {"v": v, "plain": v} if v else {"v": v}
        ref = REF[kind](**kw)
        wire = ref.SerializeToString()
        back = BP[kind]().parse(wire)
        assert same(back.v, ref.v), (kind, v, back.v)
        assert same(back.plain, ref.plain), (kind, v, back.plain)
        assert type(back.v) is pytype
        # ... and re-encode byte-identically
        assert bytes(back) == wire, (kind, v)
        cmp += 1
    for k in (1, 2, 5, 40):
        chunk = [rnd.choice(values) for _ in range(k)]
        ref = REF[kind](rep=chunk, unpacked=chunk)
        wire = ref.SerializeToString()
        back = BP[kind]().parse(wire)
        assert same(back.rep, list(ref.rep)) and same(back.unpacked, list(ref.unpacked)), (kind, chunk)
        # betterproto's own (always packed) encoding of the same lists decodes identically
        again = BP[kind]().parse(bytes(BP[kind](rep=chunk, unpacked=chunk)))
        assert same(again.rep, list(ref.rep)) and same(again.unpacked, list(ref.unpacked)), (kind, chunk)
        cmp += 1


# ---- raw varint payloads: what the decoder does with *any* 64-bit (and wider) varint
def oracle_varint_field(kind, n):
    if kind == "bool":
        return n > 0
    if kind in ("sint32", "sint64"):
        return (n >> 1) if not n & 1 else -(n >> 1) - 1
    if kind == "int64":
        n &= (1 << 64) - 1
        return n - (1 << 64) if n >> 63 else n
    if kind == "int32":
        n &= (1 << 32) - 1
        return n - (1 << 32) if n >> 31 else n
    return n


raw_values = ints(0, 2**64 - 1, 500) + list(range(0, 20000))
for kind in ("bool", "int32", "int64", "uint32", "uint64", "sint32", "sint64"):
    for n in raw_values:
        wire = b"\x08" + encode_varint(n)
        got = BP[kind]().parse(wire).v
        want = oracle_varint_field(kind, n)
        assert got == want and type(got) is type(want), (kind, n, got, want)
    # over-long but accepted 10-byte varints carrying more than 64 bits
    for tail in (0x02, 0x03, 0x7F):
        wire = b"\x08" + b"\xff" * 9 + bytes([tail])
        n, pos = decode_varint(wire, 1)
        assert pos == 11
        got = BP[kind]().parse(wire).v
        want = oracle_varint_field(kind, n)
        assert got == want and type(got) is type(want), (kind, tail, got, want)

# ---- raw fixed-width payloads: every bit pattern class
for kind, fmt in {"fixed32": "<I", "sfixed32": "<i", "float": "<f", "fixed64": "<Q", "sfixed64": "<q", "double": "<d"}.items():
    size = struct.calcsize(fmt)
    tag = bytes([0x08 | (5 if size == 4 else 1)])
    pats = [bytes(size), b"\xff" * size, b"\x00" * (size - 1) + b"\x80", b"\xff" * (size - 1) + b"\x7f"]
    pats += [rnd.getrandbits(8 * size).to_bytes(size, "little") for _ in range(500)]
    for pat in pats:
        got = BP[kind]().parse(tag + pat).v
        want = struct.unpack(fmt, pat)[0]
        assert type(got) is type(want) and struct.pack(fmt, got) == struct.pack(fmt, want), (kind, pat)
        ref = REF[kind].FromString(tag + pat).v
        assert (got != got and ref != ref) or got == ref, (kind, pat, got, ref)
    # packed run of raw patterns
    run = b"".join(pats[:50])
    wire = b"\xe2\x12" + encode_varint(len(run)) + run
    got = BP[kind]().parse(wire).rep
    want = [struct.unpack_from(fmt, run, i)[0] for i in range(0, len(run), size)]
    assert [struct.pack(fmt, x) for x in got] == [struct.pack(fmt, x) for x in want], kind
    # a truncated packed run is rejected the same way
    try:
        BP[kind]().parse(b"\xe2\x12" + encode_varint(len(run) - 1) + run[:-1])
    except struct.error:
        pass
    else:
        raise AssertionError("truncated packed run accepted for " + kind)

# invalid utf-8 in a string field
try:
    BP["string"]().parse(b"\x0a\x02\xc3\x28")
except UnicodeDecodeError:
    pass
else:
    raise AssertionError("invalid utf-8 accepted")


# ---- enum, nested message, wrapper, Timestamp/Duration, map: unchanged behaviour
class Colour(betterproto.Enum):
    ZERO = 0
    RED = 1
    NEG = -5


@dataclass(eq=False, repr=False)
class Inner(betterproto.Message):
    x: int = betterproto.sint64_field(1)


@dataclass(eq=False, repr=False)
class Outer(betterproto.Message):
    colour: Colour = betterproto.enum_field(1)
    colours: List[Colour] = betterproto.enum_field(2)
    inner: Inner = betterproto.message_field(3)
    wrapped: Optional[int] = betterproto.message_field(4, wraps=betterproto.TYPE_INT64)
    ts: datetime = betterproto.message_field(5)
    dur: timedelta = betterproto.message_field(6)
    m: Dict[int, str] = betterproto.map_field(7, betterproto.TYPE_SINT32, betterproto.TYPE_STRING)
    mm: Dict[str, Inner] = betterproto.map_field(8, betterproto.TYPE_STRING, betterproto.TYPE_MESSAGE)
    inners: List[Inner] = betterproto.message_field(9)
    blob: bytes = betterproto.bytes_field(10)


o = Outer(
    colour=Colour.NEG,
    colours=[Colour.RED, Colour.NEG, Colour.ZERO],
    inner=Inner(x=-(2**63)),
    wrapped=-1,
    ts=datetime(2021, 3, 4, 5, 6, 7, 890000, tzinfo=timezone.utc),
    dur=timedelta(days=-2, seconds=5, microseconds=17),
    m={-3: "minus three", 0: "", 2**31 - 1: "max"},
    mm={"a": Inner(x=7), "": Inner()},
    inners=[Inner(x=1), Inner(), Inner(x=-1)],
    blob=b"\x00\xff",
)
wire = bytes(o)
p = Outer().parse(wire)
assert p == o and bytes(p) == wire
assert p.colour is Colour.NEG and all(isinstance(c, Colour) for c in p.colours)
assert p.colours == [Colour.RED, Colour.NEG, Colour.ZERO]
assert p.inner.x == -(2**63) and betterproto.serialized_on_wire(p.inner)
assert p.wrapped == -1 and type(p.wrapped) is int
assert p.ts == o.ts and p.dur == o.dur
assert p.m == o.m and p.mm == o.mm and p.inners == o.inners and p.blob == b"\x00\xff"
assert all(betterproto.serialized_on_wire(i) for i in p.inners)
# an enum number the enum does not define, negative and sign-extended / truncated to 32 bits
q = Outer().parse(b"\x08" + encode_varint(-77))
assert int(q.colour) == -77 and isinstance(q.colour, Colour)
q = Outer().parse(b"\x08" + encode_varint(2**32 + 1))
assert q.colour is Colour.RED
q = Outer().parse(b"\x08" + encode_varint(2**32 - 5))
assert q.colour is Colour.NEG
# empty nested message is marked as received; wrapper of default value
q = Outer().parse(b"\x1a\x00\x22\x00")
assert betterproto.serialized_on_wire(q.inner) and q.wrapped == 0
print("ok:", cmp, "decode comparisons with google.protobuf + raw payload sweeps")
