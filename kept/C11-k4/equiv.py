"""C11 equivalence check for the service part of the code template.

Renders Stub/Base pairs with the real plugin (parser + models + template.py.j2) for the
default / typing.root / typing.310 / pydantic generator options and checks through a
grpclib ChannelFor channel, for all four cardinalities and for local, cross-package and
google.protobuf request/response types:

* the generated signatures: name of the request argument (`<param>` or `<param>_iterator`),
  keyword-only timeout / deadline / metadata, Base handlers taking exactly the request;
* calls made positionally and by keyword reach exactly the right handler, once, with the
  request(s) intact, and return the response(s) intact and in order, stream lengths 0..k;
* per-call timeout / deadline / metadata are forwarded and beat the stub-level defaults
  (all 64 None/set combinations per cardinality), observed on the server-side stream;
* a bare Base answers UNIMPLEMENTED; a handler's GRPCError (before the first and after
  some responses) reaches the caller with its status and message.
"""
import asyncio
import importlib
import inspect
import itertools
import os
import sys
import tempfile

import grpclib
from grpclib.const import Cardinality, Status
from grpclib.metadata import Deadline
from grpclib.testing import ChannelFor

import betterproto
from betterproto.lib.google.protobuf import (
    DescriptorProto,
    FieldDescriptorProto,
    FieldDescriptorProtoLabel,
    FieldDescriptorProtoType,
    FileDescriptorProto,
    MethodDescriptorProto,
    ServiceDescriptorProto,
)
from betterproto.lib.google.protobuf.compiler import CodeGeneratorRequest
from betterproto.plugin import compiler as plugin_compiler

plugin_compiler.subprocess.check_output = lambda cmd, input, encoding: input
from betterproto.plugin.parser import generate_code  # noqa: E402

T = FieldDescriptorProtoType
_counter = itertools.count()


def field(name, number, type_):
    return FieldDescriptorProto(
        name=name,
        number=number,
        type=type_,
        label=FieldDescriptorProtoLabel.LABEL_OPTIONAL,
        json_name=name,
    )


def message(name):
    return DescriptorProto(
        name=name, field=[field("x", 1, T.TYPE_INT32), field("s", 2, T.TYPE_STRING)]
    )


def rpc(name, inp, out, cs, ss):
    return MethodDescriptorProto(
        name=name, input_type=inp, output_type=out, client_streaming=cs, server_streaming=ss
    )


# (proto name, python name, input, output, client streaming, server streaming, request argument)
METHODS = [
    ("Buy", "buy", ".shop.Item", ".shop.Receipt", False, False, "item"),
    ("Watch", "watch", ".shop.Item", ".shop.Receipt", False, True, "item"),
    ("Upload", "upload", ".shop.Item", ".shop.Receipt", True, False, "item_iterator"),
    ("Chat", "chat", ".shop.Item", ".shop.Receipt", True, True, "item_iterator"),
    (
        "Ping",
        "ping",
        ".google.protobuf.Empty",
        ".google.protobuf.StringValue",
        False,
        False,
        "betterproto_lib_google_protobuf_empty",
    ),
    (
        "Feed",
        "feed",
        ".google.protobuf.Int32Value",
        ".shop.common.Note",
        True,
        True,
        "betterproto_lib_google_protobuf_int32_value_iterator",
    ),
    (
        "Tail",
        "tail",
        ".shop.common.Note",
        ".google.protobuf.Timestamp",
        False,
        True,
        "common_note",
    ),
    (
        "Gather",
        "gather",
        ".shop.common.Note",
        ".google.protobuf.Empty",
        True,
        False,
        "common_note_iterator",
    ),
]


def descriptors():
    shop = FileDescriptorProto(
        name="shop/shop.proto",
        package="shop",
        syntax="proto3",
        dependency=["shop/common/note.proto"],
        message_type=[message("Item"), message("Receipt")],
        service=[
            ServiceDescriptorProto(
                name="Store",
                method=[rpc(n, i, o, cs, ss) for n, _, i, o, cs, ss, _ in METHODS],
            ),
            ServiceDescriptorProto(name="Idle"),  # a service without methods
        ],
    )
    common = FileDescriptorProto(
        name="shop/common/note.proto",
        package="shop.common",
        syntax="proto3",
        message_type=[message("Note")],
    )
    return [common, shop]


def generate(parameter):
    files = descriptors()
    response = generate_code(
        CodeGeneratorRequest(
            file_to_generate=[f.name for f in files], parameter=parameter, proto_file=files
        )
    )
    root = tempfile.mkdtemp(prefix="c11keep2")
    top_name = f"c11k2_gen{next(_counter)}"
    top = os.path.join(root, top_name)
    os.makedirs(top)
    open(os.path.join(top, "__init__.py"), "w").close()
    for f in response.file:
        path = os.path.join(top, f.name)
        os.makedirs(os.path.dirname(path), exist_ok=True)
        with open(path, "w") as fh:
            fh.write(f.content or "")
    sys.path.insert(0, root)
    return top_name


def resolve(top_name, type_name, pydantic):
    pkg, _, cls = type_name[1:].rpartition(".")
    if pkg == "google.protobuf":
        modname = "betterproto.lib." + ("pydantic." if pydantic else "") + "google.protobuf"
    else:
        modname = f"{top_name}.{pkg}"
    return getattr(importlib.import_module(modname), cls)


def samples(cls, n, salt=0):
    name = cls.__name__
    out = []
    for i in range(n):
        k = i + salt
        if name == "Empty":
            out.append(cls())
        elif name == "StringValue":
            out.append(cls(value="" if k == 0 else f"v{k}"))
        elif name == "Int32Value":
            out.append(cls(value=0 if k == 0 else -1000 + k))
        elif name == "Timestamp":
            out.append(cls(seconds=k * 86400, nanos=k))
        else:
            out.append(cls(x=k * 3, s="" if k == 0 else f"{name}#{k}"))
    return out


class Recorder:
    """State shared by the generated handlers of one service instance."""

    def __init__(self):
        self.calls = []  # (proto method name, [requests])
        self.streams = []  # (route, metadata dict, deadline remaining or None)
        self.replies = {}
        self.fail = {}  # proto name -> (after how many replies, status, message)


def make_impl(Base, top_name, pydantic, rec):
    def make_handler(pname, cs, ss):
        def finish(n_sent):
            spec = rec.fail.get(pname)
            if spec is not None and spec[0] == n_sent:
                raise grpclib.GRPCError(spec[1], spec[2])

        if not cs and not ss:

            async def handler(self, request):
                rec.calls.append((pname, [request]))
                finish(0)
                return rec.replies[pname][0]

        elif not cs and ss:

            async def handler(self, request):
                rec.calls.append((pname, [request]))
                n = 0
                finish(n)
                for r in rec.replies[pname]:
                    yield r
                    n += 1
                    finish(n)

        elif cs and not ss:

            async def handler(self, request_iterator):
                rec.calls.append((pname, [r async for r in request_iterator]))
                finish(0)
                return rec.replies[pname][0]

        else:

            async def handler(self, request_iterator):
                rec.calls.append((pname, [r async for r in request_iterator]))
                n = 0
                finish(n)
                for r in rec.replies[pname]:
                    yield r
                    n += 1
                    finish(n)

        return handler

    namespace = {py: make_handler(p, cs, ss) for p, py, _, _, cs, ss, _ in METHODS}

    def __mapping__(self):
        # observe the server-side stream of every call, then run the generated adapter
        mapping = Base.__mapping__(self)

        def wrap(route, func):
            async def observed(stream):
                deadline = stream.deadline
                rec.streams.append(
                    (
                        route,
                        dict(stream.metadata),
                        None if deadline is None else deadline.time_remaining(),
                    )
                )
                await func(stream)

            return observed

        return {
            route: h._replace(func=wrap(route, h.func)) for route, h in mapping.items()
        }

    namespace["__mapping__"] = __mapping__
    return type("StoreImpl", (Base,), namespace)()


def arg_name_for(arg, pydantic):
    """Request argument name: the pydantic flavour of the google types lives elsewhere."""
    if pydantic:
        return arg.replace("betterproto_lib_google", "betterproto_lib_pydantic_google")
    return arg


def check_signatures(mod, top_name, pydantic):
    Stub, Base = mod.StoreStub, mod.StoreBase
    for pname, py, inp, out, cs, ss, arg in METHODS:
        arg = arg_name_for(arg, pydantic)
        sig = inspect.signature(getattr(Stub, py))
        params = list(sig.parameters.values())
        assert [p.name for p in params] == [
            "self",
            arg,
            "timeout",
            "deadline",
            "metadata",
        ], (py, sig)
        assert params[1].kind is inspect.Parameter.POSITIONAL_OR_KEYWORD
        assert params[1].default is inspect.Parameter.empty
        for p in params[2:]:
            assert p.kind is inspect.Parameter.KEYWORD_ONLY and p.default is None, (py, p)
        assert inspect.isasyncgenfunction(getattr(Stub, py)) == ss, py
        assert inspect.iscoroutinefunction(getattr(Stub, py)) == (not ss), py

        bsig = inspect.signature(getattr(Base, py))
        assert [p.name for p in bsig.parameters.values()] == ["self", arg], (py, bsig)
        assert inspect.isasyncgenfunction(getattr(Base, py)) == ss, py
        # annotations mention the request class, and an iterator for client streaming
        ann = str(params[1].annotation)
        cls_name = inp.rsplit(".", 1)[1]
        assert cls_name in ann, (py, ann)
        assert ("Iterable" in ann) == cs, (py, ann)
        bann = str(list(bsig.parameters.values())[1].annotation)
        assert cls_name in bann and ("AsyncIterator" in bann) == cs, (py, bann)
    # the method-less service still renders importable classes
    assert issubclass(mod.IdleStub, betterproto.ServiceStub)
    assert mod.IdleBase().__mapping__() == {}


async def invoke(stub, py, arg_name, arg, ss, by_keyword, **options):
    method = getattr(stub, py)
    call = method(**{arg_name: arg}, **options) if by_keyword else method(arg, **options)
    if ss:
        return [r async for r in call]
    return [await call]


async def check_calls(mod, top_name, pydantic):
    rec = Recorder()
    impl = make_impl(mod.StoreBase, top_name, pydantic, rec)

    mapping = mod.StoreBase().__mapping__()
    assert set(mapping) == {f"/shop.Store/{p}" for p, *_ in METHODS}
    for pname, py, inp, out, cs, ss, arg in METHODS:
        h = mapping[f"/shop.Store/{pname}"]
        assert h.request_type is resolve(top_name, inp, pydantic)
        assert h.reply_type is resolve(top_name, out, pydantic)
        assert h.cardinality is {
            (False, False): Cardinality.UNARY_UNARY,
            (False, True): Cardinality.UNARY_STREAM,
            (True, False): Cardinality.STREAM_UNARY,
            (True, True): Cardinality.STREAM_STREAM,
        }[(cs, ss)]

    n = 0
    async with ChannelFor([impl]) as channel:
        stub = mod.StoreStub(channel)
        for pname, py, inp, out, cs, ss, arg_name in METHODS:
            arg_name = arg_name_for(arg_name, pydantic)
            req_cls = resolve(top_name, inp, pydantic)
            rep_cls = resolve(top_name, out, pydantic)
            for nreq in (0, 1, 2, 5) if cs else (1,):
                for nrep in (0, 1, 2, 6) if ss else (1,):
                    for by_keyword in (False, True):
                        for source in ("list", "generator", "async") if cs else ("one",):
                            requests = samples(req_cls, nreq, salt=n % 3)
                            replies = samples(rep_cls, nrep, salt=n % 2)
                            rec.replies[pname] = replies
                            rec.calls.clear()
                            if source == "one":
                                arg = requests[0]
                            elif source == "list":
                                arg = list(requests)
                            elif source == "generator":
                                arg = (r for r in requests)
                            else:

                                async def agen(items=requests):
                                    for r in items:
                                        await asyncio.sleep(0)
                                        yield r

                                arg = agen()
                            got = await invoke(stub, py, arg_name, arg, ss, by_keyword)
                            assert rec.calls == [(pname, requests)], (py, rec.calls, requests)
                            assert got == replies, (py, got, replies)
                            assert all(type(r) is rep_cls for r in got)
                            assert all(type(r) is req_cls for r in rec.calls[0][1])
                            n += 1

        # -- a handler's GRPCError reaches the caller: before and after some responses
        for pname, py, inp, out, cs, ss, arg_name in METHODS:
            arg_name = arg_name_for(arg_name, pydantic)
            req_cls = resolve(top_name, inp, pydantic)
            rep_cls = resolve(top_name, out, pydantic)
            for after in (0, 1, 3) if ss else (0,):
                rec.replies[pname] = samples(rep_cls, 3, salt=1)
                rec.fail[pname] = (after, Status.FAILED_PRECONDITION, f"{pname} failed at {after}")
                rec.calls.clear()
                arg = samples(req_cls, 2, salt=1) if cs else samples(req_cls, 2, salt=1)[1]
                got = []
                try:
                    call = getattr(stub, py)(arg)
                    if ss:
                        async for r in call:
                            got.append(r)
                    else:
                        got.append(await call)
                except grpclib.GRPCError as e:
                    assert e.status is Status.FAILED_PRECONDITION, (py, e.status)
                    assert e.message == f"{pname} failed at {after}", (py, e.message)
                else:
                    raise AssertionError(f"{py}: GRPCError expected")
                assert got == rec.replies[pname][:after], (py, got)
                assert len(rec.calls) == 1 and rec.calls[0][0] == pname
                del rec.fail[pname]
                n += 1

    # -- nothing overridden: UNIMPLEMENTED
    async with ChannelFor([mod.StoreBase()]) as channel:
        stub = mod.StoreStub(channel)
        for pname, py, inp, out, cs, ss, arg_name in METHODS:
            arg_name = arg_name_for(arg_name, pydantic)
            req_cls = resolve(top_name, inp, pydantic)
            arg = samples(req_cls, 2, salt=1) if cs else samples(req_cls, 2, salt=1)[1]
            try:
                await invoke(stub, py, arg_name, arg, ss, True)
            except grpclib.GRPCError as e:
                assert e.status is Status.UNIMPLEMENTED, (py, e.status)
            else:
                raise AssertionError(f"{py}: UNIMPLEMENTED expected")
            n += 1
    return n


async def check_options(mod, top_name, pydantic):
    """timeout / deadline / metadata: call level beats stub level, for every cardinality."""
    rec = Recorder()
    impl = make_impl(mod.StoreBase, top_name, pydantic, rec)
    STUB_TIMEOUT, CALL_TIMEOUT, STUB_DEADLINE, CALL_DEADLINE = 500.0, 200.0, 800.0, 350.0
    n = 0
    async with ChannelFor([impl]) as channel:
        for pname, py, inp, out, cs, ss, arg_name in METHODS[:4]:
            req_cls = resolve(top_name, inp, pydantic)
            rep_cls = resolve(top_name, out, pydantic)
            rec.replies[pname] = samples(rep_cls, 2 if ss else 1, salt=1)
            for s_to, s_dl, s_md, c_to, c_dl, c_md in itertools.product((False, True), repeat=6):
                stub_md = {"x-level": "stub", "x-stub-only": "1"} if s_md else None
                call_md = [("x-level", "call"), ("x-call-only", "2")] if c_md else None
                stub = mod.StoreStub(
                    channel,
                    timeout=STUB_TIMEOUT if s_to else None,
                    deadline=Deadline.from_timeout(STUB_DEADLINE) if s_dl else None,
                    metadata=stub_md,
                )
                options = {}
                if c_to:
                    options["timeout"] = CALL_TIMEOUT
                if c_dl:
                    options["deadline"] = Deadline.from_timeout(CALL_DEADLINE)
                if c_md:
                    options["metadata"] = call_md
                rec.calls.clear()
                rec.streams.clear()
                requests = samples(req_cls, 2 if cs else 1, salt=1)
                arg = requests if cs else requests[0]
                got = await invoke(stub, py, arg_name, arg, ss, n % 2 == 0, **options)
                assert got == rec.replies[pname]
                assert rec.calls == [(pname, requests)]
                assert len(rec.streams) == 1
                route, seen_md, remaining = rec.streams[0]
                assert route == f"/shop.Store/{pname}"

                custom = {k: v for k, v in seen_md.items() if k.startswith("x-")}
                if c_md:
                    assert custom == {"x-level": "call", "x-call-only": "2"}, custom
                elif s_md:
                    assert custom == {"x-level": "stub", "x-stub-only": "1"}, custom
                else:
                    assert custom == {}, custom

                eff_timeout = CALL_TIMEOUT if c_to else (STUB_TIMEOUT if s_to else None)
                eff_deadline = CALL_DEADLINE if c_dl else (STUB_DEADLINE if s_dl else None)
                limits = [v for v in (eff_timeout, eff_deadline) if v is not None]
                if not limits:
                    assert remaining is None, remaining
                else:
                    expected = min(limits)  # grpclib applies the stricter of the two
                    assert remaining is not None
                    assert expected - 60 < remaining <= expected + 1, (remaining, expected)
                n += 1

            # an empty (falsy) call-level metadata still replaces the stub-level one
            stub = mod.StoreStub(channel, metadata={"x-level": "stub"})
            rec.streams.clear()
            requests = samples(req_cls, 2 if cs else 1, salt=1)
            await invoke(stub, py, arg_name, requests if cs else requests[0], ss, True, metadata={})
            assert not [k for k in rec.streams[0][1] if k.startswith("x-")], rec.streams
            n += 1
    return n


async def main():
    total = 0
    for parameter in ("", "typing.root", "typing.310", "pydantic_dataclasses"):
        top_name = generate(parameter)
        pydantic = parameter == "pydantic_dataclasses"
        mod = importlib.import_module(f"{top_name}.shop")
        check_signatures(mod, top_name, pydantic)
        total += await check_calls(mod, top_name, pydantic)
        total += await check_options(mod, top_name, pydantic)
    assert total > 1500, total
    print(f"C11 keep2 equiv OK ({total} calls)")


asyncio.run(main())
