# ---------------------------------------------------------------------------
# Reference side: build google.protobuf message classes for hand-written
# betterproto dataclasses (same field names, numbers, types, oneofs, maps).
# ---------------------------------------------------------------------------
import dataclasses
import typing
from datetime import datetime, timedelta

import betterproto
from google.protobuf import (  # noqa: F401  (imports register the well-known types)
    descriptor_pb2,
    descriptor_pool,
    duration_pb2,
    json_format,
    message_factory,
    timestamp_pb2,
    wrappers_pb2,
)

_FD = descriptor_pb2.FieldDescriptorProto
_SCALAR = {
    "bool": _FD.TYPE_BOOL, "int32": _FD.TYPE_INT32, "int64": _FD.TYPE_INT64,
    "uint32": _FD.TYPE_UINT32, "uint64": _FD.TYPE_UINT64, "sint32": _FD.TYPE_SINT32,
    "sint64": _FD.TYPE_SINT64, "float": _FD.TYPE_FLOAT, "double": _FD.TYPE_DOUBLE,
    "fixed32": _FD.TYPE_FIXED32, "sfixed32": _FD.TYPE_SFIXED32,
    "fixed64": _FD.TYPE_FIXED64, "sfixed64": _FD.TYPE_SFIXED64,
    "string": _FD.TYPE_STRING, "bytes": _FD.TYPE_BYTES,
}
_WRAPPER = {
    "bool": "BoolValue", "bytes": "BytesValue", "double": "DoubleValue",
    "float": "FloatValue", "int32": "Int32Value", "int64": "Int64Value",
    "string": "StringValue", "uint32": "UInt32Value", "uint64": "UInt64Value",
}


def build_reference(package, *classes):
    """Return {betterproto class: google.protobuf class} for ``classes`` (messages and
    enums they use are discovered from the type hints)."""
    fdp = descriptor_pb2.FileDescriptorProto(
        name=f"{package}.proto", package=package, syntax="proto3"
    )
    fdp.dependency.extend([
        "google/protobuf/timestamp.proto",
        "google/protobuf/duration.proto",
        "google/protobuf/wrappers.proto",
    ])
    todo, seen_msgs, seen_enums = list(classes), [], []

    def type_ref(py_type, fld, proto_type, wraps):
        """Fill type / type_name of ``fld`` for one (non-map) element type."""
        if proto_type == "message":
            fld.type = _FD.TYPE_MESSAGE
            if wraps:
                fld.type_name = f".google.protobuf.{_WRAPPER[wraps]}"
            elif py_type is datetime:
                fld.type_name = ".google.protobuf.Timestamp"
            elif py_type is timedelta:
                fld.type_name = ".google.protobuf.Duration"
            else:
                fld.type_name = f".{package}.{py_type.__name__}"
                if py_type not in seen_msgs and py_type not in todo:
                    todo.append(py_type)
        elif proto_type == "enum":
            fld.type = _FD.TYPE_ENUM
            fld.type_name = f".{package}.{py_type.__name__}"
            if py_type not in seen_enums:
                seen_enums.append(py_type)
        else:
            fld.type = _SCALAR[proto_type]

    def strip(hint):
        """(element type(s), is_list, is_dict) of a type hint."""
        origin = typing.get_origin(hint)
        args = typing.get_args(hint)
        if origin is list:
            return args[0], True, False
        if origin is dict:
            return args, False, True
        if origin is typing.Union:
            return [a for a in args if a is not type(None)][0], False, False
        return hint, False, False

    while todo:
        cls = todo.pop(0)
        if cls in seen_msgs:
            continue
        seen_msgs.append(cls)
        msg = fdp.message_type.add(name=cls.__name__)
        hints = cls._type_hints()
        oneofs = []
        for f in dataclasses.fields(cls):
            meta = betterproto.FieldMetadata.get(f)
            if meta.group and meta.group not in oneofs:
                oneofs.append(meta.group)
                msg.oneof_decl.add(name=meta.group)
        synthetic = []
        for f in dataclasses.fields(cls):
            meta = betterproto.FieldMetadata.get(f)
            fld = msg.field.add(name=f.name, number=meta.number)
            fld.label = _FD.LABEL_OPTIONAL
            elem, is_list, is_dict = strip(hints[f.name])
            if meta.proto_type == "map":
                kt, vt = meta.map_types
                entry_name = "".join(p.capitalize() for p in f.name.split("_")) + "Entry"
                entry = msg.nested_type.add(name=entry_name)
                entry.options.map_entry = True
                kf = entry.field.add(name="key", number=1, label=_FD.LABEL_OPTIONAL)
                type_ref(elem[0], kf, kt, None)
                vf = entry.field.add(name="value", number=2, label=_FD.LABEL_OPTIONAL)
                type_ref(elem[1], vf, vt, None)
                fld.label = _FD.LABEL_REPEATED
                fld.type = _FD.TYPE_MESSAGE
                fld.type_name = f".{package}.{cls.__name__}.{entry_name}"
                continue
            type_ref(elem, fld, meta.proto_type, meta.wraps)
            if is_list:
                fld.label = _FD.LABEL_REPEATED
            if meta.group:
                fld.oneof_index = oneofs.index(meta.group)
            elif meta.optional:
                fld.proto3_optional = True
                synthetic.append(fld)
        for fld in synthetic:  # synthetic oneofs come after the real ones
            msg.oneof_decl.add(name=f"_{fld.name}")
            fld.oneof_index = len(msg.oneof_decl) - 1
    for enum_cls in seen_enums:
        ed = fdp.enum_type.add(name=enum_cls.__name__)
        for member in enum_cls:
            ed.value.add(name=member.name, number=int(member))
    pool = descriptor_pool.Default()
    pool.Add(fdp)
    return {
        cls: message_factory.GetMessageClass(
            pool.FindMessageTypeByName(f"{package}.{cls.__name__}")
        )
        for cls in seen_msgs
    }


def det(ref_msg):
    """Canonical bytes of a reference message (map entries sorted, NaN-safe compare)."""
    return ref_msg.SerializeToString(deterministic=True)


def check_json_against_reference(msg, ref_cls, **to_json_kwargs):
    """The two directions of the property for one betterproto message ``msg``."""
    # the message as the reference implementation sees it (via the wire format)
    expected = ref_cls.FromString(bytes(msg))
    # 1. betterproto JSON -> reference parser -> same message
    text = msg.to_json(**to_json_kwargs)
    parsed = json_format.Parse(text, ref_cls())
    assert det(parsed) == det(expected), (
        f"reference parsed betterproto JSON {text} into a different message:\n"
        f"{parsed!r}\nvs expected\n{expected!r}"
    )
    # 2. reference JSON -> betterproto parser -> same message
    ref_text = json_format.MessageToJson(expected)
    back = type(msg)().from_json(ref_text)
    assert det(ref_cls.FromString(bytes(back))) == det(expected), (
        f"betterproto parsed reference JSON {ref_text} into a different message: {back!r}"
    )
    return text, ref_text


# ---------------------------------------------------------------------------
# equiv.py for C05 / keep2: Message.to_dict / to_json over every kind of field
# (oneof members holding default values, proto3 optional, plain, repeated, maps of
# every value kind, wrappers), with and without include_default_values, checked
# against fixed expectations and against google.protobuf.json_format.
# ---------------------------------------------------------------------------
import json
import math
import random
from dataclasses import dataclass
from datetime import timezone
from typing import Dict, List, Optional

from betterproto import Casing


class Color(betterproto.Enum):
    COLOR_UNSPECIFIED = 0
    RED = 1
    GREEN = 2
    NEGATIVE = -7


@dataclass(eq=False, repr=False)
class Inner(betterproto.Message):
    x: int = betterproto.int32_field(1)
    big_value: int = betterproto.uint64_field(2)


@dataclass(eq=False, repr=False)
class Big(betterproto.Message):
    # oneof choice
    c_int32: int = betterproto.int32_field(1, group="choice")
    c_int64: int = betterproto.sint64_field(2, group="choice")
    c_str: str = betterproto.string_field(3, group="choice")
    c_bytes: bytes = betterproto.bytes_field(4, group="choice")
    c_bool: bool = betterproto.bool_field(5, group="choice")
    c_double: float = betterproto.double_field(6, group="choice")
    c_enum: Color = betterproto.enum_field(7, group="choice")
    c_dur: timedelta = betterproto.message_field(8, group="choice")
    c_ts: datetime = betterproto.message_field(9, group="choice")
    c_msg: Inner = betterproto.message_field(10, group="choice")
    # a second oneof
    d_fixed: int = betterproto.fixed64_field(11, group="other")
    d_msg: Inner = betterproto.message_field(12, group="other")
    # proto3 optional
    o_int32: Optional[int] = betterproto.int32_field(21, optional=True)
    o_int64: Optional[int] = betterproto.int64_field(22, optional=True)
    o_str: Optional[str] = betterproto.string_field(23, optional=True)
    o_bytes: Optional[bytes] = betterproto.bytes_field(24, optional=True)
    o_bool: Optional[bool] = betterproto.bool_field(25, optional=True)
    o_double: Optional[float] = betterproto.double_field(26, optional=True)
    o_enum: Optional[Color] = betterproto.enum_field(27, optional=True)
    o_dur: Optional[timedelta] = betterproto.message_field(28, optional=True)
    o_ts: Optional[datetime] = betterproto.message_field(29, optional=True)
    o_msg: Optional[Inner] = betterproto.message_field(30, optional=True)
    # plain
    p_int32: int = betterproto.int32_field(41)
    p_int64: int = betterproto.sfixed64_field(42)
    p_str: str = betterproto.string_field(43)
    p_bytes: bytes = betterproto.bytes_field(44)
    p_bool: bool = betterproto.bool_field(45)
    p_double: float = betterproto.double_field(46)
    p_enum: Color = betterproto.enum_field(47)
    p_dur: timedelta = betterproto.message_field(48)
    p_ts: datetime = betterproto.message_field(49)
    p_msg: Inner = betterproto.message_field(50)
    # repeated
    r_int64: List[int] = betterproto.int64_field(61)
    r_enum: List[Color] = betterproto.enum_field(62)
    r_dur: List[timedelta] = betterproto.message_field(63)
    r_ts: List[datetime] = betterproto.message_field(64)
    r_msg: List[Inner] = betterproto.message_field(65)
    r_double: List[float] = betterproto.double_field(66)
    r_bytes: List[bytes] = betterproto.bytes_field(67)
    r_str: List[str] = betterproto.string_field(68)
    # maps
    m_ts: Dict[str, datetime] = betterproto.map_field(81, "string", "message")
    m_dur: Dict[int, timedelta] = betterproto.map_field(82, "int32", "message")
    m_msg: Dict[str, Inner] = betterproto.map_field(83, "string", "message")
    m_enum: Dict[int, Color] = betterproto.map_field(84, "sint64", "enum")
    m_i64: Dict[bool, int] = betterproto.map_field(85, "bool", "int64")
    m_bytes: Dict[int, bytes] = betterproto.map_field(86, "uint32", "bytes")
    m_double: Dict[str, float] = betterproto.map_field(87, "string", "double")
    m_str: Dict[int, str] = betterproto.map_field(88, "fixed64", "string")
    m_i32: Dict[str, int] = betterproto.map_field(89, "string", "int32")
    # wrappers
    w_int64: Optional[int] = betterproto.message_field(101, wraps="int64")
    w_bool: Optional[bool] = betterproto.message_field(102, wraps="bool")
    w_double: Optional[float] = betterproto.message_field(103, wraps="double")


def without_oneofs(cls, name):
    """The same message without its oneof members (with include_default_values=True
    betterproto lists every member of a oneof, which no parser accepts; that output is
    compared with fixed expectations below instead)."""
    hints = cls._type_hints()
    fields = []
    for f in dataclasses.fields(cls):
        meta = betterproto.FieldMetadata.get(f)
        if meta.group is None:
            fields.append((f.name, hints[f.name], betterproto.dataclass_field(
                meta.number, meta.proto_type, map_types=meta.map_types,
                wraps=meta.wraps, optional=meta.optional)))
    return dataclasses.make_dataclass(
        name, fields, bases=(betterproto.Message,), eq=False, repr=False
    )


def strip_empty(ref_msg):
    """Clear singular sub-messages that are present but empty."""
    for fd in ref_msg.DESCRIPTOR.fields:
        repeated = fd.is_repeated if hasattr(fd, "is_repeated") else fd.label == fd.LABEL_REPEATED
        if fd.message_type is not None and not repeated and ref_msg.HasField(fd.name):
            if getattr(ref_msg, fd.name).ByteSize() == 0:
                ref_msg.ClearField(fd.name)
    return ref_msg


def check_with_defaults(msg, ref_cls):
    """to_json(include_default_values=True) spells out unset singular Timestamp /
    Duration / message fields as zero values, so presence of *empty* sub-messages is
    not compared here; everything else must reach the reference parser unchanged."""
    expected = strip_empty(ref_cls.FromString(bytes(msg)))
    text = msg.to_json(include_default_values=True)
    parsed = strip_empty(json_format.Parse(text, ref_cls()))
    assert det(parsed) == det(expected), (text, parsed, expected)
    return text


Flat = without_oneofs(Big, "Flat")
refs = build_reference("c05keep2", Big, Flat)
RefBig, RefFlat = refs[Big], refs[Flat]
UTC = timezone.utc
EPOCH = datetime(1970, 1, 1, tzinfo=UTC)
inf, nan = float("inf"), float("nan")


def camel(name):
    return betterproto.casing.camel_case(name)


# --- 1. fixed expectations: each oneof member, at its default and at another value
ONEOF_CASES = [
    ("c_int32", 0, 0), ("c_int32", -5, -5),
    ("c_int64", 0, "0"), ("c_int64", -(2**63), "-9223372036854775808"),
    ("c_str", "", ""), ("c_str", "x", "x"),
    ("c_bytes", b"", ""), ("c_bytes", b"\xfb\xff", "+/8="),
    ("c_bool", False, False), ("c_bool", True, True),
    ("c_double", 0.0, 0.0), ("c_double", nan, "NaN"), ("c_double", -inf, "-Infinity"),
    ("c_enum", Color.COLOR_UNSPECIFIED, "COLOR_UNSPECIFIED"), ("c_enum", Color.NEGATIVE, "NEGATIVE"),
    ("c_dur", timedelta(0), "0.000s"), ("c_dur", timedelta(microseconds=-1), "-0.000001s"),
    ("c_ts", EPOCH, "1970-01-01T00:00:00Z"),
    ("c_ts", datetime(1, 1, 1, 0, 0, 0, 5000, tzinfo=UTC), "0001-01-01T00:00:00.005Z"),
    ("c_msg", Inner(), {}), ("c_msg", Inner(x=1, big_value=2**64 - 1), {"x": 1, "bigValue": "18446744073709551615"}),
    ("d_fixed", 0, "0"), ("d_msg", Inner(), {}),
]
for name, value, expected in ONEOF_CASES:
    msg = Big(**{name: value})
    assert msg.to_dict() == {camel(name): expected}, (name, msg.to_dict())
    assert msg.to_dict(casing=Casing.SNAKE) == (
        {name: {"x": 1, "big_value": "18446744073709551615"}}
        if isinstance(expected, dict) and expected
        else {name: expected}
    )
    assert json.loads(msg.to_json()) == {camel(name): expected}
    check_json_against_reference(msg, RefBig)
    with_defaults = msg.to_dict(include_default_values=True)
    assert with_defaults[camel(name)] == (
        {"x": value.x, "bigValue": str(value.big_value)} if isinstance(value, Inner) else expected
    )
    assert list(with_defaults) == [camel(f.name) for f in dataclasses.fields(Big)]
    # assigned after construction, displacing another member
    other = Big(c_int32=9, d_fixed=4)
    setattr(other, name, value)
    expect_other = {camel(name): expected}
    if name.startswith("c_"):
        expect_other["dFixed"] = "4"
    else:
        expect_other["cInt32"] = 9
    assert other.to_dict() == expect_other, (name, other.to_dict())
    check_json_against_reference(other, RefBig)

# --- 2. proto3 optional fields: set to the default value they are still emitted
OPTIONAL_CASES = [
    ("o_int32", 0, 0), ("o_int64", 0, "0"), ("o_str", "", ""), ("o_bytes", b"", ""),
    ("o_bool", False, False), ("o_double", 0.0, 0.0),
    ("o_enum", Color.COLOR_UNSPECIFIED, "COLOR_UNSPECIFIED"),
    ("o_dur", timedelta(0), "0.000s"), ("o_ts", EPOCH, "1970-01-01T00:00:00Z"),
    ("o_msg", Inner(), {}),
    ("o_int64", 2**63 - 1, "9223372036854775807"), ("o_enum", Color.GREEN, "GREEN"),
    ("o_dur", timedelta(days=1, microseconds=1000), "86400.001s"),
    ("o_ts", datetime(9999, 12, 31, 23, 59, 59, 999999, tzinfo=UTC), "9999-12-31T23:59:59.999999Z"),
    ("o_msg", Inner(x=-1), {"x": -1}),
]
for name, value, expected in OPTIONAL_CASES:
    msg = Big(**{name: value})
    assert msg.to_dict() == {camel(name): expected}, (name, msg.to_dict())
    check_json_against_reference(msg, RefBig)
    flat = Flat(**{name: value})
    assert flat.to_dict() == {camel(name): expected}
    check_json_against_reference(flat, RefFlat)
    check_with_defaults(flat, RefFlat)

# --- 3. plain fields: default values are left out, others are emitted
assert Big().to_dict() == {}
assert Big().to_json() == "{}"
plain_default = Big(p_int32=0, p_int64=0, p_str="", p_bytes=b"", p_bool=False, p_double=0.0,
                    p_enum=Color.COLOR_UNSPECIFIED, p_dur=timedelta(0), p_ts=EPOCH)
assert plain_default.to_dict() == {}
check_json_against_reference(plain_default, RefBig)
plain = Big(p_int32=1, p_int64=-1, p_str="s", p_bytes=b"b", p_bool=True, p_double=inf,
            p_enum=Color.RED, p_dur=timedelta(seconds=-1, microseconds=-500000),
            p_ts=datetime(1969, 12, 31, 23, 59, 59, 500000, tzinfo=UTC), p_msg=Inner(x=2))
assert plain.to_dict() == {
    "pInt32": 1, "pInt64": "-1", "pStr": "s", "pBytes": "Yg==", "pBool": True,
    "pDouble": "Infinity", "pEnum": "RED", "pDur": "-1.500s",
    "pTs": "1969-12-31T23:59:59.500Z", "pMsg": {"x": 2},
}
check_json_against_reference(plain, RefBig)
# a sub-message that was set but is empty, and one that is filled in place
assert Big(p_msg=Inner()).to_dict() in ({}, {"pMsg": {}})
filled = Big()
filled.p_msg.x = 3
assert filled.to_dict() == {"pMsg": {"x": 3}}
check_json_against_reference(filled, RefBig)
parsed = Big().parse(bytes(Big(p_msg=Inner())) or b"")
check_json_against_reference(parsed, RefBig)
present = Big().parse(b"\x92\x03\x00")  # field 50, empty sub-message present on the wire
assert present.to_dict() == {"pMsg": {}}
check_json_against_reference(present, RefBig)

# --- 4. repeated fields and maps
coll = Big(
    r_int64=[0, -1, 2**63 - 1], r_enum=[Color.COLOR_UNSPECIFIED, Color.NEGATIVE],
    r_dur=[timedelta(0), timedelta(seconds=5)], r_ts=[EPOCH, datetime(2000, 2, 29, tzinfo=UTC)],
    r_msg=[Inner(), Inner(x=1)], r_double=[0.0, nan, inf, -inf, 1.5], r_bytes=[b"", b"\x00"],
    r_str=["", "a"],
    m_ts={"a": EPOCH, "": datetime(2000, 1, 1, 0, 0, 0, 1, tzinfo=UTC)},
    m_dur={0: timedelta(0), -1: timedelta(microseconds=1500)},
    m_msg={"": Inner(), "k": Inner(big_value=1)},
    m_enum={0: Color.COLOR_UNSPECIFIED, -(2**63): Color.GREEN},
    m_i64={False: 0, True: -(2**63)}, m_bytes={0: b"", 2**32 - 1: b"\xff"},
    m_double={"n": nan, "z": 0.0, "i": -inf}, m_str={0: "", 2**64 - 1: "max"}, m_i32={"": 0, "q": -3},
)
assert coll.to_dict() == {
    "rInt64": ["0", "-1", "9223372036854775807"], "rEnum": ["COLOR_UNSPECIFIED", "NEGATIVE"],
    "rDur": ["0.000s", "5.000s"], "rTs": ["1970-01-01T00:00:00Z", "2000-02-29T00:00:00Z"],
    "rMsg": [{}, {"x": 1}], "rDouble": [0.0, "NaN", "Infinity", "-Infinity", 1.5],
    "rBytes": ["", "AA=="], "rStr": ["", "a"],
    "mTs": {"a": "1970-01-01T00:00:00Z", "": "2000-01-01T00:00:00.000001Z"},
    "mDur": {0: "0.000s", -1: "0.001500s"},
    "mMsg": {"": {}, "k": {"bigValue": "1"}},
    "mEnum": {0: "COLOR_UNSPECIFIED", -(2**63): "GREEN"},
    "mI64": {False: "0", True: "-9223372036854775808"},
    "mBytes": {0: "", 2**32 - 1: "/w=="},
    "mDouble": {"n": "NaN", "z": 0.0, "i": "-Infinity"},
    "mStr": {0: "", 2**64 - 1: "max"}, "mI32": {"": 0, "q": -3},
}
assert list(coll.to_dict()["mEnum"]) == [0, -(2**63)]  # insertion order is kept
assert coll.to_dict(casing=Casing.SNAKE)["m_msg"] == {"": {}, "k": {"big_value": "1"}}
assert coll.to_dict(include_default_values=True)["mMsg"] == {"": {"x": 0, "bigValue": "0"}, "k": {"x": 0, "bigValue": "1"}}
check_json_against_reference(coll, RefBig)
flat_coll = Flat().parse(bytes(coll))
assert flat_coll.to_dict() == Big().parse(bytes(coll)).to_dict()
check_json_against_reference(flat_coll, RefFlat)
check_with_defaults(flat_coll, RefFlat)
empty_coll = Big(r_int64=[], m_ts={}, m_msg={}, r_msg=[])
assert empty_coll.to_dict() == {}
check_json_against_reference(empty_coll, RefBig)

# --- 5. include_default_values on an empty message: every key, exact values
full = Big().to_dict(include_default_values=True)
assert full == {
    "cInt32": 0, "cInt64": "0", "cStr": "", "cBytes": "", "cBool": False, "cDouble": 0.0,
    "cEnum": "COLOR_UNSPECIFIED", "cDur": "0.000s", "cTs": "1970-01-01T00:00:00Z",
    "cMsg": {"x": 0, "bigValue": "0"}, "dFixed": "0", "dMsg": {"x": 0, "bigValue": "0"},
    "oInt32": None, "oInt64": None, "oStr": None, "oBytes": None, "oBool": None,
    "oDouble": None, "oEnum": None, "oDur": None, "oTs": None, "oMsg": None,
    "pInt32": 0, "pInt64": "0", "pStr": "", "pBytes": "", "pBool": False, "pDouble": 0.0,
    "pEnum": "COLOR_UNSPECIFIED", "pDur": "0.000s", "pTs": "1970-01-01T00:00:00Z",
    "pMsg": {"x": 0, "bigValue": "0"},
    "rInt64": [], "rEnum": [], "rDur": [], "rTs": [], "rMsg": [], "rDouble": [],
    "rBytes": [], "rStr": [],
    "mTs": {}, "mDur": {}, "mMsg": {}, "mEnum": {}, "mI64": {}, "mBytes": {},
    "mDouble": {}, "mStr": {}, "mI32": {},
    "wInt64": None, "wBool": None, "wDouble": None,
}, full
assert list(full) == [camel(f.name) for f in dataclasses.fields(Big)]

# --- 6. random messages against the reference
rng = random.Random(50505)


def gen_dur():
    return rng.choice([
        timedelta(0), timedelta(microseconds=1), timedelta(microseconds=-1),
        timedelta(seconds=315576000000), -timedelta(seconds=315576000000),
        timedelta(microseconds=rng.randint(-10**15, 10**15)), timedelta(milliseconds=rng.randint(-10**6, 10**6)),
        timedelta(seconds=rng.randint(-10**6, 10**6)),
    ])


def gen_ts():
    return rng.choice([
        EPOCH, datetime(1, 1, 1, tzinfo=UTC), datetime(9999, 12, 31, 23, 59, 59, 999999, tzinfo=UTC),
        EPOCH + timedelta(microseconds=rng.randint(-6 * 10**16, 2 * 10**17)),
        EPOCH + timedelta(milliseconds=rng.randint(-10**9, 10**12)),
        EPOCH + timedelta(seconds=rng.randint(-10**9, 10**10)),
    ])


def gen_inner():
    return rng.choice([Inner(), Inner(x=rng.randint(-5, 5)), Inner(big_value=rng.randint(0, 2**64 - 1)),
                       Inner(x=-(2**31), big_value=2**64 - 1)])


def gen_double():
    return rng.choice([0.0, 1.5, nan, inf, -inf, rng.uniform(-1e9, 1e9), rng.random() * 10 ** rng.randint(-300, 300)])


def gen_enum():
    return rng.choice(list(Color))


def gen_str():
    return rng.choice(["", "a", "NaN", "é中\U0001f600", '"quoted"\\', "x" * rng.randint(0, 8)])


def gen_bytes():
    return rng.choice([b"", b"\x00", b"\xfb\xff\xbf", rng.randbytes(rng.randint(0, 10))])


def i(lo, hi):
    return lambda: rng.choice([lo, hi, 0, 1, rng.randint(lo, hi), rng.randint(max(lo, -9), 9)])


def gen_bool():
    return rng.random() < 0.5


SINGLE = {
    "c_int32": i(-(2**31), 2**31 - 1), "c_int64": i(-(2**63), 2**63 - 1), "c_str": gen_str,
    "c_bytes": gen_bytes, "c_bool": gen_bool, "c_double": gen_double, "c_enum": gen_enum,
    "c_dur": gen_dur, "c_ts": gen_ts, "c_msg": gen_inner,
    "d_fixed": i(0, 2**64 - 1), "d_msg": gen_inner,
    "o_int32": i(-(2**31), 2**31 - 1), "o_int64": i(-(2**63), 2**63 - 1), "o_str": gen_str,
    "o_bytes": gen_bytes, "o_bool": gen_bool, "o_double": gen_double, "o_enum": gen_enum,
    "o_dur": gen_dur, "o_ts": gen_ts, "o_msg": gen_inner,
    "p_int32": i(-(2**31), 2**31 - 1), "p_int64": i(-(2**63), 2**63 - 1), "p_str": gen_str,
    "p_bytes": gen_bytes, "p_bool": gen_bool, "p_double": gen_double, "p_enum": gen_enum,
    "p_dur": gen_dur, "p_ts": gen_ts, "p_msg": gen_inner,
    "w_int64": i(-(2**63), 2**63 - 1), "w_bool": gen_bool, "w_double": gen_double,
}
LISTS = {
    "r_int64": i(-(2**63), 2**63 - 1), "r_enum": gen_enum, "r_dur": gen_dur, "r_ts": gen_ts,
    "r_msg": gen_inner, "r_double": gen_double, "r_bytes": gen_bytes, "r_str": gen_str,
}
MAPS = {
    "m_ts": (gen_str, gen_ts), "m_dur": (i(-(2**31), 2**31 - 1), gen_dur), "m_msg": (gen_str, gen_inner),
    "m_enum": (i(-(2**63), 2**63 - 1), gen_enum), "m_i64": (gen_bool, i(-(2**63), 2**63 - 1)),
    "m_bytes": (i(0, 2**32 - 1), gen_bytes), "m_double": (gen_str, gen_double),
    "m_str": (i(0, 2**64 - 1), gen_str), "m_i32": (gen_str, i(-(2**31), 2**31 - 1)),
}
count = 0
for _ in range(600):
    kwargs = {}
    density = rng.choice([0.1, 0.3, 0.7])
    choice_members = [n for n in SINGLE if n.startswith("c_")]
    other_members = [n for n in SINGLE if n.startswith("d_")]
    picked = {rng.choice(choice_members) if rng.random() < 0.7 else None,
              rng.choice(other_members) if rng.random() < 0.5 else None}
    for name, g in SINGLE.items():
        if name[:2] in ("c_", "d_"):
            if name in picked:
                kwargs[name] = g()
        elif rng.random() < density:
            kwargs[name] = g()
    for name, g in LISTS.items():
        if rng.random() < density:
            kwargs[name] = [g() for _ in range(rng.randint(0, 3))]
    for name, (gk, gv) in MAPS.items():
        if rng.random() < density:
            kwargs[name] = {gk(): gv() for _ in range(rng.randint(0, 3))}
    msg = Big(**kwargs)
    text, _ = check_json_against_reference(msg, RefBig)
    flat = Flat(**{k: v for k, v in kwargs.items() if k[:2] not in ("c_", "d_")})
    flat_text, _ = check_json_against_reference(flat, RefFlat)
    check_with_defaults(flat, RefFlat)
    doc = json.loads(text)
    assert json.loads(flat_text) == {
        k: v for k, v in doc.items() if k[0] not in "cd"
    } or "NaN" in flat_text
    # every selected oneof member and every set optional/wrapper field has its key
    for name in kwargs:
        if name[:2] in ("c_", "d_", "o_", "w_"):
            assert camel(name) in doc, (name, text)
    # to_json is json.dumps of to_dict, casing only changes the keys
    assert json.loads(msg.to_json(casing=Casing.SNAKE)).keys() == {
        betterproto.casing.snake_case(k) for k in doc
    }
    # the wire round trip gives the same JSON document (NaN-safe: compare the text)
    again = Big().parse(bytes(msg))
    check_json_against_reference(again, RefBig)
    count += 1

print(f"C05 keep2 equiv: OK ({count} random messages)")
