"""C07 keep1 - equivalence check for the 'selected member' helper refactor.

The refactor moves the lookup "which member of this oneof group is set" out of
Message._include_default_value_for_oneof, Message.is_set and betterproto.which_one_of
into one private method.  This script exercises those three entry points (directly and
through dump / to_dict / to_pydict, which call the first one) over random operation
histories, checks every state against

  * an explicit model of the history (which member was set last, with which value),
  * google.protobuf (WhichOneof, SerializeToString, MessageToDict of the same state),
  * a golden digest of every observable, recorded on the pristine tree,

and exits 0 on the pristine tree and with the refactor applied.
"""

import base64
import copy
import hashlib
import json
import pickle
import random
import struct
import sys
from dataclasses import dataclass
from datetime import datetime, timedelta, timezone
from typing import Optional

import betterproto
from betterproto import Casing, which_one_of
from google.protobuf import descriptor_pb2, descriptor_pool, json_format, message_factory

GOLDEN = "6a03f5933686d1d5ec4e5fc3f08416bb605f85746db36abeb32db1876d4a0c65"


# ----------------------------------------------------------------- betterproto side


class Kind(betterproto.Enum):
    KIND_ZERO = 0
    KIND_ONE = 1
    KIND_TWO = 2


@dataclass(eq=False, repr=False)
class Inner(betterproto.Message):
    count: int = betterproto.int32_field(1)
    label: str = betterproto.string_field(2)


@dataclass(eq=False, repr=False)
class Outer(betterproto.Message):
    plain_id: int = betterproto.int32_field(1)
    int_choice: int = betterproto.int32_field(2, group="first_group")
    text_choice: str = betterproto.string_field(3, group="first_group")
    kind_choice: Kind = betterproto.enum_field(4, group="first_group")
    inner_choice: Inner = betterproto.message_field(5, group="first_group")
    plain_name: str = betterproto.string_field(6)
    flag: bool = betterproto.bool_field(7, group="second")
    blob: bytes = betterproto.bytes_field(8, group="second")
    ratio: float = betterproto.double_field(9, group="second")
    big_value: int = betterproto.sint64_field(10, group="second")
    tail: int = betterproto.int32_field(11, group="third")
    other_inner: Inner = betterproto.message_field(12, group="third")
    maybe: Optional[int] = betterproto.int32_field(13, optional=True)


MEMBERS = {
    "int_choice": (2, "int32"),
    "text_choice": (3, "string"),
    "kind_choice": (4, "enum"),
    "inner_choice": (5, "message"),
    "flag": (7, "bool"),
    "blob": (8, "bytes"),
    "ratio": (9, "double"),
    "big_value": (10, "sint64"),
    "tail": (11, "int32"),
    "other_inner": (12, "message"),
}
GROUPS = {
    "first_group": ["int_choice", "text_choice", "kind_choice", "inner_choice"],
    "second": ["flag", "blob", "ratio", "big_value"],
    "third": ["tail", "other_inner"],
}
GROUP_OF = {name: group for group, names in GROUPS.items() for name in names}
ALL_FIELDS = ["plain_id", *MEMBERS, "plain_name", "maybe"]


def json_key(name):
    head, *rest = name.split("_")
    return head + "".join(part.capitalize() for part in rest)


# ---------------------------------------------------------------- google.protobuf side


def build_oracle():
    F = descriptor_pb2.FieldDescriptorProto
    fdp = descriptor_pb2.FileDescriptorProto(
        name="c07_keep1.proto", package="c07k1", syntax="proto3"
    )
    enum = fdp.enum_type.add(name="Kind")
    for number, name in enumerate(["KIND_ZERO", "KIND_ONE", "KIND_TWO"]):
        enum.value.add(name=name, number=number)
    inner = fdp.message_type.add(name="Inner")
    inner.field.add(name="count", number=1, type=F.TYPE_INT32, label=F.LABEL_OPTIONAL)
    inner.field.add(name="label", number=2, type=F.TYPE_STRING, label=F.LABEL_OPTIONAL)
    outer = fdp.message_type.add(name="Outer")
    for group in ("first_group", "second", "third", "_maybe"):
        outer.oneof_decl.add(name=group)
    index = {"first_group": 0, "second": 1, "third": 2}
    kinds = {
        "int32": F.TYPE_INT32,
        "string": F.TYPE_STRING,
        "enum": F.TYPE_ENUM,
        "message": F.TYPE_MESSAGE,
        "bool": F.TYPE_BOOL,
        "bytes": F.TYPE_BYTES,
        "double": F.TYPE_DOUBLE,
        "sint64": F.TYPE_SINT64,
    }
    outer.field.add(name="plain_id", number=1, type=F.TYPE_INT32, label=F.LABEL_OPTIONAL)
    outer.field.add(
        name="plain_name", number=6, type=F.TYPE_STRING, label=F.LABEL_OPTIONAL
    )
    for name, (number, kind) in MEMBERS.items():
        field = outer.field.add(
            name=name,
            number=number,
            type=kinds[kind],
            label=F.LABEL_OPTIONAL,
            oneof_index=index[GROUP_OF[name]],
        )
        if kind == "enum":
            field.type_name = ".c07k1.Kind"
        if kind == "message":
            field.type_name = ".c07k1.Inner"
    outer.field.add(
        name="maybe",
        number=13,
        type=F.TYPE_INT32,
        label=F.LABEL_OPTIONAL,
        oneof_index=3,
        proto3_optional=True,
    )
    pool = descriptor_pool.DescriptorPool()
    pool.Add(fdp)
    return message_factory.GetMessageClass(pool.FindMessageTypeByName("c07k1.Outer"))


PbOuter = build_oracle()


class State:
    """What the history says the message must look like."""

    def __init__(self):
        self.selected = {group: None for group in GROUPS}  # group -> (name, value)
        self.plain_id = 0
        self.plain_name = ""
        self.maybe = None

    def clone(self):
        other = State()
        other.selected = dict(self.selected)
        other.plain_id, other.plain_name, other.maybe = (
            self.plain_id,
            self.plain_name,
            self.maybe,
        )
        return other

    def to_oracle(self):
        pb = PbOuter()
        pb.plain_id = self.plain_id
        pb.plain_name = self.plain_name
        if self.maybe is not None:
            pb.maybe = self.maybe
        for group, entry in self.selected.items():
            if entry is None:
                continue
            name, value = entry
            if MEMBERS[name][1] == "message":
                sub = getattr(pb, name)
                sub.SetInParent()
                sub.count = value[0]
                sub.label = value[1]
            elif MEMBERS[name][1] == "enum":
                setattr(pb, name, int(value))
            else:
                setattr(pb, name, value)
        return pb


# --------------------------------------------------------------------------- values


def make_value(rng, kind, default):
    """Plain python description of a value; messages are (count, label) pairs."""
    if kind == "int32":
        return 0 if default else rng.choice([1, -1, 7, 2**31 - 1, -(2**31)])
    if kind == "sint64":
        return 0 if default else rng.choice([1, -1, 2**63 - 1, -(2**63), 300])
    if kind == "string":
        return "" if default else rng.choice(["x", "hello", "éè"])
    if kind == "bytes":
        return b"" if default else rng.choice([b"\x00", b"abc", b"\xff\xfe"])
    if kind == "bool":
        return not default
    if kind == "double":
        return 0.0 if default else rng.choice([1.5, -2.25, 1e300])
    if kind == "enum":
        return 0 if default else rng.choice([1, 2])
    if kind == "message":
        return (0, "") if default else rng.choice([(3, ""), (0, "in"), (-1, "z")])
    raise AssertionError(kind)


def to_bp(kind, value):
    if kind == "enum":
        return Kind(value)
    if kind == "message":
        count, label = value
        kwargs = {}
        if count:
            kwargs["count"] = count
        if label:
            kwargs["label"] = label
        return Inner(**kwargs)
    return value


def plain(kind, value):
    """Inverse of to_bp, for comparing what the message holds with the model."""
    if kind == "enum":
        return int(value)
    if kind == "message":
        return (value.count, value.label)
    return value


def to_json_value(kind, value):
    if kind == "sint64":
        return str(value)
    if kind == "bytes":
        return base64.b64encode(value).decode("ascii")
    if kind == "enum":
        return Kind(value).name
    if kind == "message":
        out = {}
        if value[0]:
            out["count"] = value[0]
        if value[1]:
            out["label"] = value[1]
        return out
    return value


# ------------------------------------------------------------------ independent wire


def enc_varint(value):
    value &= (1 << 64) - 1
    out = bytearray()
    while True:
        bits = value & 0x7F
        value >>= 7
        if value:
            out.append(bits | 0x80)
        else:
            out.append(bits)
            return bytes(out)


def enc_len(number, payload):
    return enc_varint((number << 3) | 2) + enc_varint(len(payload)) + payload


def enc_member(name, value):
    number, kind = MEMBERS[name]
    if kind in ("int32", "enum", "bool"):
        return enc_varint(number << 3) + enc_varint(int(value))
    if kind == "sint64":
        return enc_varint(number << 3) + enc_varint((value << 1) ^ (value >> 63))
    if kind == "string":
        return enc_len(number, value.encode("utf-8"))
    if kind == "bytes":
        return enc_len(number, value)
    if kind == "double":
        return enc_varint((number << 3) | 1) + struct.pack("<d", value)
    if kind == "message":
        payload = b""
        if value[0]:
            payload += enc_varint(1 << 3) + enc_varint(value[0])
        if value[1]:
            payload += enc_len(2, value[1].encode("utf-8"))
        return enc_len(number, payload)
    raise AssertionError(kind)


# --------------------------------------------------------------------------- checks

TRANSCRIPT = hashlib.sha256()


def record(*parts):
    TRANSCRIPT.update(repr(parts).encode("utf-8"))
    TRANSCRIPT.update(b"\n")


def check(message, state, trail):
    meta = message._betterproto.meta_by_field_name
    oracle = state.to_oracle()

    for group, names in GROUPS.items():
        entry = state.selected[group]
        chosen = entry[0] if entry else None
        where = f"group {group!r}, expected {entry!r}, after {trail}"

        got_name, got_value = which_one_of(message, group)
        assert got_name == (chosen or ""), (got_name, where)
        assert got_name == (oracle.WhichOneof(group) or ""), where
        if chosen is None:
            assert got_value is None, where
        else:
            kind = MEMBERS[chosen][1]
            assert plain(kind, got_value) == entry[1], (got_value, where)
            assert type(got_value) is type(to_bp(kind, entry[1])), where
            assert got_value is getattr(message, chosen), where

        for name in names:
            selected_now = name == chosen
            # the private predicate itself, keyword and positional form
            assert (
                message._include_default_value_for_oneof(
                    field_name=name, meta=meta[name]
                )
                is selected_now
            ), where
            assert (
                message._include_default_value_for_oneof(name, meta[name])
                is selected_now
            ), where
            assert message.is_set(name) is selected_now, (name, where)
            if selected_now:
                continue
            try:
                getattr(message, name)
            except AttributeError as error:
                assert str(error) == f"{group!r} is set to {chosen!r}, not {name!r}"
            else:
                raise AssertionError(f"reading {name!r} did not raise: {where}")

    for name in ("plain_id", "plain_name"):
        assert (
            message._include_default_value_for_oneof(field_name=name, meta=meta[name])
            is False
        )
    # a proto3 optional field: presence without a oneof group
    assert message.maybe == state.maybe, trail
    assert message.is_set("maybe") is (state.maybe is not None), trail
    assert message.plain_id == state.plain_id and message.plain_name == state.plain_name

    encoded = bytes(message)
    assert encoded == oracle.SerializeToString(deterministic=True), (
        encoded,
        oracle.SerializeToString(),
        trail,
    )
    assert len(message) == len(encoded), trail
    assert message.SerializeToString() == encoded

    as_dict = message.to_dict()
    assert as_dict == json_format.MessageToDict(oracle), (
        as_dict,
        json_format.MessageToDict(oracle),
        trail,
    )
    assert json.loads(message.to_json()) == as_dict
    snake = message.to_dict(casing=Casing.SNAKE)
    assert snake == json_format.MessageToDict(oracle, preserving_proto_field_name=True)
    pydict = message.to_pydict()
    assert set(pydict) == set(as_dict), trail
    for group, entry in state.selected.items():
        if entry is not None:
            name, value = entry
            kind = MEMBERS[name][1]
            got = pydict[json_key(name)]
            if kind == "message":
                assert got == to_json_value(kind, value) or got == {
                    key: raw
                    for key, raw in (("count", value[0]), ("label", value[1]))
                    if raw
                }, trail
            else:
                assert got == to_bp(kind, value), trail

    record(
        "state",
        [which_one_of(message, group)[0] for group in GROUPS],
        [which_one_of(message, "_maybe"), which_one_of(message, "no_such_group")],
        encoded,
        sorted(as_dict.items(), key=lambda item: item[0]),
        json.dumps(message.to_dict(include_default_values=True), sort_keys=True),
        json.dumps(message.to_dict(Casing.SNAKE, True), sort_keys=True),
        sorted(message.to_pydict(include_default_values=True)),
        [message.is_set(name) for name in ALL_FIELDS],
        betterproto.serialized_on_wire(message),
    )


# ------------------------------------------------------------------------ histories


def pick_members(rng):
    picked = {}
    for group, names in GROUPS.items():
        if rng.random() < 0.6:
            name = rng.choice(names)
            picked[name] = make_value(rng, MEMBERS[name][1], rng.random() < 0.5)
    return picked


def apply_picked(state, picked):
    for name, value in picked.items():
        state.selected[GROUP_OF[name]] = (name, value)


OPS = [
    "construct", "set", "set", "set", "set_default", "set_default", "plain", "maybe",
    "parse", "parse_fresh", "from_dict_cls", "from_dict_inst", "from_json", "copy",
    "deepcopy", "pickle", "oracle_bytes",
]


def run_history(rng, length):
    message = Outer()
    state = State()
    trail = ["Outer()"]
    check(message, state, trail)

    for _ in range(length):
        op = rng.choice(OPS)
        if op == "construct":
            picked = pick_members(rng)
            kwargs = {
                name: to_bp(MEMBERS[name][1], value) for name, value in picked.items()
            }
            state = State()
            if rng.random() < 0.5:
                kwargs["plain_id"] = state.plain_id = rng.choice([0, 5])
            if rng.random() < 0.3:
                kwargs["maybe"] = state.maybe = rng.choice([0, 4])
            message = Outer(**kwargs)
            apply_picked(state, picked)
            trail.append(f"Outer(**{kwargs!r})")
        elif op in ("set", "set_default"):
            name = rng.choice(list(MEMBERS))
            value = make_value(rng, MEMBERS[name][1], op == "set_default")
            setattr(message, name, to_bp(MEMBERS[name][1], value))
            state.selected[GROUP_OF[name]] = (name, value)
            trail.append(f"m.{name} = {value!r}")
        elif op == "plain":
            if rng.random() < 0.5:
                message.plain_id = state.plain_id = rng.choice([0, 1, -4])
            else:
                message.plain_name = state.plain_name = rng.choice(["", "n"])
            trail.append("set plain field")
        elif op == "maybe":
            message.maybe = state.maybe = rng.choice([None, 0, 12])
            trail.append(f"m.maybe = {state.maybe!r}")
        elif op in ("parse", "parse_fresh"):
            if op == "parse_fresh":
                message, state = Outer(), State()
            data = b""
            shown = []
            for _ in range(rng.randrange(0, 5)):
                if rng.random() < 0.15:
                    state.plain_id = rng.choice([0, 9])
                    data += enc_varint(1 << 3) + enc_varint(state.plain_id)
                    continue
                name = rng.choice(list(MEMBERS))
                value = make_value(rng, MEMBERS[name][1], rng.random() < 0.5)
                data += enc_member(name, value)
                state.selected[GROUP_OF[name]] = (name, value)
                shown.append(name)
            assert message.parse(data) is message
            trail.append(f"{op}({shown})")
        elif op == "oracle_bytes":
            # decode what google.protobuf encodes for the same state
            message = Outer.FromString(state.to_oracle().SerializeToString())
            trail.append("FromString(oracle bytes)")
        elif op in ("from_dict_cls", "from_dict_inst", "from_json"):
            picked = pick_members(rng)
            document = {
                json_key(name): to_json_value(MEMBERS[name][1], value)
                for name, value in picked.items()
            }
            if rng.random() < 0.3:
                document["plainName"] = "pn"
            if op == "from_dict_cls":
                message, state = Outer.from_dict(document), State()
            elif op == "from_dict_inst":
                assert message.from_dict(document) is message
            else:
                assert message.from_json(json.dumps(document)) is message
            if "plainName" in document:
                state.plain_name = "pn"
            apply_picked(state, picked)
            trail.append(f"{op}({document!r})")
        elif op in ("copy", "deepcopy"):
            original, original_state = message, state.clone()
            message = copy.copy(message) if op == "copy" else copy.deepcopy(message)
            check(message, state, trail + [op])
            # the copy lives on; the original must not follow what happens to it
            name = rng.choice(list(MEMBERS))
            value = make_value(rng, MEMBERS[name][1], rng.random() < 0.5)
            setattr(message, name, to_bp(MEMBERS[name][1], value))
            state.selected[GROUP_OF[name]] = (name, value)
            check(original, original_state, trail + [op, "mutated the copy"])
            trail.append(f"{op}; m.{name} = {value!r}")
        elif op == "pickle":
            message = pickle.loads(pickle.dumps(message))
            trail.append("pickle")
        check(message, state, trail)


# ---------------------------------------------------------------------- extra cases


@dataclass(eq=False, repr=False)
class Stamps(betterproto.Message):
    """Well-known message members, and members declared the pydantic way."""

    when: datetime = betterproto.message_field(1, group="moment")
    span: timedelta = betterproto.message_field(2, group="moment")
    wrapped: Optional[int] = betterproto.message_field(
        3, wraps=betterproto.TYPE_INT32, group="moment"
    )
    opt_a: Optional[int] = betterproto.int32_field(4, optional=True, group="pyd")
    opt_b: Optional[str] = betterproto.string_field(5, optional=True, group="pyd")
    lonely: int = betterproto.int32_field(6, group="single")


def extra_cases():
    zero = datetime(1970, 1, 1, tzinfo=timezone.utc)

    m = Stamps()
    for group in ("moment", "pyd", "single", "nope", "", None, "_maybe", 0, ("a",)):
        assert which_one_of(m, group) == ("", None), group
    for bad in ([], {}, [1]):
        try:
            which_one_of(m, bad)
        except TypeError:
            pass
        else:
            raise AssertionError("unhashable group name must raise TypeError")
    assert bytes(m) == b"" and m.to_dict() == {}
    assert [m.is_set(f) for f in m._betterproto.meta_by_field_name] == [False] * 6

    m.when = zero
    assert which_one_of(m, "moment") == ("when", zero)
    assert bytes(m) == b"\x0a\x00" and m.to_dict() == {"when": "1970-01-01T00:00:00Z"}
    assert m.to_pydict() == {"when": zero}
    assert m.is_set("when") and not m.is_set("span") and not m.is_set("wrapped")

    m.span = timedelta(0)
    assert which_one_of(m, "moment") == ("span", timedelta(0))
    assert bytes(m) == b"\x12\x00" and m.to_dict() == {"span": "0.000s"}
    assert m.to_pydict() == {"span": timedelta(0)}
    assert not m.is_set("when") and m.is_set("span")

    m.wrapped = 0
    assert which_one_of(m, "moment") == ("wrapped", 0)
    assert bytes(m) == b"\x1a\x00", bytes(m)
    assert m.to_dict() == {"wrapped": 0} and m.is_set("wrapped")
    back = Stamps().parse(bytes(m))
    assert which_one_of(back, "moment") == ("wrapped", 0)

    m.opt_a = 0
    assert which_one_of(m, "pyd") == ("opt_a", 0) and m.is_set("opt_a")
    assert bytes(m) == b"\x1a\x00\x20\x00"
    assert m.to_dict() == {"wrapped": 0, "optA": 0}
    m.opt_b = ""
    assert which_one_of(m, "pyd") == ("opt_b", "")
    assert not m.is_set("opt_a") and m.is_set("opt_b")
    assert bytes(m) == b"\x1a\x00\x2a\x00"
    assert m.to_dict() == {"wrapped": 0, "optB": ""}
    try:
        m.opt_a
    except AttributeError as error:
        assert str(error) == "'pyd' is set to 'opt_b', not 'opt_a'"
    else:
        raise AssertionError("opt_a must be unreadable")
    m.opt_b = None  # assigning None still selects, but None is never "set"
    assert which_one_of(m, "pyd") == ("opt_b", None) and not m.is_set("opt_b")
    assert bytes(m) == b"\x1a\x00"

    m.lonely = 0
    assert which_one_of(m, "single") == ("lonely", 0) and m.is_set("lonely")
    assert bytes(m) == b"\x1a\x00\x30\x00"
    # (a selected optional member holding None is rendered as null - long-standing)
    assert m.to_dict() == {"wrapped": 0, "optB": None, "lonely": 0}
    assert m.to_pydict() == {"wrapped": 0, "optB": None, "lonely": 0}
    clone = copy.deepcopy(m)
    assert which_one_of(clone, "single") == ("lonely", 0)
    assert which_one_of(clone, "moment") == ("wrapped", 0)
    assert which_one_of(clone, "pyd") == ("", None)  # None is "not passed" to a constructor

    # the selected member of a nested message
    holder = Outer(inner_choice=Inner())
    assert which_one_of(holder, "first_group")[0] == "inner_choice"
    holder.inner_choice.count = 2
    assert which_one_of(holder, "first_group") == ("inner_choice", Inner(count=2))
    assert bytes(holder) == b"\x2a\x02\x08\x02"
    record("extra", bytes(m), sorted(m.to_dict().items()), repr(m))


def main():
    rng = random.Random(71107)
    count = 0
    for _ in range(300):
        length = rng.randrange(1, 16)
        run_history(rng, length)
        count += length
    extra_cases()
    digest = TRANSCRIPT.hexdigest()
    if "--print-digest" in sys.argv:
        print(digest)
        return
    assert digest == GOLDEN, f"observable transcript changed: {digest}"
    print(f"C07 keep1 equiv: 300 histories / {count} operations, digest {digest[:16]} ok")


if __name__ == "__main__":
    main()
