"""C18 equivalence check for the enum side of the plugin: the member names chosen by
compile.naming.pythonize_enum_member_name and the entries (name / number / docstring)
that plugin.models.EnumDefinitionCompiler records for the template.

* pythonize_enum_member_name is compared with an independent reference implementation
  on a large grid of (member name, enum name) pairs,
* for schemas with every naming situation (real prefix, look-alike prefix, collisions
  after the prefix is dropped, keywords, digits, aliases, negative numbers, nested and
  cross-package enums, commented members) and all 3 x 2 option combinations the
  entries of every EnumDefinitionCompiler are compared with protoc's descriptors and
  a reference model, the rendered modules with pinned sha256 digests (taken from the
  reference tree), and the imported enum classes / messages with google.protobuf
  (numbers, bytes) and with the default configuration (bytes, JSON).

Run:  PYTHONPATH=<worktree>/src /venv/bin/python equiv.py          (--golden prints digests)
"""
import contextlib
import dataclasses
import hashlib
import importlib
import io
import itertools
import json
import keyword
import os
import shutil
import sys
import tempfile

if os.environ.get("PYTHONHASHSEED") != "0":
    # the trailing cross-package imports are rendered in set order: pin the string hash
    os.environ["PYTHONHASHSEED"] = "0"
    os.execv(sys.executable, [sys.executable] + sys.argv)

import grpc_tools
from google.protobuf import descriptor_pb2, descriptor_pool, message_factory
from grpc_tools import protoc as _protoc

import betterproto
from betterproto import casing
from betterproto.compile.naming import pythonize_enum_member_name
from betterproto.plugin import compiler as plugin_compiler

plugin_compiler.subprocess.check_output = lambda cmd, input, encoding: input

from betterproto.lib.google.protobuf import FileDescriptorSet  # noqa: E402
from betterproto.lib.google.protobuf.compiler import CodeGeneratorRequest  # noqa: E402
from betterproto.plugin import models, parser  # noqa: E402

models.monkey_patch_oneof_index()

PROTOS = {
    "lib/levels.proto": """
syntax = "proto3";
package lib;
// Severity of something.
enum Level {
  // nothing known
  LEVEL_UNSPECIFIED = 0;
  LEVEL_LOW = 1;   // trailing: low
  LEVEL_HIGH = 2;
}
""",
    "enums/legacy.proto": """
syntax = "proto2";
package enums;

// dropping the prefix would collide
enum Clash { option deprecated_legacy_json_field_conflicts = true; CLASH_A = 0; A = 1; CLASH_B = 2; }

// keyword collision: both become the same keyword
enum KwClash { option deprecated_legacy_json_field_conflicts = true; KW_CLASH_if = 0; if = 1; KW_CLASH_X = 2; }

// nothing is left behind the prefix
enum Und { option deprecated_legacy_json_field_conflicts = true; UND = 0; UND_ = 1; UND__ = 2; UND_X = 3; UNDUND = 4; }

enum KwNone { option deprecated_legacy_json_field_conflicts = true; KW_NONE_NONE = 0; None = 1; }

message Legacy {
  message Box {
    // three spellings of DONE
    enum State { option deprecated_legacy_json_field_conflicts = true; STATE_DONE = 0; DONE = 1; BOX_STATE_DONE = 2; LEGACY_BOX_STATE_DONE = 3; }
    enum Other { OTHER_DONE = 0; BOX_OTHER_DONE = 2; LEGACY_BOX_OTHER_FINE = 3; }
  }
  optional Clash clash = 1;
  repeated KwClash kw = 2;
  optional Und under = 3;
  optional Box.State state = 4;
  optional KwNone kn = 5;
  optional Box.Other other = 6;
}
""",
    "enums/all.proto": """
syntax = "proto3";
package enums;
import "lib/levels.proto";

// plain names
enum Plain { ZERO = 0; ONE = 1; TWO = 2; }

// every member carries the enum name
enum Color {
  COLOR_UNKNOWN = 0;
  // the red one
  COLOR_RED = 1;
  COLOR_GREEN = 2; // the "green" one
  /* a block
     comment */
  COLOR_BLUE = 3;
}

// the enum name occurs inside names but not as a prefix
enum E { ZERO_E = 0; E_ONE = 1; THREE = 3; }

// only some members have the prefix
enum Mixed { MIXED_NONE = 0; OTHER = 1; MIXED_MIXED_TWICE = 2; MIXED = 3; MIXED__PADDED_ = 4; }

// keywords and non-identifiers after the prefix is gone
enum Kw { KW_NONE = 0; KW_class = 2; True = 3; KW_1ST = 4; KW_import = 5; lambda = 6; }

enum CamelCaseName { CAMEL_CASE_NAME_FIRST = 0; CAMELCASENAME_SECOND = 1; CamelCaseName_THIRD = 2; CAMEL_CASE_NAME_4 = 4; }

enum HTTPCode { HTTP_CODE_OK = 0; HTTPCODE_NOT_FOUND = 1; HTTP_CODE_ = 2; }

enum Aliased {
  option allow_alias = true;
  ALIASED_ZERO = 0;
  ALIASED_NULL = 0;
  ALIASED_ONE = 1;
  ALIASED_UNO = 1;
}

enum Signed { SIGNED_ZERO = 0; SIGNED_MINUS = -1; SIGNED_MIN = -2147483648; SIGNED_MAX = 2147483647; }

enum lower_name { lower_name_a = 0; LOWER_NAME_B = 1; Lower_Name_C = 2; }

enum Single { SINGLE = 0; }

message Holder {
  // nested: the flattened class is HolderState
  enum State { STATE_IDLE = 0; HOLDER_STATE_BUSY = 1; STATE_DONE = 2; }
  message Deep {
    enum Mode { MODE_OFF = 0; MODE_ON = 1; }
    Mode mode = 1;
  }
  State state = 1;
  repeated Color colors = 2;
  map<string, Kw> kws = 3;
  optional Plain clash = 4;
  oneof pick { Mixed mixed = 5; lib.Level level = 6; }
  Deep deep = 7;
  Signed number = 8;
  repeated Signed numbers = 9;
  Aliased aliased = 10;
  E e = 11;
  CamelCaseName camel = 13;
  HTTPCode http = 14;
  lower_name lower = 15;
  Single single = 16;
  Plain plain = 17;
  map<int32, lib.Level> levels = 18;
}

service Enums {
  rpc Get(Holder) returns (Holder);
  rpc Watch(Holder) returns (stream Holder);
  rpc Push(stream Holder) returns (Holder);
  rpc Both(stream Holder) returns (stream Holder);
}
""",
}

CONFIGS = {
    "direct": "",
    "root": "typing.root",
    "310": "typing.310",
    "direct+pydantic": "pydantic_dataclasses",
    "root+pydantic": "typing.root,pydantic_dataclasses",
    "310+pydantic": "typing.310,pydantic_dataclasses",
}

GOLDEN = {
    # GOLDEN-BEGIN
    "direct:lib/__init__.py": "91bff8aa329ec5b53a64ffe383527c22835cc2b9ac79ce49148cefed39c30f46",
    "direct:enums/__init__.py": "22d786b597fbce29c8426e6361221f6aa8981dee68c193bb9d3f2d303001a488",
    "direct:__init__.py": "e3b0c44298fc1c149afbf4c8996fb92427ae41e4649b934ca495991b7852b855",
    "root:lib/__init__.py": "91bff8aa329ec5b53a64ffe383527c22835cc2b9ac79ce49148cefed39c30f46",
    "root:enums/__init__.py": "4313d3c1de47fc9e4309ff53ff03222e7e577dca4296067103e39764497ba278",
    "root:__init__.py": "e3b0c44298fc1c149afbf4c8996fb92427ae41e4649b934ca495991b7852b855",
    "310:lib/__init__.py": "91bff8aa329ec5b53a64ffe383527c22835cc2b9ac79ce49148cefed39c30f46",
    "310:enums/__init__.py": "a1cc313e399c98db6ce64160107b3bd764712982fe351bc250beb9b89d0a64a4",
    "310:__init__.py": "e3b0c44298fc1c149afbf4c8996fb92427ae41e4649b934ca495991b7852b855",
    "direct+pydantic:lib/__init__.py": "de228b343e0374c10e7e1f1fd244768fc94eed5edc02a84eae05e1ec80fd7818",
    "direct+pydantic:enums/__init__.py": "f7a8f9de4a6b4f9f0a805ac23497468d6deb32d1b74ce56c8daf74224710c192",
    "direct+pydantic:__init__.py": "e3b0c44298fc1c149afbf4c8996fb92427ae41e4649b934ca495991b7852b855",
    "root+pydantic:lib/__init__.py": "de228b343e0374c10e7e1f1fd244768fc94eed5edc02a84eae05e1ec80fd7818",
    "root+pydantic:enums/__init__.py": "6ccc57754e706442d50020aaab02c54b0502cf866b7db9e318e06434cbb80f1a",
    "root+pydantic:__init__.py": "e3b0c44298fc1c149afbf4c8996fb92427ae41e4649b934ca495991b7852b855",
    "310+pydantic:lib/__init__.py": "de228b343e0374c10e7e1f1fd244768fc94eed5edc02a84eae05e1ec80fd7818",
    "310+pydantic:enums/__init__.py": "b6f6dee8067dba5280438ba0d5d8a0cec187fe63c51e270993c39c356bc8c38c",
    "310+pydantic:__init__.py": "e3b0c44298fc1c149afbf4c8996fb92427ae41e4649b934ca495991b7852b855",
    # GOLDEN-END
}


# ------------------------------------------------------------------- reference model
def ref_member_name(name, enum_name):
    """what the docs promise: drop a real ENUM_NAME_ prefix if something is left"""
    prefix = casing.snake_case(enum_name).upper() + "_"
    candidate = name
    if name[: len(prefix)] == prefix:
        rest = name[len(prefix):]
        while rest[:1] == "_":
            rest = rest[1:]
        while rest[-1:] == "_":
            rest = rest[:-1]
        if rest != "":
            candidate = rest
    if keyword.iskeyword(candidate):
        return candidate + "_"
    if not candidate.isidentifier():
        return "_" + candidate
    return candidate


def ref_entries(enum_name, proto_names):
    names = [ref_member_name(n, enum_name) for n in proto_names]
    if len(set(names)) < len(names):
        names = [casing.sanitize_name(n) for n in proto_names]
    return names


def check_member_names():
    enum_names = [
        "E", "Color", "_Color", "_Holder_State", "HTTPCode", "CamelCaseName", "lower_name",
        "X1", "A_B", "__", "", "Kw", "_Kw", "ABC", "aBc", "Enum2Name", "_", "E_",
    ]
    stems = [
        "", "A", "a", "ZERO", "RO", "None", "class", "1", "1ST", "_", "__", "_A", "A_", "_A_",
        "if", "X_Y", "E", "E_", "E_E", "COLOR", "COLOR_", "RED", "é", "a-b", "a b", "True",
    ]
    count = 0
    for enum_name in enum_names:
        prefix = casing.snake_case(enum_name).upper()
        variants = {
            prefix, prefix + "_", prefix + "__", prefix.lower() + "_", "_" + prefix + "_",
            prefix[:-1] + "_" if prefix else "_", prefix + prefix + "_", enum_name + "_",
            enum_name.upper() + "_",
        }
        for stem in stems:
            for lead in sorted(variants | {""}):
                for name in (lead + stem, stem + lead, lead + stem + "_", lead + "_" + stem):
                    got = pythonize_enum_member_name(name, enum_name)
                    assert got == ref_member_name(name, enum_name), (name, enum_name, got)
                    assert isinstance(got, str)
                    count += 1
    assert count > 10000, count
    # a few spelled out
    for (name, enum_name), expected in {
        ("COLOR_RED", "Color"): "RED",
        ("COLOR_RED", "_Color"): "RED",
        ("ZERO", "E"): "ZERO",
        ("E_ONE", "E"): "ONE",
        ("E_", "E"): "E_",
        ("E__", "E"): "E__",
        ("KW_class", "Kw"): "class_",
        ("KW_1ST", "Kw"): "_1ST",
        ("None", "Kw"): "None_",
        ("HOLDER_STATE_BUSY", "_Holder_State"): "BUSY",
        ("STATE_IDLE", "_Holder_State"): "STATE_IDLE",
        ("MIXED__PADDED_", "Mixed"): "PADDED",
        ("HTTP_CODE_OK", "HTTPCode"): "OK",
        ("CAMEL_CASE_NAME_4", "CamelCaseName"): "_4",
    }.items():
        assert pythonize_enum_member_name(name, enum_name) == expected, (name, enum_name)


# ------------------------------------------------------------------------- plumbing
def descriptor_set(protos):
    d = tempfile.mkdtemp(prefix="c18p_")
    try:
        for name, text in protos.items():
            p = os.path.join(d, name)
            os.makedirs(os.path.dirname(p), exist_ok=True)
            with open(p, "w") as f:
                f.write(text)
        out = os.path.join(d, "set.bin")
        inc = os.path.join(os.path.dirname(grpc_tools.__file__), "_proto")
        # protoc warns (on the C level stderr) about the look-alike member names
        sys.stderr.flush()
        saved = os.dup(2)
        with open(os.devnull, "w") as devnull:
            os.dup2(devnull.fileno(), 2)
            try:
                rc = _protoc.main(
                    ["protoc", f"-I{d}", f"-I{inc}", f"--descriptor_set_out={out}",
                     "--include_imports", "--include_source_info", *protos]
                )
            finally:
                os.dup2(saved, 2)
                os.close(saved)
        assert rc == 0, "protoc failed"
        with open(out, "rb") as f:
            return f.read()
    finally:
        shutil.rmtree(d)


DESCRIPTORS = descriptor_set(PROTOS)
ROOT = tempfile.mkdtemp(prefix="c18gen_")
sys.path.insert(0, ROOT)
_counter = itertools.count()

G_SET = descriptor_pb2.FileDescriptorSet.FromString(DESCRIPTORS)
G_POOL = descriptor_pool.DescriptorPool()
for _f in G_SET.file:
    G_POOL.Add(_f)


def run_plugin(parameter):
    captured = []
    original = parser.outputfile_compiler

    def capture(output_file):
        captured.append(output_file)
        return original(output_file=output_file)

    parser.outputfile_compiler = capture
    try:
        request = CodeGeneratorRequest(
            file_to_generate=list(PROTOS),
            parameter=parameter,
            proto_file=FileDescriptorSet().parse(DESCRIPTORS).file,
        )
        with contextlib.redirect_stderr(io.StringIO()):
            response = parser.generate_code(request)
    finally:
        parser.outputfile_compiler = original
    return {f.name: f.content for f in response.file}, captured


def write_and_import(files):
    top = f"c18v{next(_counter)}"
    for name, content in files.items():
        p = os.path.join(ROOT, top, name)
        os.makedirs(os.path.dirname(p), exist_ok=True)
        with open(p, "w") as fh:
            fh.write(content)
    importlib.invalidate_caches()
    return lambda pkg: importlib.import_module(f"{top}.{pkg}")


def g_enums():
    """{(package, flattened python class name): google EnumDescriptor}"""
    found = {}

    def walk(package, prefix, container):
        for enum in getattr(container, "enum_types", None) or container.enum_types_by_name.values():
            found[(package, prefix + enum.name)] = enum
        nested = getattr(container, "nested_types", None)
        if nested is None:
            nested = container.message_types_by_name.values()
        for message in nested:
            walk(package, prefix + message.name + "_", message)

    for file in G_SET.file:
        fd = G_POOL.FindFileByName(file.name)
        walk(fd.package, "", fd)
    return found


COMMENTS = {
    # (class, member) -> text that has to show up in the member's docstring
    ("Level", "UNSPECIFIED"): "nothing known",
    ("Level", "LOW"): "trailing: low",
    ("Color", "RED"): "the red one",
    ("Color", "GREEN"): 'the "green" one',
    ("Color", "BLUE"): "a block",
}


def check_enum_compilers(outputs):
    """entries of every EnumDefinitionCompiler: protoc's numbers, reference names"""
    oracle = g_enums()
    seen = 0
    for output in outputs:
        for enum in output.enums:
            g_enum = oracle.pop((output.package, enum.proto_obj.name.lstrip("_")))
            seen += 1
            assert [e.value for e in enum.entries] == [v.number for v in g_enum.values]
            names = [e.name for e in enum.entries]
            assert names == ref_entries(
                enum.proto_obj.name, [v.name for v in g_enum.values]
            ), names
            assert len(set(names)) == len(names)
            assert all(n.isidentifier() and not keyword.iskeyword(n) for n in names), names
            for entry in enum.entries:
                assert type(entry) is models.EnumDefinitionCompiler.EnumEntry
                assert type(entry.name) is str and type(entry.value) is int
                expected = COMMENTS.get((enum.py_name, entry.name))
                if expected is not None:
                    assert expected in entry.comment, (enum.py_name, entry.name, entry.comment)
                else:
                    assert not entry.comment.strip().strip('"').strip(), entry.comment
            # every entry stands alone (the dataclass is mutable and hashable by value)
            assert len({id(e) for e in enum.entries}) == len(enum.entries)
            assert enum in output.enums and enum not in output.messages
            assert enum.deprecated is False and enum.fields == []
    assert not oracle, oracle
    assert seen == 20, seen


EXPECTED_MEMBERS = {
    "Plain": {"ZERO": 0, "ONE": 1, "TWO": 2},
    "Color": {"UNKNOWN": 0, "RED": 1, "GREEN": 2, "BLUE": 3},
    "E": {"ZERO_E": 0, "ONE": 1, "THREE": 3},
    "Und": {"UND": 0, "UND_": 1, "UND__": 2, "X": 3, "UNDUND": 4},
    "KwNone": {"NONE": 0, "None_": 1},
    "LegacyBoxState": {"STATE_DONE": 0, "DONE": 1, "BOX_STATE_DONE": 2, "LEGACY_BOX_STATE_DONE": 3},
    "LegacyBoxOther": {"OTHER_DONE": 0, "BOX_OTHER_DONE": 2, "FINE": 3},
    "Clash": {"CLASH_A": 0, "A": 1, "CLASH_B": 2},
    "Mixed": {"NONE": 0, "OTHER": 1, "MIXED_TWICE": 2, "MIXED": 3, "PADDED": 4},
    "Kw": {"NONE": 0, "class_": 2, "True_": 3, "_1ST": 4, "import_": 5, "lambda_": 6},
    "KwClash": {"KW_CLASH_if": 0, "if_": 1, "KW_CLASH_X": 2},
    "Signed": {"ZERO": 0, "MINUS": -1, "MIN": -2147483648, "MAX": 2147483647},
    "Single": {"SINGLE": 0},
    "HolderState": {"STATE_IDLE": 0, "BUSY": 1, "STATE_DONE": 2},
    "HolderDeepMode": {"MODE_OFF": 0, "MODE_ON": 1},
}


def shape(module):
    out = {}
    for name in module.__all__:
        obj = getattr(module, name)
        if isinstance(obj, type) and issubclass(obj, betterproto.Message):
            out[name] = {
                f.name: (m.number, m.proto_type, m.map_types, m.group, m.wraps)
                for f in dataclasses.fields(obj)
                for m in [betterproto.FieldMetadata.get(f)]
            }
        elif isinstance(obj, type) and issubclass(obj, betterproto.Enum):
            out[name] = [(member.name, member.value) for member in obj]
        else:
            out[name] = "service"
    return out


def samples(enums, lib):
    H = enums.Holder
    yield H()
    yield H(
        state=enums.HolderState.BUSY,
        colors=[enums.Color.BLUE, enums.Color.UNKNOWN, enums.Color.RED],
        kws={"a": enums.Kw.class_, "b": enums.Kw.NONE, "c": enums.Kw.lambda_},
        clash=enums.Plain.ZERO,
        mixed=enums.Mixed.PADDED,
        deep=enums.HolderDeep(mode=enums.HolderDeepMode.MODE_ON),
        number=enums.Signed.MIN,
        numbers=[enums.Signed.MINUS, enums.Signed.MAX, enums.Signed.ZERO],
        aliased=enums.Aliased(1),
        e=enums.E.THREE,
        camel=enums.CamelCaseName(4),
        http=enums.HttpCode(2),
        lower=enums.LowerName(2),
        single=enums.Single.SINGLE,
        plain=enums.Plain.TWO,
        levels={1: lib.Level.HIGH, 0: lib.Level.UNSPECIFIED},
    )
    yield H(level=lib.Level.LOW, clash=enums.Plain.ONE, state=enums.HolderState.STATE_DONE)
    yield H(mixed=enums.Mixed.NONE, clash=enums.Plain.TWO, e=enums.E.ZERO_E)
    for cls, attr in [
        (enums.Color, "colors"), (enums.Signed, "numbers"),
    ]:
        yield H(**{attr: list(cls)})
    for member in enums.Kw:
        yield H(kws={member.name: member})
    for member in enums.HolderState:
        yield H(state=member)


def legacy_samples(enums):
    L = enums.Legacy
    yield L()
    yield L(clash=enums.Clash.A, kw=[enums.KwClash.if_, enums.KwClash.KW_CLASH_if],
            under=enums.Und.UND__, state=enums.LegacyBoxState.LEGACY_BOX_STATE_DONE,
            kn=enums.KwNone.None_, other=enums.LegacyBoxOther.FINE)
    for member in enums.Clash:
        yield L(clash=member)
    for member in enums.Und:
        yield L(under=member, kw=list(enums.KwClash))
    for member in enums.LegacyBoxState:
        yield L(state=member)


def check_modules(get, config, reference):
    enums, lib = get("enums"), get("lib")
    oracle = g_enums()
    for (package, flat), g_enum in oracle.items():
        module = enums if package == "enums" else lib
        cls = getattr(module, casing.pascal_case(flat))
        assert issubclass(cls, betterproto.Enum)
        # numbers in declaration order (betterproto enums iterate over aliases too)
        numbers = [value.number for value in g_enum.values]
        assert [cls.__members__[name].value for name in cls.__members__] == numbers, flat
        assert set(cls.__members__) == set(
            ref_entries("_" + flat, [v.name for v in g_enum.values])
        )
        for value in g_enum.values:
            assert cls(value.number).value == value.number
    for name, members in EXPECTED_MEMBERS.items():
        cls = getattr(enums, name)
        assert {m.name: m.value for m in cls} == members, (name, list(cls))
    assert dict(enums.Aliased.__members__.items()).keys() == {"ZERO", "NULL", "ONE", "UNO"}
    assert enums.Aliased.NULL is enums.Aliased.ZERO and enums.Aliased.UNO.value == 1
    assert "the red one" in enums.__loader__.get_source(enums.__name__)
    hints = enums.Holder._type_hints()
    assert hints["state"] is enums.HolderState and hints["colors"].__args__ == (enums.Color,)
    assert hints["kws"].__args__ == (str, enums.Kw)
    assert hints["levels"].__args__ == (int, lib.Level)
    assert len(enums.EnumsBase().__mapping__()) == 4

    g_holder = message_factory.GetMessageClass(G_POOL.FindMessageTypeByName("enums.Holder"))
    shapes = {"enums": shape(enums), "lib": shape(lib)}
    encoded = []
    for index, message in enumerate(samples(enums, lib)):
        data, text = bytes(message), message.to_json()
        encoded.append((data, text))
        g_message = g_holder.FromString(data)
        for field in ("state", "number", "aliased", "e", "camel", "http",
                      "lower", "single", "plain"):
            assert getattr(g_message, field) == int(getattr(message, field)), (index, field)
        assert list(g_message.colors) == [int(c) for c in message.colors]
        assert list(g_message.numbers) == [int(c) for c in message.numbers]
        assert dict(g_message.kws) == {k: int(v) for k, v in message.kws.items()}
        assert dict(g_message.levels) == {k: int(v) for k, v in message.levels.items()}
        assert g_message.deep.mode == int(message.deep.mode)
        back = type(message)().parse(g_message.SerializeToString())
        assert back == message, (config, index, back, message)
        assert json.loads(back.to_json()) == json.loads(text), (config, index)
        assert type(message)().from_json(text) == message, (config, index)
    g_legacy = message_factory.GetMessageClass(G_POOL.FindMessageTypeByName("enums.Legacy"))
    for index, message in enumerate(legacy_samples(enums)):
        data, text = bytes(message), message.to_json()
        encoded.append((data, text))
        g_message = g_legacy.FromString(data)
        for field in ("clash", "under", "state", "kn", "other"):
            assert getattr(g_message, field) == int(getattr(message, field)), (index, field)
        assert list(g_message.kw) == [int(k) for k in message.kw]
        assert type(message)().from_json(text) == message, (config, index)
    assert len(encoded) == 29, len(encoded)
    if reference:
        assert shapes == reference["shapes"], f"[{config}] classes differ"
        assert encoded == reference["encoded"], f"[{config}] encodings differ"
    return {"shapes": shapes, "encoded": encoded}


def main():
    check_member_names()
    golden_out = {}
    reference = None
    for config, parameter in CONFIGS.items():
        files, outputs = run_plugin(parameter)
        assert sorted(files) == ["__init__.py", "enums/__init__.py", "lib/__init__.py"]
        assert "class Legacy(" in files["enums/__init__.py"]
        check_enum_compilers(outputs)
        for name, content in files.items():
            compile(content, name, "exec")
            golden_out[f"{config}:{name}"] = hashlib.sha256(content.encode()).hexdigest()
        result = check_modules(write_and_import(files), config, reference)
        reference = reference or result
        print(f"ok: {config}")
    if "--golden" in sys.argv:
        for key, value in golden_out.items():
            print(f'    "{key}": "{value}",')
        return
    assert golden_out == GOLDEN, {
        k: v for k, v in golden_out.items() if GOLDEN.get(k) != v
    }
    print("all checks passed")


if __name__ == "__main__":
    try:
        main()
    finally:
        shutil.rmtree(ROOT, ignore_errors=True)
