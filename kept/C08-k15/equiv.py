"""Behaviour that must hold before and after the refactor of the known/unknown
classification in Message.load (tag table in ProtoClassMetadata).

1. classification matrix: for every proto type (singular and repeated) and every
   wire type, a field arriving with that (number, wire type) is decoded iff the
   wire type fits the declared type (or is a packed run of a repeated scalar);
   otherwise it is kept verbatim as an unknown field.
2. schema evolution: random values of a wide `Newer` schema are written by
   google.protobuf, passed through betterproto readers/writers whose schema has a
   random subset of fields deleted (also inside the nested message), and must come
   back byte-for-byte / equal for both betterproto's and google's Newer.
3. raw unknown fields of all wire types interleaved at every position.
"""
import dataclasses
import random
import struct
from dataclasses import dataclass
from io import BytesIO
from typing import Dict, List

import betterproto
from google.protobuf import descriptor_pb2, descriptor_pool, message_factory

rnd = random.Random(808)

B = betterproto


def varint(v: int) -> bytes:
    out = bytearray()
    while True:
        b = v & 0x7F
        v >>= 7
        if v:
            out.append(b | 0x80)
        else:
            out.append(b)
            return bytes(out)


def tag(number: int, wt: int) -> bytes:
    return varint((number << 3) | wt)


class Color(betterproto.Enum):
    ZERO = 0
    ONE = 1
    TWO = 2


def make(name, specs, namespace=None):
    """specs: list of (field_name, python type, betterproto field)"""
    return dataclasses.make_dataclass(
        name, specs, bases=(betterproto.Message,), eq=False, repr=False
    )


@dataclass(eq=False, repr=False)
class Tiny(betterproto.Message):
    x: int = betterproto.int32_field(1)


# --------------------------------------------------------------------------- 1
VARINT_T = [
    B.TYPE_ENUM,
    B.TYPE_BOOL,
    B.TYPE_INT32,
    B.TYPE_INT64,
    B.TYPE_UINT32,
    B.TYPE_UINT64,
    B.TYPE_SINT32,
    B.TYPE_SINT64,
]
F32_T = [B.TYPE_FLOAT, B.TYPE_FIXED32, B.TYPE_SFIXED32]
F64_T = [B.TYPE_DOUBLE, B.TYPE_FIXED64, B.TYPE_SFIXED64]
PY = {
    B.TYPE_ENUM: Color,
    B.TYPE_BOOL: bool,
    B.TYPE_FLOAT: float,
    B.TYPE_DOUBLE: float,
    B.TYPE_STRING: str,
    B.TYPE_BYTES: bytes,
    B.TYPE_MESSAGE: Tiny,
}
LEN_PAYLOAD = b"\x08\x01\x08\x01\x08\x01\x08\x01"
WIRE_SAMPLES = {
    0: varint(5),
    1: struct.pack("<d", 1.0),
    2: varint(len(LEN_PAYLOAD)) + LEN_PAYLOAD,
    5: struct.pack("<f", 1.0),
}

checked = 0
for number in (1, 15, 16, 2047, 2048, 536870911):
    for proto_type in VARINT_T + F32_T + F64_T + [
        B.TYPE_STRING,
        B.TYPE_BYTES,
        B.TYPE_MESSAGE,
        B.TYPE_MAP,
    ]:
        for repeated in (False, True):
            if proto_type == B.TYPE_MAP:
                if repeated:
                    continue
                py = Dict[str, int]
                fld = betterproto.map_field(number, B.TYPE_STRING, B.TYPE_INT32)
                expect = {2}
            else:
                base = PY.get(proto_type, int)
                py = List[base] if repeated else base
                fld = betterproto.dataclass_field(number, proto_type)
                if proto_type in VARINT_T:
                    expect = {0}
                elif proto_type in F32_T:
                    expect = {5}
                elif proto_type in F64_T:
                    expect = {1}
                else:
                    expect = {2}
                if repeated and proto_type not in (
                    B.TYPE_STRING,
                    B.TYPE_BYTES,
                    B.TYPE_MESSAGE,
                ):
                    expect = expect | {2}
            cls = make("M", [("f", py, fld)])
            default = cls().f
            for wt, sample in WIRE_SAMPLES.items():
                raw = tag(number, wt) + sample
                # alone, and between two fields with other, unknown numbers
                for data, others in (
                    (raw, b""),
                    (b"\x18\x07" + raw + b"\x22\x01z", b"\x18\x07\x22\x01z"),
                ):
                    m = cls().parse(data)
                    if wt in expect:
                        assert m._unknown_fields == others, (proto_type, repeated, wt)
                        assert m.f != default or proto_type == B.TYPE_MESSAGE, (
                            proto_type,
                            repeated,
                            wt,
                            m.f,
                        )
                        if proto_type == B.TYPE_MESSAGE and not repeated:
                            assert m.f.x == 1
                        # decoding what was re-encoded gives the same value
                        m2 = cls().parse(bytes(m))
                        assert m2.f == m.f and m2._unknown_fields == others
                    else:
                        # kept verbatim, in arrival order, value untouched
                        assert m.f == default, (proto_type, repeated, wt, m.f)
                        assert m._unknown_fields == data, (proto_type, repeated, wt)
                        assert bytes(m) == data
                    assert len(m) == len(bytes(m))
                    # size-bounded load sees the same thing
                    m3 = cls().load(BytesIO(data + b"\xff"), len(data))
                    assert bytes(m3) == bytes(m)
                    checked += 1
assert checked > 1000, checked


# two declarations of one number: the last one decides, for name and type alike
@dataclass(eq=False, repr=False)
class Dup(betterproto.Message):
    a: int = betterproto.int32_field(1)
    b: str = betterproto.string_field(1)


d = Dup().parse(b"\x08\x05\x0a\x02hi")
assert d.a == 0 and d.b == "hi" and d._unknown_fields == b"\x08\x05"
assert Dup._betterproto.field_name_by_number == {1: "b"}

# --------------------------------------------------------------------------- 2
# (number, name, betterproto type, python type, repeated, google type, kind)
FD = descriptor_pb2.FieldDescriptorProto
SPEC = [
    (1, "f_int32", B.TYPE_INT32, int, False, FD.TYPE_INT32),
    (2, "f_int64", B.TYPE_INT64, int, False, FD.TYPE_INT64),
    (3, "f_uint32", B.TYPE_UINT32, int, False, FD.TYPE_UINT32),
    (4, "f_uint64", B.TYPE_UINT64, int, False, FD.TYPE_UINT64),
    (5, "f_sint32", B.TYPE_SINT32, int, False, FD.TYPE_SINT32),
    (6, "f_sint64", B.TYPE_SINT64, int, False, FD.TYPE_SINT64),
    (7, "f_bool", B.TYPE_BOOL, bool, False, FD.TYPE_BOOL),
    (9, "f_fixed32", B.TYPE_FIXED32, int, False, FD.TYPE_FIXED32),
    (10, "f_sfixed32", B.TYPE_SFIXED32, int, False, FD.TYPE_SFIXED32),
    (11, "f_float", B.TYPE_FLOAT, float, False, FD.TYPE_FLOAT),
    (12, "f_fixed64", B.TYPE_FIXED64, int, False, FD.TYPE_FIXED64),
    (13, "f_sfixed64", B.TYPE_SFIXED64, int, False, FD.TYPE_SFIXED64),
    (14, "f_double", B.TYPE_DOUBLE, float, False, FD.TYPE_DOUBLE),
    (15, "f_string", B.TYPE_STRING, str, False, FD.TYPE_STRING),
    (16, "f_bytes", B.TYPE_BYTES, bytes, False, FD.TYPE_BYTES),
    (17, "f_sub", B.TYPE_MESSAGE, "Sub", False, FD.TYPE_MESSAGE),
    (18, "r_int32", B.TYPE_INT32, int, True, FD.TYPE_INT32),
    (19, "r_string", B.TYPE_STRING, str, True, FD.TYPE_STRING),
    (20, "r_sub", B.TYPE_MESSAGE, "Sub", True, FD.TYPE_MESSAGE),
    (22, "r_double", B.TYPE_DOUBLE, float, True, FD.TYPE_DOUBLE),
    (23, "r_sint64", B.TYPE_SINT64, int, True, FD.TYPE_SINT64),
    (24, "r_fixed32", B.TYPE_FIXED32, int, True, FD.TYPE_FIXED32),
    (100, "hi_string", B.TYPE_STRING, str, False, FD.TYPE_STRING),
    (5000, "hi_int32", B.TYPE_INT32, int, False, FD.TYPE_INT32),
    (536870911, "max_bool", B.TYPE_BOOL, bool, False, FD.TYPE_BOOL),
]
SUB_SPEC = [
    (1, "x", B.TYPE_INT32, int, False, FD.TYPE_INT32),
    (2, "s", B.TYPE_STRING, str, False, FD.TYPE_STRING),
    (3, "r", B.TYPE_INT32, int, True, FD.TYPE_INT32),
    (4, "d", B.TYPE_FIXED64, int, False, FD.TYPE_FIXED64),
]
MAP_NUMBER = 21  # map<string, int32> f_map


def bp_class(name, spec, sub_cls, with_map):
    fields = []
    for number, fname, ptype, py, rep, _ in spec:
        if py == "Sub":
            py = sub_cls
        fields.append(
            (
                fname,
                List[py] if rep else py,
                betterproto.dataclass_field(number, ptype),
            )
        )
    if with_map:
        fields.append(
            (
                "f_map",
                Dict[str, int],
                betterproto.map_field(MAP_NUMBER, B.TYPE_STRING, B.TYPE_INT32),
            )
        )
    return make(name, fields)


# google.protobuf version of the full schema
fdp = descriptor_pb2.FileDescriptorProto(
    name="c08_keep1.proto", package="c08k1", syntax="proto3"
)


def add_fields(msg, spec):
    for number, fname, _, py, rep, gtype in spec:
        f = msg.field.add(name=fname, number=number, type=gtype)
        f.label = FD.LABEL_REPEATED if rep else FD.LABEL_OPTIONAL
        if py == "Sub":
            f.type_name = ".c08k1.Sub"


add_fields(fdp.message_type.add(name="Sub"), SUB_SPEC)
newer_d = fdp.message_type.add(name="Newer")
add_fields(newer_d, SPEC)
entry = newer_d.nested_type.add(name="FMapEntry")
entry.options.map_entry = True
entry.field.add(name="key", number=1, type=FD.TYPE_STRING, label=FD.LABEL_OPTIONAL)
entry.field.add(name="value", number=2, type=FD.TYPE_INT32, label=FD.LABEL_OPTIONAL)
newer_d.field.add(
    name="f_map",
    number=MAP_NUMBER,
    type=FD.TYPE_MESSAGE,
    label=FD.LABEL_REPEATED,
    type_name=".c08k1.Newer.FMapEntry",
)
pool = descriptor_pool.DescriptorPool()
pool.Add(fdp)
GNewer = message_factory.GetMessageClass(pool.FindMessageTypeByName("c08k1.Newer"))

BSub = bp_class("Sub", SUB_SPEC, None, False)
BNewer = bp_class("Newer", SPEC, BSub, True)


def rnd_scalar(gtype):
    r = rnd.random()
    if gtype in (FD.TYPE_INT32, FD.TYPE_SINT32, FD.TYPE_SFIXED32):
        return rnd.choice([0, 1, -1, 127, 128, -(2**31), 2**31 - 1, rnd.randrange(-(2**31), 2**31)])
    if gtype in (FD.TYPE_INT64, FD.TYPE_SINT64, FD.TYPE_SFIXED64):
        return rnd.choice([0, 1, -1, -(2**63), 2**63 - 1, rnd.randrange(-(2**63), 2**63)])
    if gtype in (FD.TYPE_UINT32, FD.TYPE_FIXED32):
        return rnd.choice([0, 1, 2**32 - 1, rnd.randrange(2**32)])
    if gtype in (FD.TYPE_UINT64, FD.TYPE_FIXED64):
        return rnd.choice([0, 1, 2**64 - 1, rnd.randrange(2**64)])
    if gtype == FD.TYPE_BOOL:
        return r < 0.5
    if gtype == FD.TYPE_FLOAT:
        return rnd.choice([0.0, 1.0, -2.5, 0.5, 1024.0, float("inf")])
    if gtype == FD.TYPE_DOUBLE:
        return rnd.choice([0.0, 1.0, -2.5, 1e300, rnd.random()])
    if gtype == FD.TYPE_STRING:
        return rnd.choice(["", "a", "héllo", "x" * 130, "中文"])
    if gtype == FD.TYPE_BYTES:
        return rnd.choice([b"", b"\x00", b"\xff\xfe", bytes(range(200))])
    raise AssertionError(gtype)


def fill(gmsg, spec):
    for number, fname, _, py, rep, gtype in spec:
        if rnd.random() < 0.25:
            continue
        if py == "Sub":
            if rep:
                for _ in range(rnd.randrange(0, 4)):
                    fill(getattr(gmsg, fname).add(), SUB_SPEC)
            else:
                sub = getattr(gmsg, fname)
                sub.SetInParent()
                fill(sub, SUB_SPEC)
        elif rep:
            getattr(gmsg, fname).extend(
                rnd_scalar(gtype) for _ in range(rnd.randrange(0, 5))
            )
        else:
            setattr(gmsg, fname, rnd_scalar(gtype))


def subset(spec):
    mode = rnd.random()
    if mode < 0.1:
        return []
    if mode < 0.2:
        return list(spec)
    return [f for f in spec if rnd.random() < 0.5]


rounds = 0
for schema_no in range(60):
    older_sub = bp_class("Sub", subset(SUB_SPEC), None, False)
    older_spec = subset(SPEC)
    Older = bp_class("Older", older_spec, older_sub, rnd.random() < 0.5)
    for _ in range(8):
        g = GNewer()
        fill(g, SPEC)
        if rnd.random() < 0.7:
            for _ in range(rnd.randrange(0, 4)):
                g.f_map[rnd.choice(["", "k", "key2", "z" * 40])] = rnd_scalar(FD.TYPE_INT32)
        wire = g.SerializeToString()

        old = Older().parse(wire)
        again = bytes(old)
        assert len(old) == len(again)
        # google's view of the re-emitted bytes
        g2 = GNewer.FromString(again)
        assert g2 == g, (schema_no, g, g2)
        # betterproto's view
        assert BNewer().parse(again) == BNewer().parse(wire)
        assert bytes(BNewer().parse(again)) == bytes(BNewer().parse(wire))
        # a second hop through the same older schema changes nothing any more
        assert bytes(Older().parse(again)) == again
        # ... nor does a size-delimited hop
        buf = BytesIO()
        old.dump(buf, betterproto.SIZE_DELIMITED)
        old.dump(buf, betterproto.SIZE_DELIMITED)
        buf.seek(0)
        assert bytes(Older().load(buf, betterproto.SIZE_DELIMITED)) == again
        assert bytes(Older().load(buf, betterproto.SIZE_DELIMITED)) == again
        assert buf.read() == b""
        rounds += 1
assert rounds == 480

# --------------------------------------------------------------------------- 3
@dataclass(eq=False, repr=False)
class Known(betterproto.Message):
    foo: bool = betterproto.bool_field(1)
    name: str = betterproto.string_field(5)
    nums: List[int] = betterproto.int32_field(6)


known = [b"\x08\x01", b"\x2a\x01n", b"\x32\x02\x01\x02", b"\x32\x01\x03"]
unknown = [
    b"\x50\x07",
    b"\x50" + b"\xff" * 9 + b"\x01",
    b"\x5d\x01\x02\x03\x04",
    b"\x61" + bytes(range(8)),
    b"\x6a\x02hi",
    b"\x6a\x00",
    tag(536870911, 2) + varint(300) + b"q" * 300,
    b"\x28\x01",  # number 5 is known, but as a string: varint is kept as unknown
    b"\x35\x01\x02\x03\x04",  # number 6 is a repeated int32: fixed32 is kept
]
for trial in range(400):
    seq = [(k, True) for k in known] + [
        (u, False) for u in rnd.sample(unknown, rnd.randrange(len(unknown) + 1))
    ]
    # keep the known fields in order (nums chunks), shuffle the unknown ones in
    positions = sorted(rnd.sample(range(len(seq)), len(known)))
    unk = [s for s in seq if not s[1]]
    rnd.shuffle(unk)
    layout, ki, ui = [], 0, 0
    for i in range(len(seq)):
        if i in positions:
            layout.append(known[ki])
            ki += 1
        else:
            layout.append(unk[ui][0])
            ui += 1
    data = b"".join(layout)
    m = Known().parse(data)
    assert m.foo is True and m.name == "n" and m.nums == [1, 2, 3]
    assert m._unknown_fields == b"".join(u for u, _ in unk)
    out = bytes(m)
    assert out == b"\x08\x01\x2a\x01n\x32\x03\x01\x02\x03" + m._unknown_fields
    assert len(m) == len(out)

print("ok", checked, rounds)
