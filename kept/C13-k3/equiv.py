"""C13 keep1: reference_descendent / reference_ancestor / reference_cousin behave as before."""
import contextlib
import importlib
import io
import itertools
import os
import pathlib
import shutil
import sys
import tempfile
import typing

import grpc_tools
from grpc_tools import protoc as _protoc

import betterproto
import betterproto.plugin.compiler as plugin_compiler
from betterproto.lib.google.protobuf import FileDescriptorSet
from betterproto.lib.google.protobuf.compiler import CodeGeneratorRequest
from betterproto.plugin.models import monkey_patch_oneof_index

# ruff is not installed: the two formatting passes become the identity
plugin_compiler.subprocess.check_output = lambda cmd, input, encoding: input
from betterproto.plugin.parser import generate_code  # noqa: E402

monkey_patch_oneof_index()

_TMP = []
_COUNTER = itertools.count()


def pkg_id(path):
    return "_".join(path) if path else "root"


def fq(path, name):
    """fully qualified proto name of `name` defined in package `path`"""
    return "." + ".".join([*path, name])


KINDS = {  # kind -> (proto name inside the package, python class name, is_enum)
    "msg": ("Msg", "Msg", False),
    "nested_msg": ("Outer.Inner", "OuterInner", False),
    "deep_msg": ("Outer.Inner.Deep", "OuterInnerDeep", False),
    "enum": ("Kind", "Kind", True),
    "nested_enum": ("Outer.Nk", "OuterNk", True),
}


def defs_proto(path):
    pid = pkg_id(path).upper()
    lines = ['syntax = "proto3";']
    if path:
        lines.append(f"package {'.'.join(path)};")
    lines.append(
        f"""
message Msg {{ int32 v = 1; string tag = 2; }}
message Outer {{
  message Inner {{
    message Deep {{ int32 v = 1; }}
    int32 v = 1;
    Deep deep = 2;
  }}
  enum Nk {{ NK_ZERO = 0; NK_ONE = 1; NK_TWO = 2; }}
  Inner inner = 1;
  Nk nk = 2;
}}
enum Kind {{ {pid}_KIND_ZERO = 0; {pid}_KIND_ONE = 1; {pid}_KIND_TWO = 2; }}
"""
    )
    return "\n".join(lines)


def refs_proto(path, targets):
    lines = ['syntax = "proto3";']
    if path:
        lines.append(f"package {'.'.join(path)};")
    for t in targets:
        lines.append(f'import "{pkg_id(t)}_defs.proto";')
    for t in targets:
        tid = pkg_id(t).capitalize().replace("_", "")
        n = itertools.count(1)
        body = []
        for kind, (pname, _, _) in KINDS.items():
            body.append(f"  {fq(t, pname)} f_{kind} = {next(n)};")
        for kind, (pname, _, _) in KINDS.items():
            body.append(f"  repeated {fq(t, pname)} r_{kind} = {next(n)};")
        for kind, (pname, _, _) in KINDS.items():
            body.append(f"  map<string, {fq(t, pname)}> m_{kind} = {next(n)};")
        body.append("  oneof choice {")
        for kind, (pname, _, _) in KINDS.items():
            body.append(f"    {fq(t, pname)} o_{kind} = {next(n)};")
        body.append("  }")
        lines.append(f"message RefTo{tid} {{\n" + "\n".join(body) + "\n}")
        lines.append(
            f"service SvcTo{tid} {{\n"
            f"  rpc Call({fq(t, 'Msg')}) returns ({fq(t, 'Outer.Inner')});\n"
            f"  rpc Pump(stream {fq(t, 'Outer.Inner.Deep')}) returns (stream {fq(t, 'Msg')});\n"
            f"}}"
        )
    return "\n".join(lines)


def run_plugin(files, parameter=""):
    """protoc -> descriptors -> betterproto plugin; returns {relative path: content}"""
    src = tempfile.mkdtemp(prefix="c13src")
    try:
        for name, text in files.items():
            pathlib.Path(src, name).write_text(text)
        out = os.path.join(src, "ds.bin")
        inc = os.path.join(os.path.dirname(grpc_tools.__file__), "_proto")
        rc = _protoc.main(
            ["protoc", f"-I{src}", f"-I{inc}", f"--descriptor_set_out={out}",
             "--include_imports", *sorted(files)]
        )
        assert rc == 0, "protoc failed"
        fds = FileDescriptorSet().parse(pathlib.Path(out).read_bytes())
    finally:
        shutil.rmtree(src, ignore_errors=True)
    request = CodeGeneratorRequest(
        file_to_generate=sorted(files), parameter=parameter, proto_file=fds.file
    )
    cwd = os.getcwd()
    work = tempfile.mkdtemp(prefix="c13cwd")
    os.chdir(work)  # generate_code looks for existing __init__.py relative to the cwd
    try:
        with contextlib.redirect_stderr(io.StringIO()):
            response = generate_code(request)
    finally:
        os.chdir(cwd)
        shutil.rmtree(work, ignore_errors=True)
    names = [f.name for f in response.file]
    assert len(names) == len(set(names)), f"duplicate output files {names}"
    return {f.name: f.content for f in response.file}


def install(outputs):
    """write the plugin output below a fresh importable root package, return its name"""
    base = tempfile.mkdtemp(prefix="c13out")
    _TMP.append(base)
    root = f"c13gen{os.getpid()}_{next(_COUNTER)}"
    for name, content in outputs.items():
        p = pathlib.Path(base, root, name)
        p.parent.mkdir(parents=True, exist_ok=True)
        p.write_text(content)
    sys.path.insert(0, base)
    importlib.invalidate_caches()
    return root


def cleanup():
    for base in _TMP:
        shutil.rmtree(base, ignore_errors=True)


def module_of(root, path):
    return importlib.import_module(".".join([root, *path]))


def build(refs, parameter=""):
    """refs: {current package path: [target package paths]}.  Every package that occurs
    gets a *_defs.proto; every current package a *_refs.proto referring to its targets."""
    packages = set(refs)
    for targets in refs.values():
        packages.update(targets)
    files = {f"{pkg_id(p)}_defs.proto": defs_proto(p) for p in packages}
    for cur, targets in refs.items():
        files[f"{pkg_id(cur)}_refs.proto"] = refs_proto(cur, targets)
    outputs = run_plugin(files, parameter)
    root = install(outputs)
    # import every generated package (in a fixed but arbitrary order)
    for p in sorted(packages, key=lambda p: (len(p), p), reverse=True):
        module_of(root, p)
    return root, outputs


def check_reference(root, cur, tgt):
    """every reference from package `cur` to the types of package `tgt` denotes exactly
    the class generated for that type"""
    cur_mod = module_of(root, cur)
    tgt_mod = module_of(root, tgt)
    tid = pkg_id(tgt).capitalize().replace("_", "")
    where = f"{'.'.join(cur) or '<root>'} -> {'.'.join(tgt) or '<root>'}"
    ref_cls = getattr(cur_mod, f"RefTo{tid}")
    hints = typing.get_type_hints(ref_cls, vars(cur_mod), {})
    lib_hints = ref_cls._type_hints()
    for kind, (_, py_name, is_enum) in KINDS.items():
        want = getattr(tgt_mod, py_name)
        assert want.__module__ == tgt_mod.__name__, (where, kind, want)
        assert hints[f"f_{kind}"] is want, (where, kind, "field", hints[f"f_{kind}"])
        assert lib_hints[f"f_{kind}"] is want, (where, kind, "field")
        assert hints[f"o_{kind}"] is want, (where, kind, "oneof", hints[f"o_{kind}"])
        assert typing.get_origin(hints[f"r_{kind}"]) is list, (where, kind, "repeated")
        assert hints[f"r_{kind}"].__args__ == (want,), (where, kind, "repeated")
        assert hints[f"r_{kind}"].__args__[0] is want, (where, kind, "repeated")
        assert typing.get_origin(hints[f"m_{kind}"]) is dict, (where, kind, "map value")
        assert hints[f"m_{kind}"].__args__[0] is str, (where, kind, "map key")
        assert hints[f"m_{kind}"].__args__[1] is want, (where, kind, "map value")

    # instantiate and round-trip through the referencing fields
    T = tgt_mod
    msg = ref_cls(
        f_msg=T.Msg(v=7, tag="x"),
        f_nested_msg=T.OuterInner(v=3, deep=T.OuterInnerDeep(v=4)),
        f_deep_msg=T.OuterInnerDeep(v=5),
        f_enum=T.Kind(2),
        f_nested_enum=T.OuterNk.NK_ONE,
        r_msg=[T.Msg(v=1), T.Msg(v=2)],
        r_nested_msg=[T.OuterInner(v=9)],
        r_deep_msg=[T.OuterInnerDeep(v=8)],
        r_enum=[T.Kind(1), T.Kind(2)],
        r_nested_enum=[T.OuterNk.NK_TWO],
        m_msg={"k": T.Msg(v=11)},
        m_nested_msg={"k": T.OuterInner(v=12)},
        m_deep_msg={"k": T.OuterInnerDeep(v=13)},
        m_enum={"k": T.Kind(1)},
        m_nested_enum={"k": T.OuterNk.NK_TWO},
        o_nested_msg=T.OuterInner(v=21),
    )
    back = ref_cls().parse(bytes(msg))
    assert back == msg, where
    assert type(back.f_msg) is T.Msg and back.f_msg.v == 7, where
    assert type(back.f_nested_msg) is T.OuterInner, where
    assert type(back.f_nested_msg.deep) is T.OuterInnerDeep, where
    assert type(back.f_deep_msg) is T.OuterInnerDeep, where
    assert type(back.f_enum) is T.Kind and back.f_enum == 2, where
    assert type(back.f_nested_enum) is T.OuterNk, where
    assert [type(x) for x in back.r_msg] == [T.Msg, T.Msg], where
    assert type(back.r_nested_msg[0]) is T.OuterInner, where
    assert type(back.r_enum[0]) is T.Kind, where
    assert type(back.r_nested_enum[0]) is T.OuterNk, where
    assert type(back.m_msg["k"]) is T.Msg and back.m_msg["k"].v == 11, where
    assert type(back.m_nested_msg["k"]) is T.OuterInner, where
    assert type(back.m_deep_msg["k"]) is T.OuterInnerDeep, where
    assert type(back.m_enum["k"]) is T.Kind, where
    assert type(back.m_nested_enum["k"]) is T.OuterNk, where
    assert betterproto.which_one_of(back, "choice")[0] == "o_nested_msg", where
    assert type(back.o_nested_msg) is T.OuterInner and back.o_nested_msg.v == 21, where
    fresh = ref_cls()
    assert type(fresh.f_msg) is T.Msg and type(fresh.f_enum) is T.Kind, where
    assert ref_cls().from_dict(msg.to_dict()) == msg, where

    # rpc input / output types
    stub = getattr(cur_mod, f"SvcTo{tid}Stub")
    ns = vars(cur_mod)
    ann = dict(stub.call.__annotations__)
    assert eval(ann.pop("return"), ns) is T.OuterInner, (where, "rpc output")
    (param,) = [k for k in ann if k not in ("timeout", "deadline", "metadata")]
    assert eval(ann[param], ns) is T.Msg, (where, "rpc input")
    base = getattr(cur_mod, f"SvcTo{tid}Base")
    handlers = base().__mapping__()
    prefix = ".".join(cur) + "." if cur else ""
    call = handlers[f"/{prefix}SvcTo{tid}/Call"]
    pump = handlers[f"/{prefix}SvcTo{tid}/Pump"]
    assert call.request_type is T.Msg and call.reply_type is T.OuterInner, where
    assert pump.request_type is T.OuterInnerDeep and pump.reply_type is T.Msg, where
    b_ann = base.call.__annotations__
    assert eval(b_ann["return"], ns) is T.OuterInner, (where, "rpc output (server)")


# --------------------------------------------------------------------------------------
# part 1: get_type_reference / reference_* against an independently written model
# --------------------------------------------------------------------------------------
import re

from betterproto.casing import safe_snake_case
from betterproto.compile import importing
from betterproto.compile.importing import get_type_reference
from betterproto.compile.naming import pythonize_class_name
from betterproto.plugin.typing_compiler import DirectImportTypingCompiler


def model(package, source_type):
    """(reference string, import line or None) written from the documented behaviour"""
    m = re.match(r"^\.?([^A-Z]+)\.(.+)", source_type)
    src_pkg, name = (m.group(1), m.group(2)) if m else ("", source_type.lstrip("."))
    cur = package.split(".") if package else []
    tgt = src_pkg.split(".") if src_pkg else []
    cls = pythonize_class_name(name)
    if cur == tgt:
        return f'"{cls}"', None
    n = 0
    while n < min(len(cur), len(tgt)) and cur[n] == tgt[n]:
        n += 1
    up = len(cur) - n
    rest = tgt[n:]
    if n == len(cur):  # descendant
        if len(rest) == 1:
            return f'"{rest[0]}.{cls}"', f"from . import {rest[0]}"
        alias = "_".join(rest)
        return (
            f'"{alias}.{cls}"',
            f"from .{'.'.join(rest[:-1])} import {rest[-1]} as {alias}",
        )
    if n == len(tgt):  # ancestor
        if not tgt:
            alias = "_" * up + cls + "__"
            return f'"{alias}"', f"from {'.' * (up + 1)} import {cls} as {alias}"
        alias = "_" * (up + 1) + tgt[-1] + "__"
        return (
            f'"{alias}.{cls}"',
            f"from {'.' * (up + 2)} import {tgt[-1]} as {alias}",
        )
    alias = "_" * up + safe_snake_case(".".join(rest)) + "__"
    return (
        f'"{alias}.{cls}"',
        f"from {'.' * (up + 1)}{'.'.join(rest[:-1])} import {rest[-1]} as {alias}",
    )


def check_model():
    tc = DirectImportTypingCompiler()
    alphabet = ["a", "b", "c"]
    paths = [()]
    for depth in range(1, 5):
        paths += list(itertools.product(alphabet, repeat=depth))
    # unusual but legal package components: keywords, digits, underscores, repeats
    paths += [
        ("class",), ("a", "class"), ("import", "a"), ("v1",), ("a", "v1"), ("a", "v1", "b2"),
        ("foo_bar",), ("foo_bar", "baz_qux"), ("foo", "bar"), ("foo", "barista", "x"),
        ("a", "a", "a", "a", "a"), ("x", "y", "z", "x", "y", "z"), ("p", "q", "r", "s"),
        ("package", "deeply", "nested", "child"), ("test", "package"), ("cousin", "package"),
        ("google",), ("google", "type"), ("google", "protobuf", "compiler"), ("_a",), ("a", "_b"),
    ]
    names = ["Msg", "Outer.Inner", "Outer.Inner.Deep", "Kind", "lower_case_message", "HTTPRequest"]
    count = 0
    for cur in paths:
        package = ".".join(cur)
        for tgt in paths:
            for i, name in enumerate(names):
                if (len(cur) > 3 or len(tgt) > 3) and i > 1:
                    continue  # keep the big sweep affordable
                source = ".".join([*tgt, name])
                for lead in ("", "."):
                    imports = set()
                    got = get_type_reference(
                        package=package, imports=imports, source_type=lead + source,
                        typing_compiler=tc, unwrap=bool(count % 2), pydantic=bool(count % 3 == 0),
                    )
                    want_ref, want_import = model(package, lead + source)
                    assert got == want_ref, (package, source, got, want_ref)
                    assert imports == ({want_import} if want_import else set()), (
                        package, source, imports, want_import,
                    )
                    count += 1
    # imports accumulate in the caller's set and are not duplicated
    imports = set()
    for _ in range(2):
        for tgt in ["a.b.Msg", "a.b.Kind", "a.Msg", "Msg", "x.y.Msg", "a.c.Msg", "a.b.c.d.Msg"]:
            get_type_reference(package="a.b.c", imports=imports, source_type=tgt, typing_compiler=tc)
    assert imports == {
        "from ... import b as __b__",
        "from .... import a as ___a__",
        "from .... import Msg as ___Msg__",
        "from ....x import y as ___x_y__",
        "from ... import c as __c__",
        "from . import d",
    }, imports

    # the helper functions called directly, on the inputs their contract allows
    for cur, tgt in itertools.product(paths, repeat=2):
        cur, tgt = list(cur), list(tgt)
        if len(cur) > 3 and len(tgt) > 3:
            continue
        package, source = ".".join(cur), ".".join([*tgt, "Outer.Inner"])
        want_ref, want_import = model(package, source)
        imports = {"sentinel"}
        if cur == tgt:
            assert importing.reference_sibling("OuterInner") == want_ref
            continue
        if tgt[: len(cur)] == cur:
            got = importing.reference_descendent(cur, imports, tgt, "OuterInner")
        elif cur[: len(tgt)] == tgt:
            got = importing.reference_ancestor(cur, imports, tgt, "OuterInner")
        else:
            got = importing.reference_cousin(cur, imports, tgt, "OuterInner")
        assert got == want_ref, (cur, tgt, got, want_ref)
        assert imports == {"sentinel", want_import}, (cur, tgt, imports)
        assert cur == package.split(".") if package else cur == []  # arguments untouched
        count += 1

    # literal expectations (independent of the model above)
    literal = [
        ("", "child.Message", '"child.Message"', "from . import child"),
        ("", "nested.child.Message", '"nested_child.Message"', "from .nested import child as nested_child"),
        ("package", "package.deeply.nested.child.Message", '"deeply_nested_child.Message"',
         "from .deeply.nested import child as deeply_nested_child"),
        ("a.b", "a.b.c.d.e.Msg", '"c_d_e.Msg"', "from .c.d import e as c_d_e"),
        ("package.child", "package.Message", '"__package__.Message"', "from ... import package as __package__"),
        ("package.ancestor.nested.child", "package.ancestor.Message", '"___ancestor__.Message"',
         "from .... import ancestor as ___ancestor__"),
        ("child", "Message", '"_Message__"', "from .. import Message as _Message__"),
        ("package.child", "Message", '"__Message__"', "from ... import Message as __Message__"),
        ("a.b.c", ".Outer.Inner", '"___OuterInner__"', "from .... import OuterInner as ___OuterInner__"),
        ("package.deeply.nested.child", "Message", '"____Message__"', "from ..... import Message as ____Message__"),
        ("a", "p.Message", '"_p__.Message"', "from .. import p as _p__"),
        ("a.b", "p.q.Message", '"__p_q__.Message"', "from ...p import q as __p_q__"),
        ("a.b.c.d", "p.q.r.s.Message", '"____p_q_r_s__.Message"', "from .....p.q.r import s as ____p_q_r_s__"),
        ("a.x", "a.y.Message", '"_y__.Message"', "from .. import y as _y__"),
        ("a.x.y", "a.b.Message", '"__b__.Message"', "from ... import b as __b__"),
        ("a.x", "a.y.z.Message", '"_y_z__.Message"', "from ..y import z as _y_z__"),
        ("a", "p.q.Message", '"_p_q__.Message"', "from ..p import q as _p_q__"),
        ("test.package", "cousin.package.Message", '"__cousin_package__.Message"',
         "from ...cousin import package as __cousin_package__"),
        ("a.x.y.z", "a.b.c.d.Message", '"___b_c_d__.Message"', "from ....b.c import d as ___b_c_d__"),
        ("a.x", "a.class.Message", '"_class___.Message"', "from .. import class as _class___"),
        ("foo.bar", "foo.barista.x.Msg", '"_barista_x__.Msg"', "from ..barista import x as _barista_x__"),
    ]
    for package, source, ref, line in literal:
        imports = set()
        got = get_type_reference(package=package, imports=imports, source_type=source, typing_compiler=tc)
        assert (got, imports) == (ref, {line}), (package, source, got, imports)
    return count


def main():
    n = check_model()
    R, A, AB, ABC, AC, B, BA, BAC = (
        (), ("a",), ("a", "b"), ("a", "b", "c"), ("a", "c"), ("b",), ("b", "a"), ("b", "a", "c"),
    )
    try:
        pairs = [
            (A, A), (A, AB), (A, ABC), (AB, A), (ABC, A), (ABC, AB), (A, B), (AB, AC), (ABC, BA),
            (BA, ABC), (ABC, BAC), (ABC, AC), (AC, ABC), (ABC, B), (B, ABC),
            (R, R), (R, A), (R, ABC), (A, R), (AB, R), (ABC, R),
        ]
        for cur, tgt in pairs:
            root, _ = build({cur: [tgt]})
            check_reference(root, cur, tgt)
        everything = [R, A, AB, ABC, AC, B, BA, BAC]
        root, _ = build({cur: everything for cur in everything})
        for cur in everything:
            for tgt in everything:
                check_reference(root, cur, tgt)
    finally:
        cleanup()
    print(f"C13 keep1 equiv: {n} reference strings + generated packages OK")


if __name__ == "__main__":
    main()
