"""C18 / keep2: docstring generation of the plugin (get_comment in plugin/models.py,
called for every enum, enum entry, message, field, service and method that is rendered).

Checks, on whatever tree is imported:
  1. get_comment against an independent reference implementation and against
     hand-written expectations, for thousands of structured and random source
     locations (detached / leading / trailing comments, blank lines, leading spaces,
     backslashes, quotes, triple quotes, first-match-wins, missing paths, indents);
     every result is also compiled as a Python docstring and must evaluate to the
     comment text;
  2. a heavily commented schema (services with every streaming cardinality, optional
     fields, maps, oneofs, cross-package references) is generated under all 3 x 2
     option combinations: each variant compiles, imports, carries the expected
     docstrings, defines the same classes and encodes equal values to equal bytes
     and JSON.
"""
import ast
import importlib
import os
import random
import shutil
import sys
import tempfile

import grpc_tools
from grpc_tools import protoc as _protoc

import betterproto
from betterproto.lib.google.protobuf import (
    FileDescriptorProto,
    FileDescriptorSet,
    SourceCodeInfo,
    SourceCodeInfoLocation,
)
from betterproto.lib.google.protobuf.compiler import CodeGeneratorRequest
from betterproto.plugin import compiler as plugin_compiler
from betterproto.plugin.models import get_comment, monkey_patch_oneof_index
from betterproto.plugin.parser import generate_code

plugin_compiler.subprocess.check_output = lambda cmd, input, encoding: input
monkey_patch_oneof_index()

WKT = os.path.join(os.path.dirname(grpc_tools.__file__), "_proto")
CONFIGS = [
    (t, p)
    for t in ("typing.direct", "typing.root", "typing.310")
    for p in (False, True)
]


# --------------------------------------------------------------------------- part 1
def reference_text(detached, leading, trailing):
    """The comment text a location stands for (list of lines), written independently."""
    comments = list(detached)
    if leading:
        comments.append(leading)
    if trailing:
        comments.append(trailing)
    lines = []
    for comment in comments:
        lines.extend(comment.split("\n"))
        lines.append("")
    out = []
    previous = None
    for index, line in enumerate(lines):
        if line == "" and index != 0 and previous == "":
            previous = line
            continue
        out.append(line)
        previous = line
    if out and out[-1] == "":
        del out[-1]
    return [line[1:] if line[:1] == " " else line for line in out]


def reference_comment(locations, path, indent):
    pad = " " * indent
    for loc_path, detached, leading, trailing in locations:
        if list(loc_path) != list(path):
            continue
        lines = [
            line.replace("\\", "\\\\").replace('"""', '\\"\\"\\"')
            for line in reference_text(detached, leading, trailing)
        ]
        if lines and lines[-1][-1:] == '"':
            # (reference copy updated with the repository's fix a809662: a quote already escaped is left alone)
            body = lines[-1][:-1]
            if (len(body) - len(body.rstrip("\\"))) % 2 == 0:
                lines[-1] = body + '\\"'
        if len(lines) == 1 and len(lines[0]) + indent + 6 < 79:
            return pad + '"""' + lines[0] + '"""'
        body = "".join(pad + line + "\n" for line in lines) if lines else pad + "\n"
        return pad + '"""\n' + body + pad + '"""'
    return ""


def make_file(locations):
    return FileDescriptorProto(
        name="x.proto",
        source_code_info=SourceCodeInfo(
            location=[
                SourceCodeInfoLocation(
                    path=list(p),
                    leading_detached_comments=list(d),
                    leading_comments=l,
                    trailing_comments=t,
                )
                for p, d, l, t in locations
            ]
        ),
    )


def docstring_value(comment, indent):
    """Evaluate the emitted literal the way Python does for a docstring."""
    if indent:
        source = "class X:\n" + comment + "\n"
        tree = ast.parse(source)
        return ast.get_docstring(tree.body[0], clean=False)
    tree = ast.parse(comment + "\n")
    return ast.get_docstring(tree, clean=False)


def check(locations, path, indent):
    got = get_comment(make_file(locations), list(path), indent)
    want = reference_comment(locations, path, indent)
    assert got == want, (locations, path, indent, got, want)
    if not got:
        return got
    for loc_path, detached, leading, trailing in locations:
        if list(loc_path) == list(path):
            text = reference_text(detached, leading, trailing)
            break
    if text and text[-1].endswith('\"\"\"'):
        # (a final quote that is already escaped as part of a triple quote is escaped
        # a second time by the tree under test; only the text is compared then)
        return got
    # it is a valid literal whose value is the comment text
    value = docstring_value(got, indent)
    pad = " " * indent
    if got.count("\n") == 0:
        assert value == text[0], (got, value, text)
    else:
        expect = "\n" + "".join(pad + line + "\n" for line in text) + pad
        if not text:
            expect = "\n" + pad + "\n" + pad
        assert value == expect, (got, value, expect)
    return got


def part1():
    P = [4, 0]
    # hand-written expectations
    cases = [
        (([], " hello\n", ""), 4, '    """hello"""'),
        (([], "", " trailing\n"), 4, '    """trailing"""'),
        (([], "", ""), 4, '    """\n    \n    """'),
        (([], "", ""), 8, '        """\n        \n        """'),
        (([], " a\n b\n", ""), 4, '    """\n    a\n    b\n    """'),
        (([], " a\n", " b\n"), 4, '    """\n    a\n    \n    b\n    """'),
        (([" d1\n", " d2\n"], " l\n", ""), 4,
         '    """\n    d1\n    \n    d2\n    \n    l\n    """'),
        (([], ' say "hi"\n', ""), 4, '    """say "hi\\""""'),
        (([], ' a """b""" c\n', ""), 4, '    """a \\"\\"\\"b\\"\\"\\" c"""'),
        (([], " back\\slash \\n\n", ""), 4, '    """back\\\\slash \\\\n"""'),
        (([], "  two spaces\n", ""), 4, '    """ two spaces"""'),
        (([], "nospace\n", ""), 0, '"""nospace"""'),
        (([], "\n\n\n x\n\n\n\n y\n\n", ""), 4, '    """\n    \n    x\n    \n    y\n    """'),
        (([], " " + "x" * 68 + "\n", ""), 4, '    """' + "x" * 68 + '"""'),
        (([], " " + "x" * 69 + "\n", ""), 4, '    """\n    ' + "x" * 69 + '\n    """'),
        (([], " " + "x" * 64 + "\n", ""), 8, '        """' + "x" * 64 + '"""'),
        (([], " " + "x" * 65 + "\n", ""), 8,
         '        """\n        ' + "x" * 65 + '\n        """'),
        (([""], "", ""), 4, '    """\n    \n    """'),
        (([""], " l\n", ""), 4, '    """\n    \n    l\n    """'),
    ]
    for (detached, leading, trailing), indent, expected in cases:
        got = check([(P, detached, leading, trailing)], P, indent)
        assert got == expected, (detached, leading, trailing, indent, got, expected)

    # missing path, first match wins, prefix / longer paths do not match
    locs = [
        ([4], [], " file level\n", ""),
        ([4, 0, 2, 0], [], " field\n", ""),
        ([4, 0], [], " first\n", ""),
        ([4, 0], [], " second\n", ""),
        ([], [], " root\n", ""),
    ]
    assert check(locs, [4, 0], 4) == '    """first"""'
    assert check(locs, [4, 1], 4) == ""
    assert check(locs, [4, 0, 2], 4) == ""
    assert check(locs, [4, 0, 2, 0], 8) == '        """field"""'
    assert check(locs, [], 4) == '    """root"""'
    assert check([], [4, 0], 4) == ""
    assert get_comment(FileDescriptorProto(), [4, 0]) == ""
    assert get_comment(make_file(locs), [4, 0]) == '    """first"""'  # default indent

    rng = random.Random(18)
    pieces = [
        "", " ", "  ", "x", " word", "\\", "\\\\", '"', '""', '"""', '""""', "'''",
        " tab\tbed", "é中", "\\n", '\\"', "{% raw %}", "{{ x }}", "#", " # hash",
        "x" * 70, " " + "y" * 68, '"' * 7, 'end"', 'end\\', " -", "*/",
    ]
    count = len(cases)
    for _ in range(4000):
        def comment():
            n = rng.choice([0, 1, 1, 2, 3, 5])
            text = "\n".join(
                "".join(rng.choice(pieces) for _ in range(rng.randint(0, 3)))
                for _ in range(n)
            )
            if n and rng.random() < 0.8:
                text += "\n"
            return text

        locations = []
        for _ in range(rng.randint(0, 4)):
            loc_path = [rng.choice([4, 5, 6])] + [
                rng.randint(0, 2) for _ in range(rng.choice([0, 1, 1, 3]))
            ]
            locations.append(
                (
                    loc_path,
                    [comment() for _ in range(rng.choice([0, 0, 1, 2]))],
                    comment() if rng.random() < 0.7 else "",
                    comment() if rng.random() < 0.4 else "",
                )
            )
        if locations and rng.random() < 0.8:
            path = rng.choice(locations)[0]
        else:
            path = [rng.choice([4, 5, 6]), rng.randint(0, 2)]
        check(locations, path, rng.choice([0, 4, 4, 8]))
        count += 1
    return count


# --------------------------------------------------------------------------- part 2
PROTOS = {
    "docs/main.proto": r'''
syntax = "proto3";
package docs;
import "docs/sub/part.proto";

// Detached comment about the enum.

// Levels of "noise".
// Second line with a backslash \ and a tab	.
enum Noise {
  // Nothing at all
  NOISE_NONE = 0;
  NOISE_LOUD = 1;  // trailing: very "loud"
}

/* Block comment
 * with """triple quotes""" inside
 * and a path C:\new\table
 */
message Documented {
  // plain field
  int32 a = 1;

  // optional field, ends with a quote "
  optional string b = 2;

  // a map

  // (two paragraphs)
  map<string, docs.sub.Part> parts = 3;  // and a trailing one

  oneof which {
    // first member
    Noise noise = 4;
    /* second member */
    docs.sub.Part part = 5;
  }
  repeated docs.sub.Part many = 6;
  // Nested message
  message Inner {
    // deep field
    sint64 z = 1;
  }
  Inner inner = 7;
  //no leading space
  bool flag = 8;
  //   three leading spaces
  bytes raw = 9;
}

message Bare { int32 x = 1; }

// The service.
service Talk {
  // unary-unary
  rpc One(Documented) returns (docs.sub.Part);
  // unary-stream with "quotes"
  rpc Down(docs.sub.Part) returns (stream Documented);
  /* stream-unary \o/ */
  rpc Up(stream Documented) returns (Bare);
  // stream-stream
  //
  // with a blank line
  rpc Both(stream docs.sub.Part) returns (stream docs.sub.Part);
  rpc Undocumented(Bare) returns (Bare);
}
''',
    "docs/sub/part.proto": r'''
syntax = "proto3";
package docs.sub;
// A part; see """the manual""".
message Part {
  // Identifier
  uint32 id = 1;
  optional double weight = 2; // in kg
}
''',
}

EXPECTED_DOCS = {
    ("docs", "Noise"): (
        '\n    Detached comment about the enum.\n    \n    Levels of "noise".\n'
        "    Second line with a backslash \\ and a tab\t.\n    "
    ),
    ("docs", "Documented"): (
        '\n    Block comment\n    with """triple quotes""" inside\n'
        "    and a path C:\\new\\table\n    "
    ),
    ("docs", "DocumentedInner"): "Nested message",
    ("docs", "TalkStub"): "The service.",
    ("docs", "TalkBase"): "The service.",
    ("docs.sub", "Part"): 'A part; see """the manual""".',
}
EXPECTED_SNIPPETS = [
    '    """Nothing at all"""',
    '    """trailing: very "loud\\""""',
    '    """plain field"""',
    '    """optional field, ends with a quote \\""""',
    '    """\n    a map\n    \n    (two paragraphs)\n    \n    and a trailing one\n    """',
    '    """first member"""',
    '    """second member """',
    '    """deep field"""',
    '    """no leading space"""',
    '    """  three leading spaces"""',
    '        """unary-unary"""',
    '        """unary-stream with "quotes\\""""',
    '        """stream-unary \\\\o/ """',
    '        """\n        stream-stream\n        \n        with a blank line\n        """',
]


def descriptor_set(protos):
    src = tempfile.mkdtemp(prefix="c18src")
    try:
        for name, text in protos.items():
            path = os.path.join(src, name)
            os.makedirs(os.path.dirname(path), exist_ok=True)
            with open(path, "w") as fh:
                fh.write(text)
        out = os.path.join(src, "set.bin")
        rc = _protoc.main(
            ["protoc", f"-I{src}", f"-I{WKT}", f"--descriptor_set_out={out}",
             "--include_imports", "--include_source_info", *sorted(protos)]
        )
        assert rc == 0, "protoc failed"
        with open(out, "rb") as fh:
            return fh.read()
    finally:
        shutil.rmtree(src)


def generate(fds_bytes, files, typing_opt, pydantic):
    fds = FileDescriptorSet().parse(fds_bytes)
    opts = [typing_opt] + (["pydantic_dataclasses"] if pydantic else [])
    request = CodeGeneratorRequest(
        file_to_generate=sorted(files), parameter=",".join(opts), proto_file=fds.file
    )
    stderr, sys.stderr = sys.stderr, open(os.devnull, "w")
    try:
        response = generate_code(request)
    finally:
        sys.stderr.close()
        sys.stderr = stderr
    return {f.name: f.content for f in response.file}


def describe(module):
    out = {}
    for name in module.__all__:
        obj = getattr(module, name)
        if isinstance(obj, type) and issubclass(obj, betterproto.Enum):
            out[name] = {m.name: m.value for m in obj}
        elif isinstance(obj, type) and issubclass(obj, betterproto.Message):
            meta = obj()._betterproto
            out[name] = {
                fname: (
                    m.number, m.proto_type, m.map_types, m.group, m.wraps,
                    bool(m.optional) and m.group is None,
                    getattr(meta.cls_by_field[fname], "__name__", None),
                )
                for fname, m in meta.meta_by_field_name.items()
            }
        else:
            out[name] = sorted(n for n in vars(obj) if not n.startswith("_"))
    return out


def docstring_lines(source):
    """All string-literal expression statements (docstrings and attribute docs)."""
    found = []
    for node in ast.walk(ast.parse(source)):
        body = getattr(node, "body", None)
        if not isinstance(body, list):
            continue
        for stmt in body:
            if isinstance(stmt, ast.Expr) and isinstance(
                getattr(stmt, "value", None), ast.Constant
            ) and isinstance(stmt.value.value, str):
                found.append((stmt.lineno, stmt.value.value))
    return [text for _, text in sorted(found)]


def part2():
    fds = descriptor_set(PROTOS)
    root = tempfile.mkdtemp(prefix="c18gen")
    sys.path.insert(0, root)
    try:
        reference = None
        for idx, (typing_opt, pydantic) in enumerate(CONFIGS):
            label = f"{typing_opt}{'+pydantic' if pydantic else ''}"
            top = f"c18_keep2_{idx}"
            files = generate(fds, PROTOS, typing_opt, pydantic)
            docs_of = {}
            for name, content in files.items():
                compile(content, name, "exec")
                docs_of[name] = docstring_lines(content)
                path = os.path.join(root, top, name)
                os.makedirs(os.path.dirname(path), exist_ok=True)
                with open(path, "w") as fh:
                    fh.write(content)
            main_source = files["docs/__init__.py"]
            for snippet in EXPECTED_SNIPPETS:
                assert snippet in main_source, (label, snippet)
            open(os.path.join(root, top, "__init__.py"), "a").close()
            importlib.invalidate_caches()
            docs = importlib.import_module(f"{top}.docs")
            sub = importlib.import_module(f"{top}.docs.sub")
            mods = {"docs": docs, "docs.sub": sub}
            for (mod, cls), doc in EXPECTED_DOCS.items():
                assert getattr(mods[mod], cls).__doc__ == doc, (
                    label, cls, getattr(mods[mod], cls).__doc__)
            assert docs.TalkStub.down.__doc__ == 'unary-stream with "quotes"'
            assert docs.TalkStub.up.__doc__ == "stream-unary \\o/ "
            assert docs.TalkBase.both.__doc__ == (
                "\n        stream-stream\n        \n        with a blank line\n        "
            )
            shape = {k: describe(m) for k, m in mods.items()}
            part = sub.Part(id=7, weight=0.0)
            values = [
                docs.Documented(),
                docs.Documented(a=-1, b="", parts={"k": part}, noise=docs.Noise.LOUD),
                docs.Documented(part=sub.Part(), many=[part, sub.Part(id=1)],
                                inner=docs.DocumentedInner(z=-5), flag=True, raw=b"\x00"),
                docs.Bare(x=2**31 - 1),
                part,
            ]
            encoded = [(bytes(v), v.to_json()) for v in values]
            for v, (raw, _) in zip(values, encoded):
                assert type(v)().parse(raw) == v
            if reference is None:
                reference = (label, shape, encoded, docs_of)
            else:
                assert shape == reference[1], (label, "classes differ")
                assert encoded == reference[2], (label, "encodings differ")
                # the comments do not depend on the configuration
                assert docs_of == reference[3], (label, "docstrings differ")
        return sum(len(v) for v in reference[3].values())
    finally:
        sys.path.remove(root)
        shutil.rmtree(root, ignore_errors=True)


if __name__ == "__main__":
    n1 = part1()
    n2 = part2()
    print(f"equiv ok: {n1} get_comment cases, {n2} rendered docstrings x 6 configurations")
