"""Exercises the varint encoder pair (encode_varint / dump_varint) and everything
encoded through it: tags, lengths, every varint-typed field, packed runs, the
size prefix of delimited dumps - and the C14 observers/copies on top of that.
Reference results come from google.protobuf (its pure-Python varint encoder and
dynamically built message classes) and from a tiny independent model.
"""
import copy
import io
import pickle
import random
from dataclasses import dataclass
from typing import Dict, List

import betterproto
from betterproto import decode_varint, dump_varint, encode_varint, load_varint, size_varint

from google.protobuf import descriptor_pb2, descriptor_pool, message_factory
from google.protobuf.internal import encoder as pb_encoder


def model(value: int) -> bytes:
    """Independent reference: base-128 digits, least significant first."""
    if value < 0:
        value += 1 << 64
    digits = []
    while True:
        digits.append(value % 128)
        value //= 128
        if value == 0:
            break
    return bytes(d + 128 for d in digits[:-1]) + bytes(digits[-1:])


def pb_signed(value: int) -> bytes:
    out = []
    pb_encoder._EncodeSignedVarint(out.append, value)
    return b"".join(out)


class CountingStream:
    def __init__(self):
        self.chunks = []

    def write(self, data):
        assert isinstance(data, bytes)
        self.chunks.append(data)
        return len(data)

    @property
    def data(self):
        return b"".join(self.chunks)


# --------------------------------------------------------------------------
# 1. the functions themselves
# --------------------------------------------------------------------------
interesting = set()
for k in range(0, 65):
    for d in (-2, -1, 0, 1, 2):
        interesting.add((1 << k) + d)
        interesting.add(-(1 << k) + d)
for k in range(1, 11):
    interesting.update({(1 << (7 * k)) - 1, 1 << (7 * k), (1 << (7 * k)) + 1})
interesting.update(range(-300, 300))
rng = random.Random(1414)
for _ in range(20000):
    bits = rng.randrange(1, 65)
    interesting.add(rng.getrandbits(bits))
    interesting.add(-rng.getrandbits(rng.randrange(1, 64)))
values = sorted(v for v in interesting if -(1 << 63) <= v < (1 << 64))
assert len(values) > 20000

for v in values:
    enc = encode_varint(v)
    assert type(enc) is bytes
    assert enc == model(v), v
    if v >= 0:
        assert enc == pb_encoder._VarintBytes(v), v
        assert len(enc) == pb_encoder._VarintSize(v)
    if -(1 << 63) <= v < (1 << 63):
        assert enc == pb_signed(v), v
    assert 1 <= len(enc) <= 10
    assert len(enc) == size_varint(v)
    assert all(b & 0x80 for b in enc[:-1]) and not enc[-1] & 0x80
    # the stream form writes exactly the same bytes
    s = CountingStream()
    assert dump_varint(v, s) is None
    assert s.data == enc
    bio = io.BytesIO(b"prefix")
    bio.seek(0, io.SEEK_END)
    dump_varint(v, bio)
    assert bio.getvalue() == b"prefix" + enc
    # and decoding gives the value back (as a 64-bit unsigned number)
    back, pos = decode_varint(b"\x00" + enc + b"\xff", 1)
    assert back == (v if v >= 0 else v + (1 << 64)) and pos == 1 + len(enc)
    assert load_varint(io.BytesIO(enc)) == (back, enc)

# values beyond 64 bits are not rejected on the positive side: plain base-128
for v in (1 << 64, (1 << 64) + 1, (1 << 70) - 1, 1 << 100, (1 << 127) + 12345):
    assert encode_varint(v) == model(v)
    s = CountingStream()
    dump_varint(v, s)
    assert s.data == model(v)

# too negative: ValueError from both, and nothing is written
for v in (-(1 << 63) - 1, -(1 << 64), -(1 << 100)):
    for fn in (encode_varint, lambda x: dump_varint(x, CountingStream())):
        try:
            fn(v)
        except ValueError as e:
            assert "64-bit" in str(e)
        else:
            raise AssertionError(v)
    s = CountingStream()
    try:
        dump_varint(v, s)
    except ValueError:
        pass
    assert s.chunks == []

# bools and enum members are ints
assert encode_varint(True) == b"\x01" and encode_varint(False) == b"\x00"


class Colour(betterproto.Enum):
    ZERO = 0
    RED = 1
    BIG = 300
    NEG = -2


assert encode_varint(Colour.ZERO) == b"\x00"
assert encode_varint(Colour.RED) == b"\x01"
assert encode_varint(Colour.BIG) == b"\xac\x02"
assert encode_varint(Colour.NEG) == b"\xfe" + b"\xff" * 8 + b"\x01"
for bad in (None, "1", 1.5, b"\x01"):
    for fn in (encode_varint, lambda x: dump_varint(x, CountingStream())):
        try:
            fn(bad)
        except TypeError:
            pass
        else:
            raise AssertionError(repr(bad))


# --------------------------------------------------------------------------
# 2. messages: compare with google.protobuf on every varint-typed field kind
# --------------------------------------------------------------------------
@dataclass(eq=False, repr=False)
class Inner(betterproto.Message):
    v: int = betterproto.int64_field(1)


@dataclass(eq=False, repr=False)
class Nums(betterproto.Message):
    i32: int = betterproto.int32_field(1)
    i64: int = betterproto.int64_field(2)
    u32: int = betterproto.uint32_field(3)
    u64: int = betterproto.uint64_field(4)
    s32: int = betterproto.sint32_field(5)
    s64: int = betterproto.sint64_field(6)
    flag: bool = betterproto.bool_field(7)
    colour: Colour = betterproto.enum_field(8)
    text: str = betterproto.string_field(9)
    blob: bytes = betterproto.bytes_field(10)
    r64: List[int] = betterproto.int64_field(11)
    rs32: List[int] = betterproto.sint32_field(12)
    inner: Inner = betterproto.message_field(13)
    inners: List[Inner] = betterproto.message_field(14)
    table: Dict[int, int] = betterproto.map_field(
        15, betterproto.TYPE_INT64, betterproto.TYPE_UINT64
    )
    pick_a: int = betterproto.int64_field(100, group="pick")
    pick_b: bool = betterproto.bool_field(101, group="pick")
    # large field numbers: multi-byte tags
    far: int = betterproto.uint64_field(2047)
    farther: int = betterproto.int32_field(2048)
    farthest: int = betterproto.sint64_field(536870911)


def build_pb_classes():
    F = descriptor_pb2.FieldDescriptorProto
    fd = descriptor_pb2.FileDescriptorProto(
        name="c14_keep2.proto", package="c14k2", syntax="proto3"
    )
    en = fd.enum_type.add(name="Colour")
    for n, num in (("ZERO", 0), ("RED", 1), ("BIG", 300), ("NEG", -2)):
        en.value.add(name=n, number=num)
    inner = fd.message_type.add(name="Inner")
    inner.field.add(name="v", number=1, type=F.TYPE_INT64, label=F.LABEL_OPTIONAL)
    nums = fd.message_type.add(name="Nums")
    entry = nums.nested_type.add(name="TableEntry")
    entry.options.map_entry = True
    entry.field.add(name="key", number=1, type=F.TYPE_INT64, label=F.LABEL_OPTIONAL)
    entry.field.add(name="value", number=2, type=F.TYPE_UINT64, label=F.LABEL_OPTIONAL)
    nums.oneof_decl.add(name="pick")

    def add(name, number, typ, label=F.LABEL_OPTIONAL, type_name=None, oneof=None):
        f = nums.field.add(name=name, number=number, type=typ, label=label)
        if type_name:
            f.type_name = type_name
        if oneof is not None:
            f.oneof_index = oneof

    add("i32", 1, F.TYPE_INT32)
    add("i64", 2, F.TYPE_INT64)
    add("u32", 3, F.TYPE_UINT32)
    add("u64", 4, F.TYPE_UINT64)
    add("s32", 5, F.TYPE_SINT32)
    add("s64", 6, F.TYPE_SINT64)
    add("flag", 7, F.TYPE_BOOL)
    add("colour", 8, F.TYPE_ENUM, type_name=".c14k2.Colour")
    add("text", 9, F.TYPE_STRING)
    add("blob", 10, F.TYPE_BYTES)
    add("r64", 11, F.TYPE_INT64, F.LABEL_REPEATED)
    add("rs32", 12, F.TYPE_SINT32, F.LABEL_REPEATED)
    add("inner", 13, F.TYPE_MESSAGE, type_name=".c14k2.Inner")
    add("inners", 14, F.TYPE_MESSAGE, F.LABEL_REPEATED, ".c14k2.Inner")
    add("table", 15, F.TYPE_MESSAGE, F.LABEL_REPEATED, ".c14k2.Nums.TableEntry")
    add("far", 2047, F.TYPE_UINT64)
    add("farther", 2048, F.TYPE_INT32)
    add("farthest", 536870911, F.TYPE_SINT64)
    add("pick_a", 100, F.TYPE_INT64, oneof=0)
    add("pick_b", 101, F.TYPE_BOOL, oneof=0)
    pool = descriptor_pool.DescriptorPool()
    pool.Add(fd)
    get = message_factory.GetMessageClass
    return get(pool.FindMessageTypeByName("c14k2.Nums"))


PbNums = build_pb_classes()

I32 = [0, 1, -1, 127, 128, -128, 16383, 16384, 2**31 - 1, -(2**31)]
I64 = I32 + [2**31, -(2**31) - 1, 2**56 - 1, 2**56, 2**63 - 1, -(2**63), -(2**62)]
U32 = [0, 1, 127, 128, 2**21 - 1, 2**21, 2**32 - 1]
U64 = U32 + [2**32, 2**35 - 1, 2**35, 2**63, 2**64 - 1]


def random_values(rng):
    kw = {}
    if rng.random() < 0.7:
        kw["i32"] = rng.choice(I32)
    if rng.random() < 0.7:
        kw["i64"] = rng.choice(I64)
    if rng.random() < 0.7:
        kw["u32"] = rng.choice(U32)
    if rng.random() < 0.7:
        kw["u64"] = rng.choice(U64)
    if rng.random() < 0.7:
        kw["s32"] = rng.choice(I32)
    if rng.random() < 0.7:
        kw["s64"] = rng.choice(I64)
    if rng.random() < 0.5:
        kw["flag"] = rng.random() < 0.5
    if rng.random() < 0.5:
        kw["colour"] = rng.choice(list(Colour))
    if rng.random() < 0.5:
        # lengths around the 1-/2-/3-byte length-prefix boundaries
        kw["text"] = "x" * rng.choice([0, 1, 127, 128, 129, 16383, 16384, 20000])
    if rng.random() < 0.5:
        kw["blob"] = bytes(rng.choice([0, 1, 127, 128, 300]))
    if rng.random() < 0.6:
        kw["r64"] = [rng.choice(I64) for _ in range(rng.choice([0, 1, 2, 20, 200]))]
    if rng.random() < 0.6:
        kw["rs32"] = [rng.choice(I32) for _ in range(rng.choice([0, 1, 3, 64]))]
    if rng.random() < 0.5:
        kw["inner"] = rng.choice(I64)
    if rng.random() < 0.5:
        kw["inners"] = [rng.choice(I64) for _ in range(rng.randrange(0, 4))]
    if rng.random() < 0.5:
        kw["table"] = {
            rng.choice(I64): rng.choice(U64) for _ in range(rng.randrange(0, 4))
        }
    if rng.random() < 0.5:
        kw["far"] = rng.choice(U64)
    if rng.random() < 0.5:
        kw["farther"] = rng.choice(I32)
    if rng.random() < 0.5:
        kw["farthest"] = rng.choice(I64)
    pick = rng.random()
    if pick < 0.3:
        kw["pick_a"] = rng.choice(I64)
    elif pick < 0.6:
        kw["pick_b"] = rng.random() < 0.5
    return kw


def make_bp(kw):
    kw = dict(kw)
    if "inner" in kw:
        kw["inner"] = Inner(v=kw["inner"])
    if "inners" in kw:
        kw["inners"] = [Inner(v=v) for v in kw["inners"]]
    return Nums(**kw)


def make_pb(kw):
    pb = PbNums()
    for k, v in kw.items():
        if k == "inner":
            pb.inner.v = v
            pb.inner.SetInParent()
        elif k == "inners":
            for x in v:
                pb.inners.add(v=x)
        elif k == "table":
            for a, b in v.items():
                pb.table[a] = b
        elif k in ("r64", "rs32"):
            getattr(pb, k).extend(v)
        elif k == "colour":
            pb.colour = int(v)
        else:
            setattr(pb, k, v)
    return pb


rng = random.Random(20261005)
for round_no in range(1500):
    kw = random_values(rng)
    m = make_bp(kw)
    data = bytes(m)
    pb = make_pb(kw)
    # maps are not ordered on the google side: compare after a parse instead
    if len(kw.get("table", {})) <= 1:
        assert data == pb.SerializeToString(deterministic=True), kw
    assert len(m) == len(data) == pb.ByteSize(), kw
    assert PbNums.FromString(data) == pb, kw
    assert Nums().parse(pb.SerializeToString()) == m, kw

    # size-delimited dump: the prefix is the varint of the length
    s = io.BytesIO()
    m.dump(s, betterproto.SIZE_DELIMITED)
    assert s.getvalue() == model(len(data)) + data
    assert Nums().load(io.BytesIO(s.getvalue()), betterproto.SIZE_DELIMITED) == m

    # C14: observers do not change the encoding; copies are faithful
    observers = [
        lambda x: bytes(x),
        lambda x: len(x),
        lambda x: x.to_dict(),
        lambda x: x.to_json(),
        lambda x: x.to_pydict(),
        lambda x: repr(x),
        lambda x: bool(x),
        lambda x: x == Nums(),
        lambda x: (x.inner, x.r64, x.table, x.i64),
    ]
    rng.shuffle(observers)
    for ob in observers[: rng.randrange(0, 5)]:
        ob(m)
        assert bytes(m) == data
    for c in (copy.copy(m), copy.deepcopy(m), pickle.loads(pickle.dumps(m))):
        assert c == m and bytes(c) == data and len(c) == len(data)
    d = copy.deepcopy(m)
    d.i64 = 77
    d.r64.append(5)
    d.inner.v = -9
    d.table[123456789] = 1
    assert bytes(m) == data

# unknown fields (varint / multi-byte tag) survive the copies byte for byte
unknown = encode_varint((70000 << 3) | 0) + encode_varint(2**64 - 1)
m = Nums().parse(b"\x08\x05" + unknown)
assert bytes(m) == b"\x08\x05" + unknown
for c in (copy.copy(m), copy.deepcopy(m), pickle.loads(pickle.dumps(m))):
    assert bytes(c) == bytes(m) and c == m

print("ok", len(values))
