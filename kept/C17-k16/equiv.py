"""Equivalence check for the ParsedField representation change (C17, keep2).

1. the ParsedField objects produced by load_fields / parse_fields (fields, order,
   repr, equality, immutability);
2. the decoder end to end on a rich message type: valid encodings, every truncation
   point, single-byte corruptions at every position, wire-type substitutions on every
   field, sized / size-delimited loads and random byte strings.  Every outcome (the
   decoded message, its unknown fields and re-encoding, or the exception type and
   text) is folded into a digest that must equal the one recorded on the reference
   tree;
3. accept/reject agreement with google.protobuf on truncations and substitutions.
Passes on the pristine tree and with the refactor applied.
"""
import hashlib
import random
import struct
from dataclasses import dataclass
from datetime import datetime, timedelta, timezone
from io import BytesIO
from typing import Dict, List, Optional

import betterproto
from betterproto import ParsedField, encode_varint, load_fields, parse_fields

EXPECTED_DIGEST = "86e7451ba6a76a22c03535a1b52e29a626533210e8fb138472ac9ef0115b6c3e"


# ------------------------------------------------------------------ 1. ParsedField
sample = (
    b"\x08\x96\x01"  # 1: varint 150
    b"\x12\x03abc"  # 2: len "abc"
    b"\x1d\x01\x02\x03\x04"  # 3: fixed32
    b"\x21\x01\x02\x03\x04\x05\x06\x07\x08"  # 4: fixed64
    b"\x82\x01\x00"  # 16: empty len
    b"\xf8\xff\xff\xff\x0f\x00"  # 2**29-1: varint 0
)
want = [
    (1, 0, 150, b"\x08\x96\x01"),
    (2, 2, b"abc", b"\x12\x03abc"),
    (3, 5, b"\x01\x02\x03\x04", b"\x1d\x01\x02\x03\x04"),
    (4, 1, b"\x01\x02\x03\x04\x05\x06\x07\x08", b"\x21\x01\x02\x03\x04\x05\x06\x07\x08"),
    (16, 2, b"", b"\x82\x01\x00"),
    (2**29 - 1, 0, 0, b"\xf8\xff\xff\xff\x0f\x00"),
]
for producer in (lambda d: load_fields(BytesIO(d)), parse_fields):
    got = list(producer(sample))
    assert len(got) == len(want)
    for p, (number, wire_type, value, raw) in zip(got, want):
        assert type(p) is ParsedField
        assert (p.number, p.wire_type, p.value, p.raw) == (number, wire_type, value, raw)
        assert type(p.value) is type(value) and type(p.raw) is bytes
        assert p == ParsedField(number=number, wire_type=wire_type, value=value, raw=raw)
        assert p == ParsedField(number, wire_type, value, raw)
        assert p != ParsedField(number, wire_type, value, raw + b"\x00")
        assert hash(p) == hash(ParsedField(number, wire_type, value, raw))
        assert repr(p) == (
            f"ParsedField(number={number!r}, wire_type={wire_type!r}, "
            f"value={value!r}, raw={raw!r})"
        )
        try:
            p.number = 5
        except AttributeError:
            pass
        else:
            raise AssertionError("ParsedField is mutable")
    assert b"".join(p.raw for p in got) == sample
assert list(load_fields(BytesIO(b""))) == list(parse_fields(b"")) == []
for bad, exc_type in [
    (b"\x00\x00", ValueError), (b"\x0b", ValueError), (b"\x0c", ValueError),
    (b"\x0e", ValueError), (b"\x0f", ValueError), (b"\x08", EOFError),
    (b"\x80", EOFError), (b"\x12\x05ab", EOFError), (b"\x1d\x00", EOFError),
    (b"\x21\x00\x00\x00\x00\x00\x00\x00", EOFError), (b"\x08" + b"\xff" * 10 + b"\x01", ValueError),
]:
    for producer in (lambda d: load_fields(BytesIO(d)), parse_fields):
        try:
            list(producer(bad))
        except exc_type:
            pass
        else:
            raise AssertionError(bad)


# ------------------------------------------------------------------ 2. the decoder
class Colour(betterproto.Enum):
    RED = 0
    GREEN = 1
    NEG = -3


@dataclass(eq=False, repr=False)
class Sub(betterproto.Message):
    a: int = betterproto.int32_field(1)
    s: str = betterproto.string_field(2)
    kids: List["Sub"] = betterproto.message_field(3)


@dataclass(eq=False, repr=False)
class Rich(betterproto.Message):
    i32: int = betterproto.int32_field(1)
    i64: int = betterproto.int64_field(2)
    u32: int = betterproto.uint32_field(3)
    u64: int = betterproto.uint64_field(4)
    s32: int = betterproto.sint32_field(5)
    s64: int = betterproto.sint64_field(6)
    b: bool = betterproto.bool_field(7)
    e: Colour = betterproto.enum_field(8)
    f: float = betterproto.float_field(9)
    d: float = betterproto.double_field(10)
    fx32: int = betterproto.fixed32_field(11)
    sfx32: int = betterproto.sfixed32_field(12)
    fx64: int = betterproto.fixed64_field(13)
    sfx64: int = betterproto.sfixed64_field(14)
    s: str = betterproto.string_field(15)
    by: bytes = betterproto.bytes_field(16)
    sub: Sub = betterproto.message_field(17)
    r_i32: List[int] = betterproto.int32_field(18)
    r_s64: List[int] = betterproto.sint64_field(19)
    r_b: List[bool] = betterproto.bool_field(20)
    r_e: List[Colour] = betterproto.enum_field(21)
    r_f: List[float] = betterproto.float_field(22)
    r_d: List[float] = betterproto.double_field(23)
    r_fx32: List[int] = betterproto.fixed32_field(24)
    r_sfx64: List[int] = betterproto.sfixed64_field(25)
    r_s: List[str] = betterproto.string_field(26)
    r_by: List[bytes] = betterproto.bytes_field(27)
    r_sub: List[Sub] = betterproto.message_field(28)
    m_ii: Dict[int, int] = betterproto.map_field(
        29, betterproto.TYPE_INT32, betterproto.TYPE_SINT64)
    m_ss: Dict[str, Sub] = betterproto.map_field(
        30, betterproto.TYPE_STRING, betterproto.TYPE_MESSAGE)
    o_i: int = betterproto.int32_field(31, group="choice")
    o_s: str = betterproto.string_field(32, group="choice")
    o_m: Sub = betterproto.message_field(33, group="choice")
    opt_i: Optional[int] = betterproto.int32_field(34, optional=True)
    opt_s: Optional[str] = betterproto.string_field(35, optional=True)
    ts: datetime = betterproto.message_field(36)
    du: timedelta = betterproto.message_field(37)
    w_i: Optional[int] = betterproto.message_field(38, wraps=betterproto.TYPE_INT64)
    w_s: Optional[str] = betterproto.message_field(39, wraps=betterproto.TYPE_STRING)
    far: int = betterproto.uint32_field(3000)


rng = random.Random(1711)


def rand_sub(depth=0):
    sub = Sub(a=rng.choice([0, 1, -1, 300, -(2**31)]), s=rng.choice(["", "x", "héé"]))
    if depth < 2 and rng.random() < 0.4:
        sub.kids = [rand_sub(depth + 1) for _ in range(rng.randrange(1, 3))]
    return sub


def f32(x):
    return struct.unpack("<f", struct.pack("<f", x))[0]


def rand_rich():
    m = Rich()
    pick = lambda: rng.random() < 0.45  # noqa: E731
    if pick(): m.i32 = rng.choice([1, -1, 127, 128, 2**31 - 1, -(2**31)])
    if pick(): m.i64 = rng.choice([1, -1, 2**63 - 1, -(2**63)])
    if pick(): m.u32 = rng.choice([1, 2**32 - 1])
    if pick(): m.u64 = rng.choice([1, 2**64 - 1])
    if pick(): m.s32 = rng.choice([1, -1, 2**31 - 1, -(2**31)])
    if pick(): m.s64 = rng.choice([1, -1, 2**63 - 1, -(2**63)])
    if pick(): m.b = True
    if pick(): m.e = rng.choice([Colour.GREEN, Colour.NEG])
    if pick(): m.f = f32(rng.uniform(-100, 100))
    if pick(): m.d = rng.uniform(-1e9, 1e9)
    if pick(): m.fx32 = rng.getrandbits(32)
    if pick(): m.sfx32 = -rng.getrandbits(31)
    if pick(): m.fx64 = rng.getrandbits(64)
    if pick(): m.sfx64 = -rng.getrandbits(63)
    if pick(): m.s = rng.choice(["a", "héllo", "x" * 130])
    if pick(): m.by = rng.randbytes(rng.randrange(1, 6))
    if pick(): m.sub = rand_sub()
    if pick(): m.r_i32 = [rng.choice([0, 1, -1, 300]) for _ in range(rng.randrange(1, 4))]
    if pick(): m.r_s64 = [rng.choice([0, -1, 2**40]) for _ in range(rng.randrange(1, 4))]
    if pick(): m.r_b = [rng.random() < 0.5 for _ in range(rng.randrange(1, 4))]
    if pick(): m.r_e = [rng.choice(list(Colour)) for _ in range(rng.randrange(1, 4))]
    if pick(): m.r_f = [f32(rng.uniform(-9, 9)) for _ in range(rng.randrange(1, 4))]
    if pick(): m.r_d = [rng.uniform(-9, 9) for _ in range(rng.randrange(1, 3))]
    if pick(): m.r_fx32 = [rng.getrandbits(32) for _ in range(rng.randrange(1, 4))]
    if pick(): m.r_sfx64 = [-rng.getrandbits(60) for _ in range(rng.randrange(1, 3))]
    if pick(): m.r_s = [rng.choice(["", "q", "éé"]) for _ in range(rng.randrange(1, 4))]
    if pick(): m.r_by = [rng.randbytes(rng.randrange(3)) for _ in range(rng.randrange(1, 3))]
    if pick(): m.r_sub = [rand_sub() for _ in range(rng.randrange(1, 3))]
    if pick(): m.m_ii = {rng.randrange(-3, 3): rng.randrange(-3, 3) for _ in range(2)}
    if pick(): m.m_ss = {rng.choice(["", "k", "kk"]): rand_sub(2) for _ in range(2)}
    choice = rng.randrange(5)
    if choice == 0: m.o_i = rng.choice([0, 5])
    if choice == 1: m.o_s = rng.choice(["", "os"])
    if choice == 2: m.o_m = rand_sub(2)
    if pick(): m.opt_i = rng.choice([0, 9])
    if pick(): m.opt_s = rng.choice(["", "opt"])
    if pick(): m.ts = datetime(2001, 2, 3, 4, 5, 6, rng.randrange(10**6), tzinfo=timezone.utc)
    if pick(): m.du = timedelta(seconds=rng.randrange(-9, 9), microseconds=rng.randrange(999))
    if pick(): m.w_i = rng.choice([0, -7])
    if pick(): m.w_s = rng.choice(["", "w"])
    if pick(): m.far = rng.randrange(1, 1000)
    return m


digest = hashlib.sha256()
counts = {"ok": 0, "exc": 0}


def record(label, fn):
    try:
        m = fn()
    except Exception as exc:  # noqa: BLE001
        counts["exc"] += 1
        out = f"{label}|exc|{type(exc).__name__}|{exc}"
        digest.update(out.encode("utf-8", "backslashreplace"))
        return None
    counts["ok"] += 1
    encoded = bytes(m)
    assert len(m) == len(encoded)
    out = f"{label}|ok|{m!r}|{m._unknown_fields.hex()}|{encoded.hex()}"
    digest.update(out.encode("utf-8", "backslashreplace"))
    return m


def decode(data):
    return record(data.hex(), lambda: Rich().parse(data))


def boundaries(data):
    """Offsets at which a top-level field of the valid encoding `data` ends."""
    ends, pos = {0}, 0
    for p in parse_fields(data):
        pos += len(p.raw)
        ends.add(pos)
    assert pos == len(data)
    return ends


valid = [bytes(rand_rich()) for _ in range(60)]
valid += [b"", bytes(Rich(r_i32=list(range(-2, 200)))), bytes(Rich(s="y" * 20000))]

# valid encodings round trip
for data in valid:
    m = decode(data)
    assert m is not None and bytes(m) == data

# every truncation point: accepted exactly at field boundaries
for data in valid[:20]:
    ends = boundaries(data)
    for cut in range(len(data)):
        m = decode(data[:cut])
        assert (m is not None) == (cut in ends), (data.hex(), cut)

# single-byte corruptions at every position
for data in valid[:10]:
    for pos in range(len(data)):
        for mask in (0x01, 0x02, 0x07, 0x80, 0xFF):
            decode(data[:pos] + bytes([data[pos] ^ mask]) + data[pos + 1:])

# wire-type substitutions on every field (and on unknown numbers)
PAYLOADS = {
    0: [b"\x00", b"\x07", b"\xff\xff\xff\xff\xff\xff\xff\xff\xff\x01",
        b"\xff\xff\xff\xff\xff\xff\xff\xff\xff\x7f", b"\x80"],
    1: [bytes(8), b"\xff" * 8, b"\x01" * 7],
    2: [b"\x00", b"\x02\x08\x07", b"\x04\x01\x02\x03\x04", b"\x08" + bytes(8), b"\x03abc",
        b"\x01\x80", b"\x02\xff\xfe", b"\x05\x08\x96\x01\x12\x00", b"\x02\x0b\x0c", b"\x7f"],
    5: [bytes(4), b"\xff" * 4, b"\x01" * 3],
}
numbers = list(Rich._betterproto.field_name_by_number) + [0, 40, 2999, 2**29 - 1, 2**29]
for number in numbers:
    for wire_type in range(8):
        for payload in PAYLOADS.get(wire_type, [b"", b"\x00"]):
            one = encode_varint(number << 3 | wire_type) + payload
            for data in (one, one + one, b"\x08\x05" + one + b"\x7a\x01z", valid[3] + one):
                decode(data)

# sized and size-delimited loads
for data in valid[:12]:
    for size in list(range(len(data) + 2)):
        record(f"sized{size}:{data.hex()}", lambda: Rich().load(BytesIO(data + b"\x08\x01"), size))
    for declared in (0, 1, len(data) - 1, len(data), len(data) + 1):
        if declared < 0:
            continue
        framed = encode_varint(declared) + data
        record(f"delim:{framed.hex()}",
               lambda: Rich().load(BytesIO(framed), betterproto.SIZE_DELIMITED))

# random byte strings, raw and biased towards plausible tags
tags = [encode_varint(n << 3 | w) for n in numbers[:-5] for w in (0, 1, 2, 5)]
for _ in range(6000):
    decode(rng.randbytes(rng.randrange(1, 24)))
for _ in range(6000):
    parts = []
    for _ in range(rng.randrange(1, 5)):
        parts.append(rng.choice(tags))
        parts.append(rng.randbytes(rng.choice([0, 1, 1, 2, 4, 8, 9])))
    decode(b"".join(parts))

print("decoded / rejected:", counts["ok"], counts["exc"])
print("digest:", digest.hexdigest())
assert counts["ok"] > 5000 and counts["exc"] > 5000
if EXPECTED_DIGEST.startswith("@@"):
    raise SystemExit("no reference digest recorded")
assert digest.hexdigest() == EXPECTED_DIGEST, "decoder outcomes differ from the reference"


# --------------------------------------------- 3. agreement with google.protobuf
from google.protobuf import descriptor_pb2, descriptor_pool, message_factory
from google.protobuf.message import DecodeError

F = descriptor_pb2.FieldDescriptorProto
fdp = descriptor_pb2.FileDescriptorProto(name="c17_keep2.proto", package="c17k2", syntax="proto3")
pb_sub = fdp.message_type.add(name="Sub")
pb_sub.field.add(name="a", number=1, type=F.TYPE_INT32, label=F.LABEL_OPTIONAL)
pb_sub.field.add(name="s", number=2, type=F.TYPE_STRING, label=F.LABEL_OPTIONAL)
pb = fdp.message_type.add(name="Small")
SMALL = [
    ("i32", 1, F.TYPE_INT32, F.LABEL_OPTIONAL), ("s64", 2, F.TYPE_SINT64, F.LABEL_OPTIONAL),
    ("d", 3, F.TYPE_DOUBLE, F.LABEL_OPTIONAL), ("fx32", 4, F.TYPE_FIXED32, F.LABEL_OPTIONAL),
    ("s", 5, F.TYPE_STRING, F.LABEL_OPTIONAL), ("by", 6, F.TYPE_BYTES, F.LABEL_OPTIONAL),
    ("r_i32", 8, F.TYPE_INT32, F.LABEL_REPEATED), ("r_f", 9, F.TYPE_FLOAT, F.LABEL_REPEATED),
    ("r_s", 10, F.TYPE_STRING, F.LABEL_REPEATED), ("far", 3000, F.TYPE_UINT32, F.LABEL_OPTIONAL),
]
for name, number, ftype, label in SMALL:
    pb.field.add(name=name, number=number, type=ftype, label=label)
pb.field.add(name="sub", number=7, type=F.TYPE_MESSAGE, type_name=".c17k2.Sub",
             label=F.LABEL_OPTIONAL)
pool = descriptor_pool.DescriptorPool()
pool.Add(fdp)
PbSmall = message_factory.GetMessageClass(pool.FindMessageTypeByName("c17k2.Small"))


@dataclass(eq=False, repr=False)
class SmallSub(betterproto.Message):
    a: int = betterproto.int32_field(1)
    s: str = betterproto.string_field(2)


@dataclass(eq=False, repr=False)
class Small(betterproto.Message):
    i32: int = betterproto.int32_field(1)
    s64: int = betterproto.sint64_field(2)
    d: float = betterproto.double_field(3)
    fx32: int = betterproto.fixed32_field(4)
    s: str = betterproto.string_field(5)
    by: bytes = betterproto.bytes_field(6)
    sub: SmallSub = betterproto.message_field(7)
    r_i32: List[int] = betterproto.int32_field(8)
    r_f: List[float] = betterproto.float_field(9)
    r_s: List[str] = betterproto.string_field(10)
    far: int = betterproto.uint32_field(3000)


def agree(data):
    try:
        ref = PbSmall.FromString(data)
    except DecodeError:
        ref = None
    try:
        got = Small().parse(data)
    except Exception:  # noqa: BLE001
        got = None
    assert (ref is None) == (got is None), (data.hex(), ref, got)
    if got is None:
        return False
    for name, _, _, label in SMALL:
        mine, theirs = getattr(got, name), getattr(ref, name)
        if label == F.LABEL_REPEATED:
            theirs = list(theirs)
        assert repr(mine) == repr(theirs), (data.hex(), name, mine, theirs)
    assert (got.sub.a, got.sub.s) == (ref.sub.a, ref.sub.s), "sub"
    return True


full = Small(i32=-5, s64=-(2**40), d=2.5, fx32=7, s="héllo", by=b"\x00\x01",
             sub=SmallSub(a=300, s="in"), r_i32=[1, -1, 300], r_f=[0.5, -2.0],
             r_s=["", "x"], far=77)
data = bytes(full)
assert PbSmall.FromString(data).SerializeToString() == data
accepted = rejected = 0
for cut in range(len(data) + 1):
    if agree(data[:cut]):
        accepted += 1
    else:
        rejected += 1
assert accepted == len(boundaries(data))
for name, number, _, _ in SMALL + [("sub", 7, None, None), ("unknown", 50, None, None)]:
    for wire_type in range(8):
        for payload in PAYLOADS.get(wire_type, [b"", b"\x00"]):
            if payload[:1] == b"\xff" and wire_type == 0:
                continue  # over-long varints: the libraries truncate differently
            if name == "sub" and wire_type == 2:
                continue  # a second well-formed sub-message: merge vs replace
            one = encode_varint(number << 3 | wire_type) + payload
            for blob in (one, data + one, one + data):
                if agree(blob):
                    accepted += 1
                else:
                    rejected += 1
print("agreement with google.protobuf (accepted/rejected):", accepted, rejected)
assert accepted > 100 and rejected > 100
print("ok")
