"""C05 keep1 equivalence check: _parse_float / _dump_float (the JSON codec of float and
double values: NaN / Infinity / -Infinity as strings).

Part 1 compares betterproto._parse_float and betterproto._dump_float, value by value,
with verbatim copies of the implementations before the refactor (same result type, same
bit pattern, same exception type), over special values, boundary values, spellings that
float() accepts or rejects, non-float inputs and a large random sample.

Part 2 exercises them through Message.to_json / from_json for every position a float
can occupy (singular, optional, oneof, repeated, map value, wrapper, nested) against
google.protobuf.json_format in both directions.
"""
import json
import math
import random
import struct
from dataclasses import dataclass
from typing import Dict, List, Optional

from google.protobuf import descriptor_pb2, descriptor_pool, json_format, message_factory
from google.protobuf import wrappers_pb2  # noqa: F401  (registers wrappers.proto)

import betterproto

F = descriptor_pb2.FieldDescriptorProto
INFINITY, NEG_INFINITY, NAN = betterproto.INFINITY, betterproto.NEG_INFINITY, betterproto.NAN
assert (INFINITY, NEG_INFINITY, NAN) == ("Infinity", "-Infinity", "NaN")


# ------------------------------------------------------------- part 1: unit level
def old_parse_float(value):
    if value == INFINITY:
        return float("inf")
    if value == NEG_INFINITY:
        return -float("inf")
    if value == NAN:
        return float("nan")
    return float(value)


def old_dump_float(value):
    if value == float("inf"):
        return INFINITY
    if value == -float("inf"):
        return NEG_INFINITY
    if isinstance(value, float) and math.isnan(value):
        return NAN
    return value


def same(a, b) -> bool:
    """Same type and same value; floats by bit pattern (NaN, -0.0)."""
    if type(a) is not type(b):
        return False
    if isinstance(a, float):
        return struct.pack("<d", a) == struct.pack("<d", b)
    return a == b


def outcome(fn, arg):
    try:
        return ("ok", fn(arg))
    except Exception as e:  # noqa: BLE001
        return ("raise", type(e))


def agree(old, new, arg):
    o, n = outcome(old, arg), outcome(new, arg)
    assert o[0] == n[0], (arg, o, n)
    if o[0] == "ok":
        assert same(o[1], n[1]), (arg, o, n)
    else:
        assert o[1] is n[1], (arg, o, n)


rng = random.Random(505)
FLT_MAX = 3.4028234663852886e38
float_values = [
    0.0, -0.0, 1.0, -1.0, 0.1, 1.5, -2.25, 1e-7, 1e16, 1e22, 5e-324, -5e-324,
    2.2250738585072014e-308, 1.7976931348623157e308, -1.7976931348623157e308,
    FLT_MAX, -FLT_MAX, 2.0**-126, 2.0**-149, 2.0**53, 2.0**53 + 2, 2.0**63, 2.0**64,
    float("inf"), float("-inf"), float("nan"), -float("nan"), math.inf, -math.inf, math.nan,
    float("inf") - float("inf"), 1e308 * 10, -1e308 * 10,
    struct.unpack("<d", struct.pack("<d", float("nan")))[0],
    struct.unpack("<d", bytes.fromhex("010000000000f07f"))[0],  # signalling-ish NaN payload
    struct.unpack("<d", bytes.fromhex("000000000000f8ff"))[0],  # negative quiet NaN
    struct.unpack("<f", struct.pack("<f", float("nan")))[0],
    struct.unpack("<f", struct.pack("<f", float("inf")))[0],
]
for _ in range(20000):
    float_values.append(struct.unpack("<d", rng.getrandbits(64).to_bytes(8, "little"))[0])
    float_values.append(struct.unpack("<f", rng.getrandbits(32).to_bytes(4, "little"))[0])
    float_values.append(rng.uniform(-1e6, 1e6))


class MyFloat(float):
    pass


other_values = [
    0, 1, -1, 7, 2**31, 2**53 + 1, 2**63, 2**64, -(2**63), 10**30, 10**400, -(10**400),
    True, False, None, "", "x", "Infinity", "-Infinity", "NaN", b"", b"NaN", (), [], {}, [1.0],
    MyFloat("inf"), MyFloat("-inf"), MyFloat("nan"), MyFloat(2.5),
]
for v in float_values + other_values:
    agree(old_dump_float, betterproto._dump_float, v)

# what the encoder returns is what json.dumps will print
for v in float_values:
    got = betterproto._dump_float(v)
    if math.isnan(v):
        assert got == "NaN"
    elif v == math.inf:
        assert got == "Infinity"
    elif v == -math.inf:
        assert got == "-Infinity"
    else:
        assert got is v

spellings = [
    "Infinity", "-Infinity", "NaN", "+Infinity", "infinity", "-infinity", "INFINITY", "inf",
    "-inf", "+inf", "Inf", "nan", "-nan", "+nan", "-NaN", "+NaN", "NAN", "nAn", " NaN", "NaN ",
    " Infinity ", "\tInfinity\n", "Infinity0", "Infinit", "Infinityy", "NaN0", "Na", "N", "I",
    "--Infinity", "- Infinity", "-", "+", "", " ", ".", "e", "1e", "0", "-0", "-0.0", "0.0",
    "1", "1.5", "-2.25", "1e-7", "1E+22", "1_000", "1__0", "0x10", "1.7976931348623157e308",
    "1e309", "-1e309", "5e-324", "1e-400", "3.4028234663852886e+38", " 12 ", "12abc",
    "\u0661\u0662", "\uff11", "1,5", "None", "null", "true",
    b"Infinity", b"-Infinity", b"NaN", b"1.5", b"", bytearray(b"NaN"), bytearray(b"2"),
    0, 1, -1, 2**53 + 1, 2**63, 2**64, 10**30, 10**400, -(10**400), True, False, None,
    [], [1], (), {}, {"a": 1}, ["NaN"], ("Infinity",), object(), 1 + 2j,
    MyFloat("nan"), MyFloat("inf"), MyFloat(1.5),
]
for v in spellings + float_values:
    agree(old_parse_float, betterproto._parse_float, v)
for v in float_values[:5000]:
    # the texts json.dumps / the reference produce for a float
    for text in (repr(v), json.dumps(betterproto._dump_float(v)).strip('"'), f"{v:.17g}", f"{v:e}"):
        agree(old_parse_float, betterproto._parse_float, text)
# random junk strings over the alphabet of the special spellings
alphabet = "InfityNa-+ .e01"
for _ in range(30000):
    text = "".join(rng.choice(alphabet) for _ in range(rng.randint(0, 9)))
    agree(old_parse_float, betterproto._parse_float, text)
assert betterproto._parse_float("Infinity") == math.inf
assert betterproto._parse_float("-Infinity") == -math.inf
assert struct.pack("<d", betterproto._parse_float("NaN")) == struct.pack("<d", float("nan"))
# a fresh object every time (list equality of parsed messages depends on NaN identity)
assert betterproto._parse_float("NaN") is not betterproto._parse_float("NaN")
assert old_parse_float("NaN") is not old_parse_float("NaN")


# ------------------------------------------------------------- part 2: through the messages
# message Floats {
#   double d = 1; float f = 2;
#   repeated double rd = 3; repeated float rf = 4;
#   map<string, double> md = 5; map<int32, float> mf = 6;
#   google.protobuf.DoubleValue wd = 7; google.protobuf.FloatValue wf = 8;
#   oneof pick { double od = 9; float of = 10; }
#   optional double pd = 11;
#   Floats child = 12;
# }
def _build_reference_class():
    fdp = descriptor_pb2.FileDescriptorProto(
        name="c05_keep1_floats.proto", package="c05keep1", syntax="proto3"
    )
    fdp.dependency.append("google/protobuf/wrappers.proto")
    m = fdp.message_type.add(name="Floats")

    def field(name, number, ftype, label=F.LABEL_OPTIONAL, type_name=None, **kw):
        f = m.field.add(name=name, number=number, type=ftype, label=label, **kw)
        if type_name:
            f.type_name = type_name
        return f

    def map_entry(name, ktype, vtype):
        e = m.nested_type.add(name=name)
        e.options.map_entry = True
        e.field.add(name="key", number=1, type=ktype, label=F.LABEL_OPTIONAL)
        e.field.add(name="value", number=2, type=vtype, label=F.LABEL_OPTIONAL)

    field("d", 1, F.TYPE_DOUBLE)
    field("f", 2, F.TYPE_FLOAT)
    field("rd", 3, F.TYPE_DOUBLE, F.LABEL_REPEATED)
    field("rf", 4, F.TYPE_FLOAT, F.LABEL_REPEATED)
    map_entry("MdEntry", F.TYPE_STRING, F.TYPE_DOUBLE)
    field("md", 5, F.TYPE_MESSAGE, F.LABEL_REPEATED, ".c05keep1.Floats.MdEntry")
    map_entry("MfEntry", F.TYPE_INT32, F.TYPE_FLOAT)
    field("mf", 6, F.TYPE_MESSAGE, F.LABEL_REPEATED, ".c05keep1.Floats.MfEntry")
    field("wd", 7, F.TYPE_MESSAGE, type_name=".google.protobuf.DoubleValue")
    field("wf", 8, F.TYPE_MESSAGE, type_name=".google.protobuf.FloatValue")
    m.oneof_decl.add(name="pick")
    field("od", 9, F.TYPE_DOUBLE, oneof_index=0)
    field("of", 10, F.TYPE_FLOAT, oneof_index=0)
    m.oneof_decl.add(name="_pd")
    field("pd", 11, F.TYPE_DOUBLE, oneof_index=1, proto3_optional=True)
    field("child", 12, F.TYPE_MESSAGE, type_name=".c05keep1.Floats")

    pool = descriptor_pool.Default()
    pool.Add(fdp)
    return message_factory.GetMessageClass(pool.FindMessageTypeByName("c05keep1.Floats"))


RefFloats = _build_reference_class()


@dataclass(eq=False, repr=False)
class Floats(betterproto.Message):
    d: float = betterproto.double_field(1)
    f: float = betterproto.float_field(2)
    rd: List[float] = betterproto.double_field(3)
    rf: List[float] = betterproto.float_field(4)
    md: Dict[str, float] = betterproto.map_field(
        5, betterproto.TYPE_STRING, betterproto.TYPE_DOUBLE
    )
    mf: Dict[int, float] = betterproto.map_field(
        6, betterproto.TYPE_INT32, betterproto.TYPE_FLOAT
    )
    wd: Optional[float] = betterproto.message_field(7, wraps=betterproto.TYPE_DOUBLE)
    wf: Optional[float] = betterproto.message_field(8, wraps=betterproto.TYPE_FLOAT)
    od: float = betterproto.double_field(9, group="pick")
    of: float = betterproto.float_field(10, group="pick")
    pd: Optional[float] = betterproto.double_field(11, optional=True, group="_pd")
    child: "Floats" = betterproto.message_field(12)




def canon(ref_msg) -> bytes:
    return ref_msg.SerializeToString(deterministic=True)


def check(msg: Floats, label: str, text_stable: bool = True) -> None:
    ref_view = RefFloats.FromString(bytes(msg))
    text = msg.to_json()
    # non-finite values never reach json.dumps as numbers
    for token in json.loads(text, parse_constant=lambda t: ("BARE", t)).values():
        assert "BARE" not in repr(token), (label, text)
    parsed = json_format.Parse(text, RefFloats())
    assert canon(parsed) == canon(ref_view), (label, text)
    ref_text = json_format.MessageToJson(ref_view)
    back = Floats().from_json(ref_text)
    assert canon(RefFloats.FromString(bytes(back))) == canon(ref_view), (label, ref_text)
    # betterproto's own round trip: same JSON text again
    if text_stable:
        assert Floats().from_json(text).to_json() == text, (label, text)
    # snake casing goes through the same two helpers
    full = msg.to_json(casing=betterproto.Casing.SNAKE)
    assert canon(RefFloats.FromString(bytes(Floats().from_json(full)))) == canon(ref_view), (label, full)


def f32(v: float) -> float:
    return struct.unpack("<f", struct.pack("<f", v))[0]


def unpacked_nan() -> float:
    return struct.unpack("<d", struct.pack("<d", float("nan")))[0]


makers = [(repr(v), (lambda v=v: v), True) for v in
          [1.5, -2.25, 1e-7, 1e22, 1.7976931348623157e308, 5e-324, -0.5, 2.0**53 + 2, 123456789.125]]
makers += [(f"f32 {v!r}", (lambda v=v: f32(v)), False) for v in
           [1.5, -2.25, 0.1, FLT_MAX, -FLT_MAX, 2.0**-126, 2.0**-149, 16777217.0]]
for name, mk in [
    ("inf", lambda: float("inf")), ("-inf", lambda: float("-inf")), ("math.inf", lambda: math.inf),
    ("-math.inf", lambda: -math.inf), ("overflow", lambda: 1e308 * 10), ("math.nan", lambda: math.nan),
    ("float('nan')", lambda: float("nan")), ("unpacked nan", unpacked_nan),
    ("MyFloat nan", lambda: MyFloat("nan")), ("MyFloat -inf", lambda: MyFloat("-inf")),
]:
    makers += [(name, mk, True), (name + " f32", mk, False)]
for _ in range(150):
    v = rng.choice([rng.uniform(-1e9, 1e9), rng.uniform(-1, 1) * 10.0 ** rng.randint(-300, 300)])
    makers.append((repr(v), (lambda v=v: v), True))
    w = f32(rng.uniform(-1, 1) * 10.0 ** rng.randint(-30, 30))
    makers.append((f"f32 {w!r}", (lambda w=w: w), False))

count = 0
for label, mk, is_double in makers:
    if is_double:
        builders = {
            "singular": lambda: Floats(d=mk()),
            "repeated": lambda: Floats(rd=[1.0, mk(), 2.0, mk()]),
            "map value": lambda: Floats(md={"a": mk(), "": 1.0, "b": mk()}),
            "wrapper": lambda: Floats(wd=mk()),
            "oneof": lambda: Floats(od=mk()),
            "optional": lambda: Floats(pd=mk()),
            "nested": lambda: Floats(child=Floats(d=mk(), rd=[mk()], md={"k": mk()})),
        }
    else:
        builders = {
            "singular": lambda: Floats(f=mk()),
            "repeated": lambda: Floats(rf=[1.0, mk(), 2.0, mk()]),
            "map value": lambda: Floats(mf={1: mk(), 0: 1.0, -7: mk()}),
            "wrapper": lambda: Floats(wf=mk()),
            "oneof": lambda: Floats(of=mk()),
            "nested": lambda: Floats(child=Floats(f=mk(), rf=[mk()], mf={5: mk()})),
        }
    for where, build in builders.items():
        msg = build()
        check(msg, f"{label} / {where}")
        check(Floats().parse(bytes(msg)), f"{label} / {where} / from wire")
        count += 2

# integers assigned to float fields stay JSON integers and are read back as floats
ints = Floats(d=3, f=-2, rd=[1, 2**53, 0], md={"a": 7}, wd=5, od=10**15)
assert json.loads(ints.to_json()) == {
    "d": 3, "f": -2, "rd": [1, 2**53, 0], "md": {"a": 7}, "wd": 5, "od": 10**15
}
check(ints, "ints in float fields", text_stable=False)  # 3 is re-emitted as 3.0
back = Floats().from_json(ints.to_json())
assert all(type(x) is float for x in [back.d, back.f, back.wd, back.od, *back.rd, *back.md.values()])

# exact JSON text of the special values, and reading numbers given as JSON strings
specials = Floats(d=float("nan"), f=float("-inf"), rd=[float("inf"), float("nan"), -0.0],
                  md={"n": float("nan")}, wf=float("inf"), pd=float("-inf"))
assert specials.to_json() == (
    '{"d": "NaN", "f": "-Infinity", "rd": ["Infinity", "NaN", -0.0], '
    '"md": {"n": "NaN"}, "wf": "Infinity", "pd": "-Infinity"}'
)
quoted = Floats().from_json('{"d": "1.5", "rd": ["2", "-Infinity", 3, "1e3"], "md": {"k": "NaN"}, "wd": "7.25"}')
assert quoted.d == 1.5 and quoted.rd[0] == 2.0 and quoted.rd[1] == -math.inf and quoted.rd[2:] == [3.0, 1000.0]
assert math.isnan(quoted.md["k"]) and quoted.wd == 7.25
for bad in ('{"d": "Infinit"}', '{"rd": ["NaNN"]}', '{"md": {"k": "--Infinity"}}', '{"d": ""}'):
    try:
        Floats().from_json(bad)
    except ValueError:
        pass
    else:
        raise AssertionError(f"accepted {bad}")

print(f"OK: unit comparison over {len(float_values)} floats and {count + 1} reference round trips")
