"""C06 equivalence check for the refactored varint encoder
(dump_varint / encode_varint / size_varint) and everything that is built on it:
field keys, length prefixes and varint payloads of every emitted field.

Part 1 checks the three functions directly against an independent LEB128
implementation and against google.protobuf's internal encoder.
Part 2 runs the presence matrix of the property (field kind x {never set, default,
non-default} x {constructor, attribute, parse, from_dict}, alone and combined,
small and very large field numbers) against the reference implementation.

Exits 0 on the pristine tree and with the refactor applied.
"""
import dataclasses
import random
from io import BytesIO
from typing import Optional

import betterproto
from betterproto import decode_varint, dump_varint, encode_varint, size_varint
from google.protobuf import (
    descriptor_pb2,
    descriptor_pool,
    json_format,
    message_factory,
    wrappers_pb2,
)
from google.protobuf.internal import encoder as pb_encoder

# =========================================================================== #
# Part 1: the varint functions themselves
# =========================================================================== #


def spec_varint(value: int) -> bytes:
    """Independent LEB128 encoder (64-bit two's complement for negatives)."""
    if value < 0:
        value += 1 << 64
    out = []
    while True:
        low = value % 128
        value //= 128
        if value:
            out.append(low + 128)
        else:
            out.append(low)
            return bytes(out)


class CountingStream:
    def __init__(self):
        self.data = b""

    def write(self, chunk):
        assert isinstance(chunk, (bytes, bytearray))
        self.data += bytes(chunk)
        return len(chunk)


values = set()
for k in range(0, 72):
    for delta in (-2, -1, 0, 1, 2):
        v = (1 << k) + delta
        values.add(v)
        values.add(-v)
for k in range(1, 11):
    values.update({(1 << (7 * k)) - 1, 1 << (7 * k), (1 << (7 * k)) + 1})
rng = random.Random(6)
for _ in range(3000):
    bits = rng.randrange(1, 70)
    values.add(rng.getrandbits(bits))
    values.add(-rng.getrandbits(min(bits, 63)))
values.update(range(-300, 300))

MSG = "Negative value is not representable as a 64-bit integer - unable to encode a varint within 10 bytes."
n_ok = n_err = 0
for v in sorted(values):
    if v < -(1 << 63):
        for fn in (encode_varint, size_varint, lambda x: dump_varint(x, BytesIO())):
            try:
                fn(v)
            except ValueError as e:
                assert str(e) == MSG, e
            else:
                raise AssertionError(f"no ValueError for {v}")
        # nothing may have been written before the error
        s = CountingStream()
        try:
            dump_varint(v, s)
        except ValueError:
            pass
        assert s.data == b""
        n_err += 1
        continue
    expected = spec_varint(v)
    got = encode_varint(v)
    assert type(got) is bytes and got == expected, (v, got, expected)
    assert size_varint(v) == len(expected), v
    assert type(size_varint(v)) is int
    with BytesIO() as stream:
        assert dump_varint(v, stream) is None
        assert stream.getvalue() == expected, v
    s = CountingStream()
    dump_varint(v, s)
    assert s.data == expected
    # appended after existing content, nothing else touched
    with BytesIO() as stream:
        stream.write(b"abc")
        dump_varint(v, stream)
        assert stream.getvalue() == b"abc" + expected
    if v < (1 << 64):
        assert pb_encoder._VarintBytes(v & ((1 << 64) - 1)) == expected, v
        if -(1 << 63) <= v < (1 << 63):
            assert pb_encoder._SignedVarintSize(v) == len(expected), v
        if v >= 0:
            assert pb_encoder._VarintSize(v) == len(expected), v
        # round trip through the decoder
        back, pos = decode_varint(expected, 0)
        assert pos == len(expected) and back == (v & ((1 << 64) - 1)), v
    n_ok += 1
assert n_ok > 3000 and n_err > 10

# the well-known boundary sizes
for k in range(1, 10):
    assert size_varint((1 << (7 * k)) - 1) == k and size_varint(1 << (7 * k)) == k + 1
assert size_varint(0) == 1 and encode_varint(0) == b"\x00"
assert size_varint(-1) == 10 and encode_varint(-1) == b"\xff" * 9 + b"\x01"
assert encode_varint(-(1 << 63)) == b"\x80" * 9 + b"\x01"
assert encode_varint((1 << 64) - 1) == b"\xff" * 9 + b"\x01"
assert encode_varint(1 << 64) == b"\x80" * 9 + b"\x02" and size_varint(1 << 64) == 10
assert size_varint(1 << 70) == 11 == len(encode_varint(1 << 70))


# bools and enum members are ints too
class Kind(betterproto.Enum):
    ZERO = 0
    ONE = 1
    TWO = 2
    BIG = 300
    NEG = -1


for v, expected in (
    (False, b"\x00"),
    (True, b"\x01"),
    (Kind.ZERO, b"\x00"),
    (Kind.TWO, b"\x02"),
    (Kind.BIG, b"\xac\x02"),
    (Kind.NEG, b"\xff" * 9 + b"\x01"),
):
    got = encode_varint(v)
    assert type(got) is bytes and got == expected, (v, got)
    assert size_varint(v) == len(expected)
    with BytesIO() as stream:
        dump_varint(v, stream)
        assert stream.getvalue() == expected

# =========================================================================== #
# Part 2: presence matrix against the reference implementation
# =========================================================================== #
F = descriptor_pb2.FieldDescriptorProto
bp = betterproto


@dataclasses.dataclass(eq=False, repr=False)
class Sub(betterproto.Message):
    val: int = betterproto.int32_field(1)
    name: str = betterproto.string_field(2)


@dataclasses.dataclass(eq=False, repr=False)
class Empty(betterproto.Message):
    pass


# suffix, betterproto field function, python type, descriptor type, default, non-defaults
SCALARS = [
    ("i32", bp.int32_field, int, F.TYPE_INT32, 0, [-7, 2**31 - 1, 128]),
    ("i64", bp.int64_field, int, F.TYPE_INT64, 0, [2**40 + 3, -(2**63)]),
    ("u32", bp.uint32_field, int, F.TYPE_UINT32, 0, [4000000000, 127]),
    ("u64", bp.uint64_field, int, F.TYPE_UINT64, 0, [2**64 - 1, 16384]),
    ("s32", bp.sint32_field, int, F.TYPE_SINT32, 0, [-(2**31), 64]),
    ("s64", bp.sint64_field, int, F.TYPE_SINT64, 0, [-(2**63), 2**63 - 1]),
    ("b", bp.bool_field, bool, F.TYPE_BOOL, False, [True]),
    ("f32", bp.fixed32_field, int, F.TYPE_FIXED32, 0, [2**32 - 1]),
    ("f64", bp.fixed64_field, int, F.TYPE_FIXED64, 0, [2**64 - 1]),
    ("sf32", bp.sfixed32_field, int, F.TYPE_SFIXED32, 0, [-5]),
    ("sf64", bp.sfixed64_field, int, F.TYPE_SFIXED64, 0, [-(2**63)]),
    ("fl", bp.float_field, float, F.TYPE_FLOAT, 0.0, [2.5, -0.125]),
    ("db", bp.double_field, float, F.TYPE_DOUBLE, 0.0, [-1e300, 0.1]),
    ("st", bp.string_field, str, F.TYPE_STRING, "", ["héllo", "x" * 200]),
    ("by", bp.bytes_field, bytes, F.TYPE_BYTES, b"", [b"\x00\xff", b"z" * 130]),
    ("en", bp.enum_field, Kind, F.TYPE_ENUM, Kind.ZERO, [Kind.TWO, Kind.BIG]),
]
WRAPPERS = [
    ("i32", bp.TYPE_INT32, int, "Int32Value", 0, [-3, 300]),
    ("i64", bp.TYPE_INT64, int, "Int64Value", 0, [-(2**63)]),
    ("u32", bp.TYPE_UINT32, int, "UInt32Value", 0, [2**32 - 1]),
    ("u64", bp.TYPE_UINT64, int, "UInt64Value", 0, [2**64 - 1]),
    ("fl", bp.TYPE_FLOAT, float, "FloatValue", 0.0, [2.5]),
    ("db", bp.TYPE_DOUBLE, float, "DoubleValue", 0.0, [1e-300]),
    ("b", bp.TYPE_BOOL, bool, "BoolValue", False, [True]),
    ("st", bp.TYPE_STRING, str, "StringValue", "", ["w" * 128]),
    ("by", bp.TYPE_BYTES, bytes, "BytesValue", b"", [b"\x01"]),
]
BIG_NUMBER = 2**29 - 1

bp_fields = []  # (name, type, dataclass field)
ref_fields = []  # kwargs for FieldDescriptorProto
ref_oneofs = ["choice", "other"]
IMPLICIT, OPTIONAL, ONEOF, WRAPPED, PLAIN_MSG = [], [], [], [], []
VARIANTS = {}  # name -> (default value, [non default values])
MSG_FIELDS = set()
ENUM_FIELDS = set()
WRAPPER_FIELDS = set()


def add_ref(name, number, ftype, **kw):
    ref_fields.append(dict(name=name, number=number, type=ftype, label=F.LABEL_OPTIONAL, **kw))


def type_kw(ftype):
    return {"type_name": ".c06.Kind"} if ftype == F.TYPE_ENUM else {}


def add_optional_ref(name, number, ftype, **kw):
    ref_oneofs.append("_" + name)
    add_ref(name, number, ftype, oneof_index=len(ref_oneofs) - 1, proto3_optional=True, **kw)


# implicit presence scalars 1..16, plain sub-message 17, field-less sub-message 18
for i, (sfx, fn, pt, ft, dflt, nd) in enumerate(SCALARS):
    name = "imp_" + sfx
    bp_fields.append((name, pt, fn(1 + i)))
    add_ref(name, 1 + i, ft, **type_kw(ft))
    IMPLICIT.append(name)
    VARIANTS[name] = (dflt, nd)
    if ft == F.TYPE_ENUM:
        ENUM_FIELDS.add(name)
bp_fields.append(("plain", Sub, bp.message_field(17)))
add_ref("plain", 17, F.TYPE_MESSAGE, type_name=".c06.Sub")
bp_fields.append(("nothing", Empty, bp.message_field(18)))
add_ref("nothing", 18, F.TYPE_MESSAGE, type_name=".c06.Empty")
PLAIN_MSG += ["plain", "nothing"]
MSG_FIELDS.update(PLAIN_MSG)

# proto3 optional 21..37
for i, (sfx, fn, pt, ft, dflt, nd) in enumerate(SCALARS):
    name = "opt_" + sfx
    bp_fields.append((name, Optional[pt], fn(21 + i, optional=True)))
    add_optional_ref(name, 21 + i, ft, **type_kw(ft))
    OPTIONAL.append(name)
    VARIANTS[name] = (dflt, nd)
    if ft == F.TYPE_ENUM:
        ENUM_FIELDS.add(name)
bp_fields.append(("opt_msg", Optional[Sub], bp.message_field(37, optional=True)))
add_optional_ref("opt_msg", 37, F.TYPE_MESSAGE, type_name=".c06.Sub")
OPTIONAL.append("opt_msg")
MSG_FIELDS.add("opt_msg")

# oneof "choice" 41..57
for i, (sfx, fn, pt, ft, dflt, nd) in enumerate(SCALARS):
    name = "one_" + sfx
    bp_fields.append((name, pt, fn(41 + i, group="choice")))
    add_ref(name, 41 + i, ft, oneof_index=0, **type_kw(ft))
    ONEOF.append(name)
    VARIANTS[name] = (dflt, nd)
    if ft == F.TYPE_ENUM:
        ENUM_FIELDS.add(name)
bp_fields.append(("one_msg", Sub, bp.message_field(57, group="choice")))
add_ref("one_msg", 57, F.TYPE_MESSAGE, type_name=".c06.Sub", oneof_index=0)
ONEOF.append("one_msg")
MSG_FIELDS.add("one_msg")

# wrappers 61..69
for i, (sfx, wt, pt, ref_name, dflt, nd) in enumerate(WRAPPERS):
    name = "wrap_" + sfx
    bp_fields.append((name, Optional[pt], bp.message_field(61 + i, wraps=wt)))
    add_ref(name, 61 + i, F.TYPE_MESSAGE, type_name=".google.protobuf." + ref_name)
    WRAPPED.append(name)
    WRAPPER_FIELDS.add(name)
    VARIANTS[name] = (dflt, nd)

# second oneof group "other" 2047 / 2048 (two-byte / three-byte keys)
OTHER = ["oth_st", "oth_msg", "oth_wrap"]
bp_fields.append(("oth_st", str, bp.string_field(2047, group="other")))
add_ref("oth_st", 2047, F.TYPE_STRING, oneof_index=1)
VARIANTS["oth_st"] = ("", ["other"])
bp_fields.append(("oth_msg", Sub, bp.message_field(2048, group="other")))
add_ref("oth_msg", 2048, F.TYPE_MESSAGE, type_name=".c06.Sub", oneof_index=1)
MSG_FIELDS.add("oth_msg")
bp_fields.append(
    ("oth_wrap", Optional[int], bp.message_field(2049, wraps=bp.TYPE_INT32, group="other"))
)
add_ref("oth_wrap", 2049, F.TYPE_MESSAGE, type_name=".google.protobuf.Int32Value", oneof_index=1)
WRAPPER_FIELDS.add("oth_wrap")
VARIANTS["oth_wrap"] = (0, [77])

# the largest possible field number (five-byte key)
bp_fields.append(("opt_big", Optional[int], bp.int32_field(BIG_NUMBER, optional=True)))
add_optional_ref("opt_big", BIG_NUMBER, F.TYPE_INT32)
OPTIONAL.append("opt_big")
VARIANTS["opt_big"] = (0, [-1, 5])

MSG_VARIANTS = (Sub(), [Sub(val=9), Sub(name="n" * 150), Sub(val=-1, name="q")])

All = dataclasses.make_dataclass(
    "All", bp_fields, bases=(betterproto.Message,), eq=False, repr=False
)
All.__module__ = __name__


def build_reference():
    pool = descriptor_pool.DescriptorPool()
    pool.AddSerializedFile(wrappers_pb2.DESCRIPTOR.serialized_pb)
    fd = descriptor_pb2.FileDescriptorProto(
        name="c06_equiv.proto",
        package="c06",
        syntax="proto3",
        dependency=["google/protobuf/wrappers.proto"],
    )
    enum = fd.enum_type.add(name="Kind")
    for member in Kind:
        enum.value.add(name=member.name, number=int(member))
    sub = fd.message_type.add(name="Sub")
    sub.field.add(name="val", number=1, type=F.TYPE_INT32, label=F.LABEL_OPTIONAL)
    sub.field.add(name="name", number=2, type=F.TYPE_STRING, label=F.LABEL_OPTIONAL)
    fd.message_type.add(name="Empty")
    msg = fd.message_type.add(name="All")
    for name in ref_oneofs:
        msg.oneof_decl.add(name=name)
    for kw in ref_fields:
        msg.field.add(**kw)
    pool.Add(fd)
    get = message_factory.GetMessageClass
    return tuple(
        get(pool.FindMessageTypeByName("c06." + n)) for n in ("Sub", "Empty", "All")
    )


RefSub, RefEmpty, RefAll = build_reference()
PRESENCE = OPTIONAL + WRAPPED + PLAIN_MSG
GROUPS = {"choice": ONEOF, "other": OTHER}


def ref_set(ref, name, value):
    if name in MSG_FIELDS:
        child = getattr(ref, name)
        child.SetInParent()
        if isinstance(value, Sub):
            child.val = value.val
            child.name = value.name
            child.SetInParent()
    elif name in WRAPPER_FIELDS:
        child = getattr(ref, name)
        child.SetInParent()
        child.value = value
    elif name in ENUM_FIELDS:
        setattr(ref, name, int(value))
    else:
        setattr(ref, name, value)


def copy_value(value):
    if isinstance(value, Sub):
        # built by the constructor exactly like the original
        kwargs = {}
        if value.is_set("val"):
            kwargs["val"] = value.val
        if value.is_set("name"):
            kwargs["name"] = value.name
        return Sub(**kwargs)
    if isinstance(value, Empty):
        return Empty()
    return value


def check_presence(msg, ref, label):
    for name in PRESENCE:
        assert msg.is_set(name) == ref.HasField(name), (label, name)
    for name in MSG_FIELDS & set(PLAIN_MSG):
        raw_set = betterproto.serialized_on_wire(getattr(msg, name))
        assert raw_set == ref.HasField(name), (label, name)
    for group, members in GROUPS.items():
        which = betterproto.which_one_of(msg, group)[0]
        assert which == (ref.WhichOneof(group) or ""), (label, group, which)
        for name in members:
            assert msg.is_set(name) == (which == name), (label, name)


def check(msg, ref, label):
    ref_bytes = ref.SerializeToString()
    data = bytes(msg)
    assert data == ref_bytes, (label, data, ref_bytes)
    assert len(msg) == len(ref_bytes), (label, len(msg), len(ref_bytes))
    assert msg.SerializeToString() == ref_bytes
    with BytesIO() as stream:
        msg.dump(stream, betterproto.SIZE_DELIMITED)
        assert stream.getvalue() == encode_varint(len(ref_bytes)) + ref_bytes, label
    check_presence(msg, ref, label)
    decoded = All().parse(ref_bytes)
    check_presence(decoded, ref, label + " (decoded)")
    assert bytes(decoded) == ref_bytes, (label, bytes(decoded), ref_bytes)
    assert decoded == msg, label
    with BytesIO(encode_varint(len(ref_bytes)) + ref_bytes + b"tail") as stream:
        delimited = All().load(stream, betterproto.SIZE_DELIMITED)
        assert stream.read() == b"tail"
    assert bytes(delimited) == ref_bytes, label


def run_spec(spec, label):
    """spec: list of (field name, value); at most one member per oneof group."""
    ref = RefAll()
    for name, value in spec:
        ref_set(ref, name, value)

    # via constructor
    check(All(**{n: copy_value(v) for n, v in spec}), ref, label + " ctor")
    # via attribute assignment
    msg = All()
    for name, value in spec:
        setattr(msg, name, copy_value(value))
    check(msg, ref, label + " attr")
    # via parse
    check(All().parse(ref.SerializeToString()), ref, label + " parse")
    check(All.FromString(ref.SerializeToString()), ref, label + " FromString")
    # via from_dict (both key styles, class and instance form)
    for keep_names in (False, True):
        as_dict = json_format.MessageToDict(ref, preserving_proto_field_name=keep_names)
        check(All.from_dict(as_dict), ref, label + " from_dict")
        check(All().from_dict(as_dict), ref, label + " instance from_dict")


def variants(name):
    if name in MSG_FIELDS:
        if name == "nothing":
            return [Empty()]
        if name == "plain":
            # a plain sub-message is present once something was assigned inside it
            return [Sub(val=0), Sub(name="")] + MSG_VARIANTS[1]
        return [MSG_VARIANTS[0], Sub(val=0)] + MSG_VARIANTS[1]
    default, non_default = VARIANTS[name]
    return [default] + list(non_default)


# --- never set --------------------------------------------------------------- #
fresh = All()
assert bytes(fresh) == b"" and len(fresh) == 0
assert RefAll().SerializeToString() == b""
check(fresh, RefAll(), "fresh")
for name in IMPLICIT:
    value = getattr(fresh, name)
    assert value == VARIANTS[name][0] and type(value) is type(VARIANTS[name][0]), name
for name in OPTIONAL + WRAPPED:
    assert getattr(fresh, name) is None, name
assert fresh.plain == Sub() and not betterproto.serialized_on_wire(fresh.plain)
for name in ONEOF + OTHER:
    try:
        getattr(fresh, name)
    except AttributeError:
        pass
    else:
        raise AssertionError(name)
assert bytes(fresh) == b"", "reading must not set anything"
check(fresh, RefAll(), "fresh after reads")

# an untouched default instance in a plain sub-message field is not present
untouched = All(plain=Sub())
assert bytes(untouched) == b"" and not untouched.is_set("plain")
untouched = All()
untouched.plain = Sub()
assert bytes(untouched) == b"" and not untouched.is_set("plain")

# --- every field alone, every variant, every way of setting it --------------- #
count = 0
for name, _, _ in bp_fields:
    for value in variants(name):
        if name in IMPLICIT and value == VARIANTS[name][0]:
            # implicit presence holding the default: never emitted
            for msg in (All(**{name: value}), All()):
                setattr(msg, name, value)
                assert bytes(msg) == b"" and len(msg) == 0, name
            continue
        run_spec([(name, value)], f"{name}={value!r}")
        count += 1
assert count > 150

# something assigned inside a plain / materialised sub-message
msg, ref = All(), RefAll()
msg.plain.val = 0
ref.plain.val = 0
ref.plain.SetInParent()
check(msg, ref, "plain.val = 0 in place")
msg.plain.name = "x" * 300
ref.plain.name = "x" * 300
check(msg, ref, "plain.name in place")

# --- combinations -------------------------------------------------------------- #
rng = random.Random(2006)
all_single = IMPLICIT + PLAIN_MSG + OPTIONAL + WRAPPED
for round_no in range(120):
    spec = []
    for name in rng.sample(all_single, rng.randrange(0, 12)):
        spec.append((name, rng.choice(variants(name))))
    for members in GROUPS.values():
        if rng.random() < 0.8:
            name = rng.choice(members)
            spec.append((name, rng.choice(variants(name))))
    rng.shuffle(spec)
    run_spec(spec, f"combo {round_no}")

# everything at once, all defaults / all non-defaults
for pick in (lambda vs: vs[0], lambda vs: vs[-1]):
    spec = [(n, pick(variants(n))) for n in all_single]
    spec += [("one_msg", pick(variants("one_msg"))), ("oth_wrap", pick(variants("oth_wrap")))]
    run_spec(spec, "everything")

# oneof members assigned one after the other: the last one wins on both sides
for round_no in range(40):
    msg, ref = All(), RefAll()
    for _ in range(rng.randrange(2, 6)):
        group = rng.choice(list(GROUPS))
        name = rng.choice(GROUPS[group])
        value = rng.choice(variants(name))
        setattr(msg, name, copy_value(value))
        ref_set(ref, name, value)
    check(msg, ref, f"oneof sequence {round_no}")

# --- hand made wire data: unknown numbers, foreign wire types, empty payloads -- #
WIRE = [
    b"",
    b"\xa8\x01\x00",  # opt_i32 = 0
    b"\xaa\x01\x00",  # opt_i32 number, length-delimited: not the field
    b"\xad\x01\x00\x00\x00\x00",  # opt_i32 number, fixed32: not the field
    b"\xc8\x02\x05\xcd\x02\x01\x00\x00\x00",  # one_i32 = 5, then its number as fixed32
    b"\x8a\x01\x00",  # plain, empty payload
    b"\x8a\x01\x03\xf8\x07\x01",  # plain with an unknown field only
    b"\x88\x01\x01",  # plain number as varint
    b"\xea\x03\x00",  # wrap_i32 with empty payload
    b"\xe8\x03\x07",  # wrap_i32 number as varint
    b"\xca\x03\x00\xfa\x7f\x00",  # one_msg empty, oth_st empty
    b"\x82\x80\x01\x00\x8a\x80\x01\x00",  # oth_msg then oth_wrap
    b"\xc0\x3e\x01",  # unknown number 1000
    b"\xf8\xff\xff\xff\x0f\x00",  # opt_big = 0
    b"\xf8\xff\xff\xff\x0f\xff\xff\xff\xff\xff\xff\xff\xff\xff\x01",  # opt_big = -1
    b"\x92\x01\x00",  # nothing (field-less message) received
    b"\xaa\x02\x00\xaa\x02\x02\x08\x03",  # opt_msg twice
]
for data in WIRE:
    ref = RefAll.FromString(data)
    decoded = All().parse(data)
    check_presence(decoded, ref, repr(data))
    assert len(decoded) == len(bytes(decoded))
    again = All().parse(bytes(decoded))
    check_presence(again, ref, repr(data) + " re-encoded")
    assert bytes(again) == bytes(decoded)

print("C06 keep1 equiv: OK")
