"""C03 keep2: cross-package type references (betterproto.compile.importing).

1. get_type_reference is compared, for every ordered pair of packages from a small
   component alphabet (depth <= 4, with components that are string prefixes of each
   other), against an independent oracle that derives the relative import from the
   meaning of the import statement, and the import statement is *executed* against a
   fake package tree to see that it binds the right module.
2. The documented examples of tests/test_get_ref_type.py.
3. Whole pipeline: protoc -> plugin -> import of a multi-package schema (root package,
   siblings, children, grandchildren, parents, cousins, look-alike package names,
   well-known types); every message/enum typed field must resolve to the class
   generated for the schema type it names.

Exits 0 on the pristine tree and with the refactor applied.
Run:  PYTHONPATH=/tmp/wt/R7C03/src /venv/bin/python equiv.py
"""
import dataclasses
import importlib
import itertools
import os
import re
import sys
import tempfile
import typing
from datetime import datetime, timedelta

import grpc_tools
from grpc_tools import protoc

import betterproto
import betterproto.plugin.compiler as plugin_compiler
from betterproto import casing
from betterproto.compile.importing import get_type_reference, parse_source_type_name
from betterproto.lib.google.protobuf import FileDescriptorSet
from betterproto.lib.google.protobuf.compiler import CodeGeneratorRequest
from betterproto.plugin.models import monkey_patch_oneof_index
from betterproto.plugin.parser import generate_code
from betterproto.plugin.typing_compiler import (
    DirectImportTypingCompiler,
    NoTyping310TypingCompiler,
    TypingImportTypingCompiler,
)

plugin_compiler.subprocess.check_output = lambda cmd, input, encoding: input
monkey_patch_oneof_index()
WKT_INCLUDE = os.path.join(os.path.dirname(grpc_tools.__file__), "_proto")


# --------------------------------------------------------------------------
# 1. exhaustive package topologies
# --------------------------------------------------------------------------
def oracle_reference(current, target, py_type):
    """(import line or None, reference) for a type of package `target` (list of
    components) used inside package `current`."""
    if current == target:
        return None, f'"{py_type}"'
    shared = 0
    while shared < min(len(current), len(target)) and current[shared] == target[shared]:
        shared += 1
    up = len(current) - shared
    if shared == len(current):  # strictly below
        rest = target[shared:]
        if len(rest) == 1:
            return f"from . import {rest[0]}", f'"{rest[0]}.{py_type}"'
        alias = "_".join(rest)
        return (f"from .{'.'.join(rest[:-1])} import {rest[-1]} as {alias}",
                f'"{alias}.{py_type}"')
    if shared == len(target):  # strictly above
        if target:
            alias = f"_{'_' * up}{target[-1]}__"
            return f"from ..{'.' * up} import {target[-1]} as {alias}", f'"{alias}.{py_type}"'
        alias = f"{'_' * up}{py_type}__"
        return f"from .{'.' * up} import {py_type} as {alias}", f'"{alias}"'
    rest = target[shared:]
    alias = "_" * up + casing.safe_snake_case(".".join(rest)) + "__"
    return (f"from .{'.' * up}{'.'.join(rest[:-1])} import {rest[-1]} as {alias}",
            f'"{alias}.{py_type}"')


IMPORT_RE = re.compile(r"^from (\.+)([\w.]*) import (\w+)(?: as (\w+))?$")


def resolve_import(current, line):
    """What does `line`, executed in package ROOT.<current>, bind?  Returns
    (bound name, absolute dotted path below ROOT) following Python's rules for
    relative imports (one leading dot = the current package)."""
    m = IMPORT_RE.match(line)
    assert m, line
    dots, tail, name, alias = m.groups()
    base = ["ROOT", *current]
    assert len(dots) - 1 < len(base), f"relative import beyond top-level: {line}"
    base = base[: len(base) - (len(dots) - 1)]
    if tail:
        base += tail.split(".")
    return alias or name, base[1:] + [name]


def check_topologies():
    components = ["a", "ab", "b", "a_b"]
    packages = [[]]
    for depth in range(1, 4):
        packages += [list(p) for p in itertools.product(components[:3], repeat=depth)]
    packages += [["a", "a_b"], ["a_b"], ["a_b", "a"], ["a", "b", "a", "b"], ["a", "b", "a", "ab"],
                 ["v1"], ["v1beta"], ["v1", "beta"], ["x", "v1"], ["x", "v1beta"], ["x", "v10", "y"]]
    compilers = [DirectImportTypingCompiler, TypingImportTypingCompiler, NoTyping310TypingCompiler]
    n = 0
    for current, target in itertools.product(packages, repeat=2):
        for type_name, py_type in (("Message", "Message"), ("Outer.Inner", "OuterInner"),
                                   ("some_enum", "SomeEnum")):
            source_type = ".".join(["", *target, type_name])
            # the package/type split itself
            assert parse_source_type_name(source_type) == (".".join(target), type_name)
            imports = set()
            tc = compilers[n % 3]()
            ref = get_type_reference(
                package=".".join(current), imports=imports, source_type=source_type,
                typing_compiler=tc, unwrap=bool(n % 2), pydantic=False,
            )
            exp_import, exp_ref = oracle_reference(current, target, py_type)
            assert ref == exp_ref, (current, target, ref, exp_ref)
            assert imports == ({exp_import} if exp_import else set()), (current, target, imports)
            assert tc.imports() == {}  # plain references need no typing import
            # semantic check: the import binds the module (or class) the reference uses
            if exp_import:
                bound, path = resolve_import(current, exp_import)
                head, _, attr = ref.strip('"').partition(".")
                assert head == bound
                if attr:
                    assert path == target and attr == py_type, (current, target, exp_import)
                else:  # class imported straight from the root package
                    assert target == [] and path == [py_type]
            n += 1
    return n


# --------------------------------------------------------------------------
# 2. documented examples
# --------------------------------------------------------------------------
EXAMPLES = [
    # (package, source_type, imports, reference)
    ("package", "package.child.Message", {"from . import child"}, '"child.Message"'),
    ("", "child.Message", {"from . import child"}, '"child.Message"'),
    ("", "child_package.example_message", {"from . import child_package"},
     '"child_package.ExampleMessage"'),
    ("", "nested.child.Message", {"from .nested import child as nested_child"},
     '"nested_child.Message"'),
    ("", "deeply.nested.child.Message",
     {"from .deeply.nested import child as deeply_nested_child"}, '"deeply_nested_child.Message"'),
    ("package", "package.deeply.nested.child.Message",
     {"from .deeply.nested import child as deeply_nested_child"}, '"deeply_nested_child.Message"'),
    ("", "Message", set(), '"Message"'),
    ("foo", "foo.Message", set(), '"Message"'),
    ("foo.bar", "foo.bar.Message", set(), '"Message"'),
    ("package.child", "package.Message", {"from ... import package as __package__"},
     '"__package__.Message"'),
    ("package.deeply.nested.child", "package.Message",
     {"from ..... import package as ____package__"}, '"____package__.Message"'),
    ("package.ancestor.nested.child", "package.ancestor.Message",
     {"from .... import ancestor as ___ancestor__"}, '"___ancestor__.Message"'),
    ("package.child", "Message", {"from ... import Message as __Message__"}, '"__Message__"'),
    ("package.deeply.nested.child", "Message", {"from ..... import Message as ____Message__"},
     '"____Message__"'),
    ("a", "p.Message", {"from .. import p as _p__"}, '"_p__.Message"'),
    ("a.b", "p.q.Message", {"from ...p import q as __p_q__"}, '"__p_q__.Message"'),
    ("a.b.c.d", "p.q.r.s.Message", {"from .....p.q.r import s as ____p_q_r_s__"},
     '"____p_q_r_s__.Message"'),
    ("a.x", "a.y.Message", {"from .. import y as _y__"}, '"_y__.Message"'),
    ("test.package1", "cousin.package2.Message",
     {"from ...cousin import package2 as __cousin_package2__"}, '"__cousin_package2__.Message"'),
    ("test.package", "cousin.package.Message",
     {"from ...cousin import package as __cousin_package__"}, '"__cousin_package__.Message"'),
    ("a.x.y", "a.b.c.Message", {"from ...b import c as __b_c__"}, '"__b_c__.Message"'),
    ("a.x.y.z", "a.b.c.d.Message", {"from ....b.c import d as ___b_c_d__"},
     '"___b_c_d__.Message"'),
    # look-alike names: string prefix but not a parent package
    ("shop", "shopping.cart.Item", {"from ..shopping import cart as _shopping_cart__"},
     '"_shopping_cart__.Item"'),
    ("api.v1", "api.v1beta.X", {"from .. import v1beta as _v1_beta__"}, '"_v1_beta__.X"'),
    ("api.v1beta", "api.v1.X", {"from .. import v1 as _v1__"}, '"_v1__.X"'),
    ("api.v1", "api.v1.beta.X", {"from . import beta"}, '"beta.X"'),
    # google types from elsewhere / from inside google.protobuf
    ("", ".google.protobuf.Struct", {"import betterproto.lib.google.protobuf as betterproto_lib_google_protobuf"},
     '"betterproto_lib_google_protobuf.Struct"'),
    ("google.protobuf", ".google.protobuf.Struct", set(), '"Struct"'),
    ("google.protobuf.compiler", ".google.protobuf.FileDescriptorProto",
     {"import betterproto.lib.google.protobuf as betterproto_lib_google_protobuf"},
     '"betterproto_lib_google_protobuf.FileDescriptorProto"'),
    ("google.protobuf", ".google.protobuf.compiler.Version", {"from . import compiler"},
     '"compiler.Version"'),
    ("google", ".google.protobuf.Any",
     {"import betterproto.lib.google.protobuf as betterproto_lib_google_protobuf"},
     '"betterproto_lib_google_protobuf.Any"'),
]


def check_examples():
    for package, source_type, exp_imports, exp_ref in EXAMPLES:
        for source in (source_type, "." + source_type.lstrip(".")):
            imports = set()
            ref = get_type_reference(package=package, imports=imports, source_type=source,
                                     typing_compiler=DirectImportTypingCompiler())
            assert (ref, imports) == (exp_ref, exp_imports), (package, source, ref, imports)
    # unwrapping and pydantic are decided before any package logic
    for package in ("", "a", "a.b", "google.protobuf"):
        tc = DirectImportTypingCompiler()
        imports = set()
        assert get_type_reference(package=package, imports=imports, typing_compiler=tc,
                                  source_type=".google.protobuf.Int32Value") == "Optional[int]"
        assert get_type_reference(package=package, imports=imports, typing_compiler=tc,
                                  source_type=".google.protobuf.Duration") == "timedelta"
        assert get_type_reference(package=package, imports=imports, typing_compiler=tc,
                                  source_type=".google.protobuf.Timestamp") == "datetime"
        assert imports == set()
    imports = set()
    assert get_type_reference(
        package="a.b", imports=imports, source_type=".google.protobuf.Duration",
        typing_compiler=DirectImportTypingCompiler(), unwrap=False, pydantic=True,
    ) == '"betterproto_lib_pydantic_google_protobuf.Duration"'
    assert imports == {
        "import betterproto.lib.pydantic.google.protobuf as betterproto_lib_pydantic_google_protobuf"}
    return len(EXAMPLES)


# --------------------------------------------------------------------------
# 3. whole pipeline
# --------------------------------------------------------------------------
PACKAGES = ["", "a", "a.b", "a.b.c", "a.bb", "ab", "ab.c", "z.y.x", "a.d.e.f"]


def pkg_file(pkg):
    return ("root" if not pkg else pkg.replace(".", "_")) + ".proto"


def type_of(pkg):
    """Every package defines message M<tag>, nested message M<tag>.In and enum K<tag>."""
    tag = "Root" if not pkg else "".join(p.capitalize() for p in pkg.split("."))
    return tag


def norm(hint):
    """List[X] == list[X], Optional[X] == X | None, ... (typing.310 output)."""
    origin = typing.get_origin(hint)
    if origin is None:
        return hint
    if origin is typing.Union or origin is getattr(__import__("types"), "UnionType"):
        return ("union", frozenset(norm(a) for a in typing.get_args(hint)))
    return (origin, tuple(norm(a) for a in typing.get_args(hint)))


def py(name):
    """Class name the plugin gives to a (possibly nested, dotted) schema type."""
    return casing.sanitize_name(casing.pascal_case(name))


def build_schema():
    """Two files per package (proto imports must be acyclic): t_<pkg>.proto defines the
    types, u_<pkg>.proto (same package) defines U<tag> that references the types of
    every package, its own included."""
    sources = {}
    for pkg in PACKAGES:
        tag = type_of(pkg)
        head = ['syntax = "proto3";'] + ([f"package {pkg};"] if pkg else [])
        sources["t_" + pkg_file(pkg)] = "\n".join(head + [
            f"enum K{tag} {{ K{tag.upper()}_ZERO = 0; K{tag.upper()}_ONE = 1; }}",
            f"message M{tag} {{ message In {{ int32 v = 1; }} In in = 1; K{tag} k = 2; }}",
        ]) + "\n"
        lines = list(head)
        lines += [f'import "t_{pkg_file(p)}";' for p in PACKAGES]
        lines += ['import "google/protobuf/timestamp.proto";',
                  'import "google/protobuf/duration.proto";',
                  'import "google/protobuf/wrappers.proto";',
                  'import "google/protobuf/struct.proto";']
        lines.append(f"message U{tag} {{")
        number = 1
        for p in PACKAGES:  # including itself: sibling references
            t = type_of(p)
            prefix = f".{p}." if p else "."
            for kind, label in ((f"M{t}", ""), (f"M{t}.In", "repeated "), (f"K{t}", "")):
                lines.append(f"  {label}{prefix}{kind} f{number} = {number};")
                number += 1
        nxt = PACKAGES[(PACKAGES.index(pkg) + 1) % len(PACKAGES)]
        nxt_prefix = f".{nxt}." if nxt else "."
        lines.append(f"  map<string, {nxt_prefix}M{type_of(nxt)}> by_key = {number};")
        lines.append(f"  google.protobuf.Timestamp ts = {number + 1};")
        lines.append(f"  google.protobuf.Duration dur = {number + 2};")
        lines.append(f"  google.protobuf.Int64Value wrapped = {number + 3};")
        lines.append(f"  google.protobuf.Struct struct = {number + 4};")
        lines.append("}")
        sources["u_" + pkg_file(pkg)] = "\n".join(lines) + "\n"
    return sources


def run_plugin(sources, out_dir, parameter=""):
    with tempfile.TemporaryDirectory() as src_dir:
        for name, text in sources.items():
            with open(os.path.join(src_dir, name), "w") as fh:
                fh.write(text)
        desc = os.path.join(src_dir, "set.bin")
        rc = protoc.main(
            ["protoc", f"-I{src_dir}", f"-I{WKT_INCLUDE}", "--include_imports",
             "--include_source_info", f"--descriptor_set_out={desc}", *sources]
        )
        assert rc == 0
        with open(desc, "rb") as fh:
            raw = fh.read()
    fds = FileDescriptorSet().parse(raw)
    request = CodeGeneratorRequest(file_to_generate=list(sources), proto_file=list(fds.file),
                                   parameter=parameter)
    request = CodeGeneratorRequest().parse(bytes(request))
    response = generate_code(request)
    for f in response.file:
        path = os.path.join(out_dir, f.name)
        os.makedirs(os.path.dirname(path), exist_ok=True)
        with open(path, "w") as fh:
            fh.write(f.content)
    return FileDescriptorSet().parse(raw), response


def check_pipeline():
    import betterproto.lib.google.protobuf as wkt

    sources = build_schema()
    checked = 0
    with tempfile.TemporaryDirectory() as out_dir:
        sys.path.insert(0, out_dir)
        for root_name, parameter in (("gen_direct", ""), ("gen_root", "typing.root"),
                                     ("gen_310", "typing.310")):
            fds, response = run_plugin(sources, os.path.join(out_dir, root_name), parameter)
            names = sorted(f.name for f in response.file)
            expected_files = sorted(
                {os.path.join(*p.split(".")[:i], "__init__.py") if p.split(".")[:i] else "__init__.py"
                 for p in PACKAGES if p for i in range(0, len(p.split(".")) + 1)} | {"__init__.py"})
            assert names == expected_files, (names, expected_files)
            modules = {
                p: importlib.import_module(root_name + ("." + p if p else "")) for p in PACKAGES
            }
            by_file = {f.name: f for f in fds.file}
            for pkg in PACKAGES:
                mod = modules[pkg]
                cls = getattr(mod, py(f"U{type_of(pkg)}"))
                desc = next(m for m in by_file["u_" + pkg_file(pkg)].message_type
                            if m.name == f"U{type_of(pkg)}")
                hints = typing.get_type_hints(cls, vars(mod), {})
                dc_fields = {f.name: f for f in dataclasses.fields(cls)}
                assert len(dc_fields) == len(desc.field)
                for fd in desc.field:
                    meta = dc_fields[fd.name].metadata["betterproto"]
                    assert meta.number == fd.number
                    if not fd.name.startswith("f"):
                        continue
                    # .pkg.MTag / .pkg.MTag.In / .pkg.KTag  ->  class of *that* package
                    target_pkg, type_name = parse_source_type_name(fd.type_name)
                    assert target_pkg in PACKAGES
                    target_cls = getattr(modules[target_pkg], py(type_name))
                    assert target_cls.__module__ == modules[target_pkg].__name__
                    repeated = fd.label == 3
                    expected = typing.List[target_cls] if repeated else target_cls
                    assert norm(hints[fd.name]) == norm(expected), (pkg, fd.name, hints[fd.name], expected)
                    if fd.type == 11:
                        assert cls._betterproto.cls_by_field[fd.name] is target_cls
                    checked += 1
                nxt = PACKAGES[(PACKAGES.index(pkg) + 1) % len(PACKAGES)]
                assert norm(hints["by_key"]) == norm(
                    typing.Dict[str, getattr(modules[nxt], py(f"M{type_of(nxt)}"))])
                assert hints["ts"] == datetime and hints["dur"] == timedelta
                assert norm(hints["wrapped"]) == norm(typing.Optional[int])
                assert hints["struct"] is wkt.Struct
                # and it works: nested value of a foreign package survives a round trip
                other = modules[nxt]
                inst = cls(by_key={"k": getattr(other, py(f"M{type_of(nxt)}"))()})
                inst.f1 = modules[""].MRoot(k=modules[""].KRoot(1))
                back = cls().parse(bytes(inst))
                assert back == inst and type(back.f1) is modules[""].MRoot
    return checked


if __name__ == "__main__":
    a = check_topologies()
    b = check_examples()
    c = check_pipeline()
    print(f"keep2 equiv OK: {a} package pairs x types, {b} examples, {c} generated cross-package fields")
