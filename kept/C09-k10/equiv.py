import random
import struct
import sys
from dataclasses import dataclass
from datetime import datetime, timedelta, timezone
from io import BytesIO
from typing import Dict, List, Optional

import betterproto
from betterproto import (
    TYPE_BOOL,
    TYPE_BYTES,
    TYPE_DOUBLE,
    TYPE_FLOAT,
    TYPE_INT32,
    TYPE_INT64,
    TYPE_MESSAGE,
    TYPE_SINT64,
    TYPE_STRING,
    TYPE_UINT32,
    TYPE_UINT64,
)


# --------------------------------------------------------------------------- schema
class Color(betterproto.Enum):
    ZERO = 0
    ONE = 1
    BIG = 300
    HUGE = 2147483647
    NEG = -1
    NEG_MIN = -2147483648


@dataclass(eq=False, repr=False)
class Empty(betterproto.Message):
    pass


@dataclass(eq=False, repr=False)
class Leaf(betterproto.Message):
    a: int = betterproto.int32_field(1)
    s: str = betterproto.string_field(2)
    b: bytes = betterproto.bytes_field(3)


@dataclass(eq=False, repr=False)
class Holder(betterproto.Message):
    """Messages nested three deep, to carry empty-but-present grandchildren."""

    leaf: Leaf = betterproto.message_field(1)
    empty: Empty = betterproto.message_field(2)
    leaves: List[Leaf] = betterproto.message_field(3)
    opt_leaf: Optional[Leaf] = betterproto.message_field(4, optional=True)


@dataclass(eq=False, repr=False)
class All(betterproto.Message):
    # singular scalars
    f_int32: int = betterproto.int32_field(1)
    f_int64: int = betterproto.int64_field(2)
    f_uint32: int = betterproto.uint32_field(3)
    f_uint64: int = betterproto.uint64_field(4)
    f_sint32: int = betterproto.sint32_field(5)
    f_sint64: int = betterproto.sint64_field(6)
    f_bool: bool = betterproto.bool_field(7)
    f_enum: Color = betterproto.enum_field(8)
    f_fixed32: int = betterproto.fixed32_field(9)
    f_fixed64: int = betterproto.fixed64_field(10)
    f_sfixed32: int = betterproto.sfixed32_field(11)
    f_sfixed64: int = betterproto.sfixed64_field(12)
    f_float: float = betterproto.float_field(13)
    f_double: float = betterproto.double_field(14)
    f_string: str = betterproto.string_field(15)
    f_bytes: bytes = betterproto.bytes_field(16)
    # nested
    f_leaf: Leaf = betterproto.message_field(17)
    f_empty: Empty = betterproto.message_field(18)
    f_holder: Holder = betterproto.message_field(19)
    f_self: "All" = betterproto.message_field(20)
    # repeated, packed
    r_int32: List[int] = betterproto.int32_field(21)
    r_int64: List[int] = betterproto.int64_field(22)
    r_uint32: List[int] = betterproto.uint32_field(23)
    r_uint64: List[int] = betterproto.uint64_field(24)
    r_sint32: List[int] = betterproto.sint32_field(25)
    r_sint64: List[int] = betterproto.sint64_field(26)
    r_bool: List[bool] = betterproto.bool_field(27)
    r_enum: List[Color] = betterproto.enum_field(28)
    r_fixed32: List[int] = betterproto.fixed32_field(29)
    r_fixed64: List[int] = betterproto.fixed64_field(30)
    r_sfixed32: List[int] = betterproto.sfixed32_field(31)
    r_sfixed64: List[int] = betterproto.sfixed64_field(32)
    r_float: List[float] = betterproto.float_field(33)
    r_double: List[float] = betterproto.double_field(34)
    # repeated, not packed
    r_string: List[str] = betterproto.string_field(35)
    r_bytes: List[bytes] = betterproto.bytes_field(36)
    r_leaf: List[Leaf] = betterproto.message_field(37)
    r_empty: List[Empty] = betterproto.message_field(38)
    r_ts: List[datetime] = betterproto.message_field(39)
    r_dur: List[timedelta] = betterproto.message_field(40)
    # maps
    m_str_int32: Dict[str, int] = betterproto.map_field(41, TYPE_STRING, TYPE_INT32)
    m_int32_str: Dict[int, str] = betterproto.map_field(42, TYPE_INT32, TYPE_STRING)
    m_str_leaf: Dict[str, Leaf] = betterproto.map_field(43, TYPE_STRING, TYPE_MESSAGE)
    m_sint64_double: Dict[int, float] = betterproto.map_field(
        44, TYPE_SINT64, TYPE_DOUBLE
    )
    m_bool_bytes: Dict[bool, bytes] = betterproto.map_field(45, TYPE_BOOL, TYPE_BYTES)
    m_u64_empty: Dict[int, Empty] = betterproto.map_field(46, TYPE_UINT64, TYPE_MESSAGE)
    # oneof
    o_int32: int = betterproto.int32_field(51, group="choice")
    o_string: str = betterproto.string_field(52, group="choice")
    o_bytes: bytes = betterproto.bytes_field(53, group="choice")
    o_leaf: Leaf = betterproto.message_field(54, group="choice")
    o_empty: Empty = betterproto.message_field(55, group="choice")
    o_enum: Color = betterproto.enum_field(56, group="choice")
    o_double: float = betterproto.double_field(57, group="choice")
    o_bool: bool = betterproto.bool_field(58, group="choice")
    # proto3 optional
    p_int32: Optional[int] = betterproto.int32_field(61, optional=True)
    p_string: Optional[str] = betterproto.string_field(62, optional=True)
    p_bytes: Optional[bytes] = betterproto.bytes_field(63, optional=True)
    p_bool: Optional[bool] = betterproto.bool_field(64, optional=True)
    p_leaf: Optional[Leaf] = betterproto.message_field(65, optional=True)
    p_double: Optional[float] = betterproto.double_field(66, optional=True)
    p_sint64: Optional[int] = betterproto.sint64_field(67, optional=True)
    p_enum: Optional[Color] = betterproto.enum_field(68, optional=True)
    # wrappers / well-known types
    w_int32: Optional[int] = betterproto.message_field(71, wraps=TYPE_INT32)
    w_int64: Optional[int] = betterproto.message_field(72, wraps=TYPE_INT64)
    w_uint32: Optional[int] = betterproto.message_field(73, wraps=TYPE_UINT32)
    w_uint64: Optional[int] = betterproto.message_field(74, wraps=TYPE_UINT64)
    w_bool: Optional[bool] = betterproto.message_field(75, wraps=TYPE_BOOL)
    w_string: Optional[str] = betterproto.message_field(76, wraps=TYPE_STRING)
    w_bytes: Optional[bytes] = betterproto.message_field(77, wraps=TYPE_BYTES)
    w_float: Optional[float] = betterproto.message_field(78, wraps=TYPE_FLOAT)
    w_double: Optional[float] = betterproto.message_field(79, wraps=TYPE_DOUBLE)
    f_ts: datetime = betterproto.message_field(80)
    f_dur: timedelta = betterproto.message_field(81)
    rw_int32: List[Optional[int]] = betterproto.message_field(82, wraps=TYPE_INT32)
    rw_string: List[Optional[str]] = betterproto.message_field(83, wraps=TYPE_STRING)
    # large field numbers (2-, 3-, 4- and 5-byte tags)
    big_a: int = betterproto.int32_field(2047)
    big_b: str = betterproto.string_field(2048)
    big_c: List[int] = betterproto.sint32_field(262143)
    big_d: Leaf = betterproto.message_field(262144)
    big_e: List[Leaf] = betterproto.message_field(33554432)
    big_f: float = betterproto.double_field(536870911)


# ------------------------------------------------------------------ value generators
BOUNDS = [0, 1, 2, 63, 64, 127, 128, 129, 255, 256, 16383, 16384, 2097151, 2097152]
BOUNDS += [(1 << k) + d for k in (7, 14, 21, 28, 31, 32, 35, 42, 49, 56, 62) for d in (-1, 0, 1)]


def _clip(vals, lo, hi):
    return sorted({v for v in vals if lo <= v <= hi})


I32 = _clip(BOUNDS + [-v for v in BOUNDS] + [-(1 << 31), (1 << 31) - 1], -(1 << 31), (1 << 31) - 1)
I64 = _clip(BOUNDS + [-v for v in BOUNDS] + [-(1 << 63), (1 << 63) - 1], -(1 << 63), (1 << 63) - 1)
U32 = _clip(BOUNDS + [(1 << 32) - 1], 0, (1 << 32) - 1)
U64 = _clip(BOUNDS + [(1 << 63), (1 << 64) - 1], 0, (1 << 64) - 1)
FLOATS = [0.0, -0.0, 1.0, -1.5, 3.4028234663852886e38, float("inf"), float("-inf"), float("nan"), 1e-45, 0.5]
DOUBLES = FLOATS + [1e308, -2.2250738585072014e-308, 5e-324, 123456.789]
STRINGS = ["", "a", "abc", "é", "€ uro", "\U0001f600", "x" * 127, "y" * 128, "é" * 64, "z" * 16384, "\x00"]
BYTESES = [b"", b"\x00", b"abc", bytes(range(256)), b"q" * 127, b"q" * 128, b"r" * 16383, b"r" * 16384]
COLORS = list(Color) + [Color.try_value(7), Color.try_value(-5), Color.try_value(128)]
UTC = timezone.utc
DATETIMES = [
    datetime(1970, 1, 1, tzinfo=UTC),
    datetime(1970, 1, 1, 0, 0, 0, 1, tzinfo=UTC),
    datetime(1969, 12, 31, 23, 59, 59, 999999, tzinfo=UTC),
    datetime(1, 1, 1, tzinfo=UTC),
    datetime(9999, 12, 31, 23, 59, 59, 999999, tzinfo=UTC),
    datetime(2024, 2, 29, 12, 30, 15, 500000, tzinfo=UTC),
    datetime(1970, 1, 1, 0, 2, 8, tzinfo=UTC),
    datetime(2001, 9, 9, 1, 46, 40, tzinfo=timezone(timedelta(hours=5, minutes=30))),
]
TIMEDELTAS = [
    timedelta(0),
    timedelta(microseconds=1),
    timedelta(microseconds=-1),
    timedelta(seconds=127),
    timedelta(seconds=128),
    timedelta(seconds=-128, microseconds=-5),
    timedelta(days=999999999, hours=23, minutes=59, seconds=59, microseconds=999999),
    timedelta(days=-999999999),
    timedelta(seconds=1, microseconds=500000),
]


def rnd_leaf(r):
    k = r.randrange(5)
    if k == 0:
        return Leaf()
    if k == 1:
        return Leaf(a=r.choice(I32))
    if k == 2:
        return Leaf(s=r.choice(STRINGS[:9]), b=r.choice(BYTESES[:6]))
    if k == 3:
        return Leaf().parse(b"")  # empty but marked as received
    # a leaf carrying unknown fields
    return Leaf().parse(bytes(Leaf(a=r.choice(I32))) + unknown_blob(r))


def unknown_blob(r):
    """Well-formed fields whose numbers no test message declares."""
    parts = [
        b"",
        bytes([0xA0, 0x06]) + betterproto.encode_varint(r.choice(U64)),  # field 100 varint
        bytes([0xAA, 0x06, 0x03]) + b"xyz",  # field 101 len-delimited
        bytes([0xB5, 0x06]) + struct.pack("<I", r.choice(U32)),  # field 102 fixed32
        bytes([0xB9, 0x06]) + struct.pack("<Q", r.choice(U64)),  # field 103 fixed64
        bytes([0xAA, 0x06, 0x00]),  # field 101 empty
    ]
    return b"".join(r.choice(parts) for _ in range(r.randrange(1, 4)))


def rnd_holder(r):
    h = Holder()
    if r.random() < 0.5:
        h.leaf = rnd_leaf(r)
    if r.random() < 0.4:
        h.empty = Empty()
    if r.random() < 0.4:
        h.leaves = [rnd_leaf(r) for _ in range(r.randrange(0, 4))]
    if r.random() < 0.4:
        h.opt_leaf = rnd_leaf(r)
    if r.random() < 0.2:
        h.leaf.a  # a read only: lazily creates the child, must not change anything
    return h


SINGLE = {
    "f_int32": I32, "f_int64": I64, "f_uint32": U32, "f_uint64": U64, "f_sint32": I32,
    "f_sint64": I64, "f_bool": [False, True], "f_enum": COLORS, "f_fixed32": U32,
    "f_fixed64": U64, "f_sfixed32": I32, "f_sfixed64": I64, "f_float": FLOATS,
    "f_double": DOUBLES, "f_string": STRINGS, "f_bytes": BYTESES,
    "o_int32": I32, "o_string": STRINGS, "o_bytes": BYTESES, "o_enum": COLORS,
    "o_double": DOUBLES, "o_bool": [False, True],
    "p_int32": I32, "p_string": STRINGS, "p_bytes": BYTESES, "p_bool": [False, True],
    "p_double": DOUBLES, "p_sint64": I64, "p_enum": COLORS,
    "w_int32": I32, "w_int64": I64, "w_uint32": U32, "w_uint64": U64, "w_bool": [False, True],
    "w_string": STRINGS, "w_bytes": BYTESES, "w_float": FLOATS, "w_double": DOUBLES,
    "f_ts": DATETIMES, "f_dur": TIMEDELTAS, "big_a": I32, "big_b": STRINGS, "big_f": DOUBLES,
}
REPEATED = {
    "r_int32": I32, "r_int64": I64, "r_uint32": U32, "r_uint64": U64, "r_sint32": I32,
    "r_sint64": I64, "r_bool": [False, True], "r_enum": COLORS, "r_fixed32": U32,
    "r_fixed64": U64, "r_sfixed32": I32, "r_sfixed64": I64, "r_float": FLOATS,
    "r_double": DOUBLES, "r_string": STRINGS, "r_bytes": BYTESES, "r_ts": DATETIMES,
    "r_dur": TIMEDELTAS, "rw_int32": I32, "rw_string": STRINGS[:9], "big_c": I32,
}
MAPS = {
    "m_str_int32": (STRINGS[:9], I32), "m_int32_str": (I32, STRINGS[:9]),
    "m_sint64_double": (I64, DOUBLES[:7] + DOUBLES[8:]), "m_bool_bytes": ([False, True], BYTESES[:6]),
}
MSG_FIELDS = ["f_leaf", "o_leaf", "p_leaf", "big_d"]
EMPTY_FIELDS = ["f_empty", "o_empty"]


def rnd_all(r, depth=0, density=0.12):
    m = All()
    names = list(SINGLE) + list(REPEATED) + list(MAPS) + MSG_FIELDS + EMPTY_FIELDS
    names += ["r_leaf", "r_empty", "m_str_leaf", "m_u64_empty", "f_holder", "f_self", "big_e"]
    r.shuffle(names)
    for name in names:
        if r.random() > density:
            continue
        if name in SINGLE:
            setattr(m, name, r.choice(SINGLE[name]))
        elif name in REPEATED:
            n = r.choice([0, 1, 1, 2, 3, 5, 40, 127, 128, 129])
            setattr(m, name, [r.choice(REPEATED[name]) for _ in range(n)])
        elif name in MAPS:
            ks, vs = MAPS[name]
            setattr(m, name, {r.choice(ks): r.choice(vs) for _ in range(r.randrange(0, 5))})
        elif name in MSG_FIELDS:
            setattr(m, name, rnd_leaf(r))
        elif name in EMPTY_FIELDS:
            setattr(m, name, Empty())
        elif name in ("r_leaf", "big_e"):
            setattr(m, name, [rnd_leaf(r) for _ in range(r.randrange(0, 5))])
        elif name == "r_empty":
            m.r_empty = [Empty() for _ in range(r.randrange(0, 4))]
        elif name == "m_str_leaf":
            m.m_str_leaf = {r.choice(STRINGS[:9]): rnd_leaf(r) for _ in range(r.randrange(0, 4))}
        elif name == "m_u64_empty":
            m.m_u64_empty = {r.choice(U64): Empty() for _ in range(r.randrange(0, 4))}
        elif name == "f_holder":
            m.f_holder = rnd_holder(r)
        elif name == "f_self" and depth < 3:
            m.f_self = rnd_all(r, depth + 1, density)
    k = r.random()
    if k < 0.15:
        # in-place mutation of lazily created members
        m.r_int32.append(r.choice(I32))
        m.m_str_int32[r.choice(STRINGS[:9])] = r.choice(I32)
        m.f_leaf.s = r.choice(STRINGS[:9])
    elif k < 0.30:
        # unknown fields on the top-level message (re-parse, append a blob)
        m = All().parse(bytes(m) + unknown_blob(r))
    return m


# ----------------------------------------------------------------------- the property
class CountingStream:
    """A minimal SupportsWrite[bytes]: only write()."""

    def __init__(self):
        self.chunks = []

    def write(self, data):
        assert isinstance(data, (bytes, bytearray)), type(data)
        self.chunks.append(bytes(data))
        return len(data)

    def getvalue(self):
        return b"".join(self.chunks)


def check_c09(m, label=""):
    data = bytes(m)
    assert isinstance(data, bytes)
    assert len(m) == len(data), (label, len(m), len(data))
    assert m.SerializeToString() == data, label
    s = BytesIO()
    m.dump(s)
    assert s.getvalue() == data, label
    s = CountingStream()
    m.dump(s)
    assert s.getvalue() == data, label
    s = BytesIO()
    m.dump(s, betterproto.SIZE_DELIMITED)
    assert s.getvalue() == betterproto.encode_varint(len(data)) + data, label
    s = CountingStream()
    m.dump(s, betterproto.SIZE_DELIMITED)
    assert s.getvalue() == betterproto.encode_varint(len(data)) + data, label
    # nothing above may have changed the message
    assert bytes(m) == data and len(m) == len(data), label
    return data


# =========================================================================== checks
import itertools
import time

T0 = time.time()
count = 0


def varint(n):
    return betterproto.encode_varint(n)


def tag(number, wire_type):
    return varint((number << 3) | wire_type)


def zigzag(v):
    return (v << 1) ^ (v >> 63)


def enc_scalar(kind, v):
    """Independent encoder of one packed element."""
    if kind in ("int32", "int64", "uint32", "uint64", "bool", "enum"):
        return varint(int(v) & 0xFFFFFFFFFFFFFFFF)
    if kind in ("sint32", "sint64"):
        return varint(zigzag(v) & 0xFFFFFFFFFFFFFFFF)
    fmt = {"fixed32": "<I", "fixed64": "<Q", "sfixed32": "<i", "sfixed64": "<q", "float": "<f", "double": "<d"}[kind]
    return struct.pack(fmt, v)


PACKED = {
    "r_int32": (21, "int32", I32), "r_int64": (22, "int64", I64), "r_uint32": (23, "uint32", U32),
    "r_uint64": (24, "uint64", U64), "r_sint32": (25, "sint32", I32), "r_sint64": (26, "sint64", I64),
    "r_bool": (27, "bool", [False, True]), "r_enum": (28, "enum", COLORS), "r_fixed32": (29, "fixed32", U32),
    "r_fixed64": (30, "fixed64", U64), "r_sfixed32": (31, "sfixed32", I32), "r_sfixed64": (32, "sfixed64", I64),
    "r_float": (33, "float", FLOATS), "r_double": (34, "double", DOUBLES), "big_c": (262143, "sint32", I32),
}

# --- 1. packed lists: expected bytes built by hand, every element count around the
#        length-prefix boundaries, one write per field ---------------------------------
r = random.Random(99)
for name, (number, kind, pool) in PACKED.items():
    lists = [[v] for v in pool] + [list(pool), list(reversed(pool))]
    for n in (2, 3, 15, 16, 31, 32, 63, 64, 126, 127, 128, 129, 1000, 2047, 2048, 2049):
        lists.append([r.choice(pool) for _ in range(n)])
    lists.append([pool[0]] * 16384)
    for items in lists:
        m = All(**{name: items})
        payload = b"".join(enc_scalar(kind, v) for v in items)
        expected = tag(number, 2) + varint(len(payload)) + payload
        data = check_c09(m, (name, len(items)))
        assert data == expected, (name, items[:5])
        s = CountingStream()
        m.dump(s)
        assert [c for c in s.chunks if c] == [expected], name
        count += 1
    # an empty list is the default and leaves no trace
    assert check_c09(All(**{name: []})) == b""

# --- 2. repeated length-delimited fields: one record and one write per item,
#        empty items included -----------------------------------------------------------
def ld(number, payload):
    return tag(number, 2) + varint(len(payload)) + payload


for n in (1, 2, 3, 127, 128, 300):
    for pool_name, number, pool, enc in (
        ("r_string", 35, STRINGS[:9], lambda v: v.encode("utf-8")),
        ("r_bytes", 36, BYTESES[:6], lambda v: v),
    ):
        items = [r.choice(pool) for _ in range(n)]
        m = All(**{pool_name: items})
        records = [ld(number, enc(v)) for v in items]
        assert check_c09(m, (pool_name, n)) == b"".join(records)
        s = CountingStream()
        m.dump(s)
        assert [c for c in s.chunks if c] == records
        count += 1
for items in (STRINGS, [""], ["", ""], ["", "a", ""], ["z" * 16384] * 3):
    assert check_c09(All(r_string=items)) == b"".join(ld(35, v.encode()) for v in items)
for items in (BYTESES, [b""], [b"", b""], [b"", b"a", b""]):
    assert check_c09(All(r_bytes=items)) == b"".join(ld(36, v) for v in items)

leaf_pool = [
    Leaf(), Leaf().parse(b""), Leaf(a=0), Leaf(a=-1), Leaf(s="é"), Leaf(b=b"q" * 122), Leaf(b=b"q" * 123),
    Leaf().parse(bytes([0xA0, 0x06, 0x01])), Leaf(a=5, s="x", b=b"y"), Leaf(b=b"q" * 16380),
]
for n in (1, 2, 3, 10, 127, 128):
    for trial in range(4):
        items = [r.choice(leaf_pool) for _ in range(n)]
        for name, number in (("r_leaf", 37), ("big_e", 33554432)):
            m = All(**{name: items})
            records = [ld(number, bytes(v)) for v in items]
            assert check_c09(m, (name, n)) == b"".join(records)
            s = CountingStream()
            m.dump(s)
            assert [c for c in s.chunks if c] == records
            count += 1
for n in (1, 2, 5, 200):
    assert check_c09(All(r_empty=[Empty()] * n)) == ld(38, b"") * n
    assert check_c09(Holder(leaves=[Leaf()] * n)) == ld(3, b"") * n
for items in ([DATETIMES[0]], DATETIMES, DATETIMES * 20):
    check_c09(All(r_ts=items))
assert check_c09(All(r_ts=[DATETIMES[0], DATETIMES[0]])) == ld(39, b"") * 2
for items in ([TIMEDELTAS[0]], TIMEDELTAS, TIMEDELTAS * 20):
    check_c09(All(r_dur=items))
assert check_c09(All(r_dur=[TIMEDELTAS[0]])) == ld(40, b"")
# repeated wrappers: zero / empty / None items each still make a record
assert check_c09(All(rw_int32=[0])) == ld(82, b"")
assert check_c09(All(rw_int32=[0, 1, 0])) == ld(82, b"") + ld(82, b"\x08\x01") + ld(82, b"")
assert check_c09(All(rw_string=["", "a"])) == ld(83, b"") + ld(83, b"\x0a\x01a")
assert check_c09(All(rw_int32=[None, 5, None])) == ld(82, b"") + ld(82, b"\x08\x05") + ld(82, b"")
for n in (1, 2, 50, 128):
    check_c09(All(rw_int32=[r.choice(I32) for _ in range(n)], rw_string=[r.choice(STRINGS[:9]) for _ in range(n)]))
    count += 1

# --- 3. maps: one record and one write per entry, in insertion order, default key /
#        default value / both default included ------------------------------------------
def entry_bytes(kenc, venc):
    return kenc + venc


def k_str(v):
    return ld(1, v.encode()) if v else b""


def v_i32(v):
    return (tag(2, 0) + varint(v & 0xFFFFFFFFFFFFFFFF))


for keys in itertools.chain(
    [[k] for k in STRINGS[:9]],
    [STRINGS[:9], list(reversed(STRINGS[:9]))],
):
    for trial in range(3):
        d = {k: r.choice(I32) for k in keys}
        m = All(m_str_int32=d)
        records = [ld(41, k_str(k) + v_i32(v)) for k, v in d.items()]
        assert check_c09(m, keys) == b"".join(records), d
        s = CountingStream()
        m.dump(s)
        assert [c for c in s.chunks if c] == records
        count += 1
assert check_c09(All(m_str_int32={"": 0})) == ld(41, b"\x10\x00")
assert check_c09(All(m_int32_str={0: ""})) == ld(42, b"\x08\x00")
assert check_c09(All(m_int32_str={0: "", -1: "x"})) == ld(42, b"\x08\x00") + ld(
    42, b"\x08" + varint(2**64 - 1) + b"\x12\x01x"
)
assert check_c09(All(m_bool_bytes={False: b""})) == ld(45, b"\x08\x00")
assert check_c09(All(m_bool_bytes={True: b"", False: b"\x00"})) == ld(45, b"\x08\x01") + ld(45, b"\x08\x00\x12\x01\x00")
assert check_c09(All(m_sint64_double={0: 0.0})) == ld(44, b"\x08\x00" + b"\x11" + bytes(8))
assert check_c09(All(m_sint64_double={-1: -0.0})) == ld(44, b"\x08\x01\x11" + struct.pack("<d", -0.0))
assert check_c09(All(m_u64_empty={0: Empty()})) == ld(46, b"\x08\x00")
assert check_c09(All(m_u64_empty={5: Empty()})) == ld(46, b"\x08\x05")
assert check_c09(All(m_str_leaf={"": Leaf()})) == ld(43, b"")
assert check_c09(All(m_str_leaf={"": Leaf().parse(b"")})) == ld(43, b"")
assert check_c09(All(m_str_leaf={"k": Leaf()})) == ld(43, b"\x0a\x01k")
assert check_c09(All(m_str_leaf={"k": Leaf(a=1)})) == ld(43, b"\x0a\x01k\x12\x02\x08\x01")
for name, (ks, vs) in MAPS.items():
    for n in (1, 2, 5, 14, 200):
        d = {}
        while len(d) < min(n, len(ks)):
            d[r.choice(ks)] = r.choice(vs)
        m = All(**{name: d})
        data = check_c09(m, (name, n))
        s = CountingStream()
        m.dump(s)
        assert len([c for c in s.chunks if c]) == len(d)
        # parse back: same entries (NaN-free pools), hence same bytes again
        again = All().parse(data)
        assert bytes(again) == data
        count += 1
for n in (1, 3, 40):
    d = {f"k{i}" * (i % 50 + 1): r.choice(leaf_pool) for i in range(n)}
    m = All(m_str_leaf=d)
    records = [ld(43, ld(1, k.encode()) + (ld(2, bytes(v)) if bytes(v) else b"")) for k, v in d.items()]
    assert check_c09(m, n) == b"".join(records)
    count += 1
# maps filled in place on a lazily created dict, then emptied again
m = All()
m.m_str_int32["a"] = 1
m.m_u64_empty[0] = Empty()
assert check_c09(m) == ld(41, b"\x0a\x01a\x10\x01") + ld(46, b"\x08\x00")
m.m_str_int32.clear()
m.m_u64_empty.clear()
assert check_c09(m) == b""
m.r_leaf.append(Leaf())
m.r_sint32.extend([0, -1])
assert check_c09(m) == ld(25, b"\x00\x01") + ld(37, b"")

# --- 4. the bundled Struct / ListValue (map and repeated of messages, recursively) ----
from betterproto.lib.google import protobuf as bpg


def value_of(x):
    if x is None:
        return bpg.Value(null_value=list(bpg.NullValue)[0])
    if isinstance(x, bool):
        return bpg.Value(bool_value=x)
    if isinstance(x, (int, float)):
        return bpg.Value(number_value=float(x))
    if isinstance(x, str):
        return bpg.Value(string_value=x)
    if isinstance(x, list):
        return bpg.Value(list_value=bpg.ListValue(values=[value_of(i) for i in x]))
    return bpg.Value(struct_value=bpg.Struct(fields={k: value_of(v) for k, v in x.items()}))


for doc in (
    {}, {"": None}, {"a": 0, "b": "", "c": False, "d": [], "e": {}}, {"a": [[], [[]], {}, {"": []}]},
    {"s": "é" * 70, "n": -1.5e300, "big": ["x" * 130] * 130, "m": {str(i): i for i in range(130)}},
):
    v = value_of(doc)
    check_c09(v, doc)
    check_c09(v.struct_value, doc)
    check_c09(bpg.ListValue(values=[v, bpg.Value(), v]), doc)
    check_c09(bpg.FieldMask(paths=list(doc) + [""]), doc)
    count += 4

# --- 5. against the reference implementation ----------------------------------------------
from google.protobuf import descriptor_pb2, descriptor_pool, message_factory

F = descriptor_pb2.FieldDescriptorProto
fdp = descriptor_pb2.FileDescriptorProto(name="c09_keep2_equiv.proto", package="c09k2", syntax="proto3")
en = fdp.enum_type.add(name="Color")
for ename, enum_number in (("ZERO", 0), ("ONE", 1), ("BIG", 300), ("HUGE", 2147483647), ("NEG", -1), ("NEG_MIN", -2147483648)):
    en.value.add(name=ename, number=enum_number)
leaf_d = fdp.message_type.add(name="Leaf")
leaf_d.field.add(name="a", number=1, type=F.TYPE_INT32, label=F.LABEL_OPTIONAL)
leaf_d.field.add(name="s", number=2, type=F.TYPE_STRING, label=F.LABEL_OPTIONAL)
leaf_d.field.add(name="b", number=3, type=F.TYPE_BYTES, label=F.LABEL_OPTIONAL)
rep_d = fdp.message_type.add(name="Rep")
GTYPES = {
    "int32": F.TYPE_INT32, "int64": F.TYPE_INT64, "uint32": F.TYPE_UINT32, "uint64": F.TYPE_UINT64,
    "sint32": F.TYPE_SINT32, "sint64": F.TYPE_SINT64, "bool": F.TYPE_BOOL, "enum": F.TYPE_ENUM,
    "fixed32": F.TYPE_FIXED32, "fixed64": F.TYPE_FIXED64, "sfixed32": F.TYPE_SFIXED32,
    "sfixed64": F.TYPE_SFIXED64, "float": F.TYPE_FLOAT, "double": F.TYPE_DOUBLE,
    "string": F.TYPE_STRING, "bytes": F.TYPE_BYTES,
}
for name, (number, kind, _pool) in PACKED.items():
    extra = {"type_name": ".c09k2.Color"} if kind == "enum" else {}
    rep_d.field.add(name=name, number=number, type=GTYPES[kind], label=F.LABEL_REPEATED, **extra)
rep_d.field.add(name="r_string", number=35, type=F.TYPE_STRING, label=F.LABEL_REPEATED)
rep_d.field.add(name="r_bytes", number=36, type=F.TYPE_BYTES, label=F.LABEL_REPEATED)
rep_d.field.add(name="r_leaf", number=37, type=F.TYPE_MESSAGE, type_name=".c09k2.Leaf", label=F.LABEL_REPEATED)


def add_map(field_name, number, ktype, vtype, v_type_name=None):
    entry = rep_d.nested_type.add(name="".join(p.capitalize() for p in field_name.split("_")) + "Entry")
    entry.options.map_entry = True
    entry.field.add(name="key", number=1, type=ktype, label=F.LABEL_OPTIONAL)
    vf = entry.field.add(name="value", number=2, type=vtype, label=F.LABEL_OPTIONAL)
    if v_type_name:
        vf.type_name = v_type_name
    rep_d.field.add(name=field_name, number=number, type=F.TYPE_MESSAGE, label=F.LABEL_REPEATED,
                    type_name=".c09k2.Rep." + entry.name)


add_map("m_str_int32", 41, F.TYPE_STRING, F.TYPE_INT32)
add_map("m_int32_str", 42, F.TYPE_INT32, F.TYPE_STRING)
add_map("m_str_leaf", 43, F.TYPE_STRING, F.TYPE_MESSAGE, ".c09k2.Leaf")
add_map("m_sint64_double", 44, F.TYPE_SINT64, F.TYPE_DOUBLE)
add_map("m_bool_bytes", 45, F.TYPE_BOOL, F.TYPE_BYTES)
rep_d.field.sort(key=lambda f: f.number)
pool = descriptor_pool.Default()
pool.Add(fdp)
GRep = message_factory.GetMessageClass(pool.FindMessageTypeByName("c09k2.Rep"))
GLeaf = message_factory.GetMessageClass(pool.FindMessageTypeByName("c09k2.Leaf"))
NZ32 = [v for v in I32 if v]

r = random.Random(4242)
for i in range(700):
    kw, g = {}, GRep()
    for name, (number, kind, vals) in PACKED.items():
        if r.random() < 0.25:
            items = [r.choice(vals) for _ in range(r.choice([1, 2, 3, 20, 127, 128, 129]))]
            kw[name] = items
            getattr(g, name).extend([int(v) for v in items] if kind == "enum" else items)
    if r.random() < 0.3:
        kw["r_string"] = [r.choice(STRINGS[:9]) for _ in range(r.randrange(1, 6))]
        g.r_string.extend(kw["r_string"])
    if r.random() < 0.3:
        kw["r_bytes"] = [r.choice(BYTESES[:6]) for _ in range(r.randrange(1, 6))]
        g.r_bytes.extend(kw["r_bytes"])
    if r.random() < 0.3:
        kw["r_leaf"] = []
        for _ in range(r.randrange(1, 6)):
            a, s, by = r.choice([0] + I32), r.choice(STRINGS[:9]), r.choice(BYTESES[:6])
            kw["r_leaf"].append(Leaf(a=a, s=s, b=by) if r.random() < 0.8 else Leaf())
            gl = g.r_leaf.add()
            if kw["r_leaf"][-1]:
                gl.a, gl.s, gl.b = a, s, by
    # maps: a single entry each (the reference orders entries by its own rules) and no
    # empty string / bytes / message inside an entry (the reference spells those out,
    # betterproto leaves them out of the entry; both are valid encodings)
    if r.random() < 0.3:
        k, v = r.choice(STRINGS[1:9]), r.choice(I32)
        kw["m_str_int32"] = {k: v}
        g.m_str_int32[k] = v
    if r.random() < 0.3:
        k, v = r.choice(I32), r.choice(STRINGS[1:9])
        kw["m_int32_str"] = {k: v}
        g.m_int32_str[k] = v
    if r.random() < 0.3:
        k, a = r.choice(STRINGS[1:9]), r.choice(NZ32)
        kw["m_str_leaf"] = {k: Leaf(a=a)}
        g.m_str_leaf[k].a = a
    if r.random() < 0.3:
        k, v = r.choice(I64), r.choice(DOUBLES)
        kw["m_sint64_double"] = {k: v}
        g.m_sint64_double[k] = v
    if r.random() < 0.3:
        k, v = r.choice([False, True]), r.choice(BYTESES[1:6])
        kw["m_bool_bytes"] = {k: v}
        g.m_bool_bytes[k] = v
    b = All(**kw)
    data = check_c09(b, i)
    ref = g.SerializeToString(deterministic=True)
    assert data == ref, (i, kw)
    assert len(b) == g.ByteSize(), i
    count += 1

# --- 6. random messages over the whole schema -------------------------------------------------
r = random.Random(6)
for density, n in ((0.03, 150), (0.1, 150), (0.3, 30), (1.0, 2)):
    for i in range(n):
        check_c09(rnd_all(r, density=density), (density, i))
        count += 1

print(f"keep2 equiv: {count} cases ok in {time.time() - T0:.1f}s")
