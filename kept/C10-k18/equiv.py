"""Equivalence script for refactor keep2 (C10).

Touched code: the range check / negative handling of dump_varint (which writes the
SIZE_DELIMITED prefix and, through encode_varint, every tag, length and varint value)
and size_varint (every term of Message.__len__, i.e. the value of that prefix).
"""
import io
import math
import random
import struct
from dataclasses import dataclass
from typing import List

import betterproto
from betterproto import (
    SIZE_DELIMITED,
    dump_varint,
    encode_varint,
    load_varint,
    decode_varint,
    size_varint,
)
from google.protobuf import descriptor_pb2, descriptor_pool, message_factory, proto
from google.protobuf.internal import encoder as g_encoder

rnd = random.Random(0xC10B)
ERR = (
    "Negative value is not representable as a 64-bit integer - "
    "unable to encode a varint within 10 bytes."
)


class Rec:
    """Write-only stream that records every write() call."""

    def __init__(self):
        self.calls = []

    def write(self, b):
        self.calls.append(bytes(b))
        return len(b)


def ref_varint(n):
    """Independent encoder; negatives as 64-bit two's complement."""
    if n < 0:
        n += 1 << 64
    out = bytearray()
    while True:
        b = n & 0x7F
        n >>= 7
        if n:
            out.append(b | 0x80)
        else:
            out.append(b)
            return bytes(out)


def outcome(fn, *args):
    try:
        return ("ok", fn(*args))
    except Exception as exc:  # noqa: BLE001 - type and text are compared
        return ("exc", type(exc).__name__, str(exc))


# ------------------------------------------------------------------ 1. the codec itself
values = set()
for k in range(0, 71):
    for d in (-2, -1, 0, 1, 2):
        values.add((1 << k) + d)
        values.add(-(1 << k) + d)
for k in range(1, 11):
    values.update({(1 << (7 * k)) - 1, 1 << (7 * k), (1 << (7 * k)) + 1})
values.update(rnd.randint(-(1 << 63), (1 << 64) - 1) for _ in range(4000))
values.update(rnd.randint(-(1 << 20), 1 << 20) for _ in range(2000))
values.update(range(-300, 300))

n_ok = n_err = 0
for v in sorted(values):
    rec = Rec()
    if v < -(1 << 63):
        for fn, args in ((dump_varint, (v, rec)), (encode_varint, (v,)), (size_varint, (v,))):
            assert outcome(fn, *args) == ("exc", "ValueError", ERR), (fn.__name__, v)
        assert rec.calls == []  # nothing was written before the error
        n_err += 1
        continue
    want = ref_varint(v)
    assert dump_varint(v, rec) is None
    assert b"".join(rec.calls) == want, v
    assert all(len(c) == 1 for c in rec.calls) and len(rec.calls) == len(want)
    assert encode_varint(v) == want and type(encode_varint(v)) is bytes
    size = size_varint(v)
    assert size == len(want) and type(size) is int, v
    if v < 0:
        assert size == 10 and want[-1] == 0x01 and len(want) == 10
        # what the reference implementation writes for a negative int32/int64/enum
        buf = bytearray()
        g_encoder._SignedVarintEncoder()(buf.extend, v)
        assert bytes(buf) == want
    elif v < (1 << 64):
        assert want == g_encoder._VarintBytes(v)
        assert 1 <= size <= 10
    else:
        assert size == math.ceil(v.bit_length() / 7) > 9
    # and it reads back (to the unsigned form) consuming exactly its own bytes
    if v < (1 << 64):
        s = io.BytesIO(want + b"\x7f")
        got, raw = load_varint(s)
        assert got == (v if v >= 0 else v + (1 << 64)) and raw == want and s.tell() == len(want)
        assert decode_varint(want + b"\x7f", 0) == (got, len(want))
    n_ok += 1
assert n_ok > 6000 and n_err > 20

# exact boundaries of the range check
assert size_varint(-(1 << 63)) == 10 and encode_varint(-(1 << 63)) == b"\x80" * 9 + b"\x01"
assert encode_varint(-1) == b"\xff" * 9 + b"\x01"
assert outcome(size_varint, -(1 << 63) - 1) == ("exc", "ValueError", ERR)
assert outcome(encode_varint, -(1 << 63) - 1) == ("exc", "ValueError", ERR)
assert size_varint(0) == 1 and encode_varint(0) == b"\x00"

# int-like values that reach the codec in practice: bool and enum members
class Num(betterproto.Enum):
    NEG = -1
    ZERO = 0
    BIG = 300


for v, want in ((True, b"\x01"), (False, b"\x00"), (Num.NEG, b"\xff" * 9 + b"\x01"),
                (Num.ZERO, b"\x00"), (Num.BIG, b"\xac\x02"), (Num.try_value(-7), ref_varint(-7))):
    assert encode_varint(v) == want and size_varint(v) == len(want)

# not-a-number-like inputs: same outcome class as before (recorded on the reference tree)
for bad in (None, "1", b"1", [1]):
    for fn in (encode_varint, size_varint):
        assert outcome(fn, bad)[:2] == ("exc", "TypeError"), (fn.__name__, bad)
assert outcome(size_varint, 0.0) == ("ok", 1)
assert outcome(size_varint, -1.0) == ("ok", 10)
assert outcome(size_varint, -0.0) == ("ok", 1)
assert outcome(size_varint, 1.5)[:2] == ("exc", "AttributeError")
assert outcome(size_varint, float("nan"))[:2] == ("exc", "AttributeError")
assert outcome(size_varint, float("-inf")) == ("exc", "ValueError", ERR)
assert outcome(size_varint, -1e30) == ("exc", "ValueError", ERR)
for bad in (0.0, -1.0, 1.5, float("nan")):
    assert outcome(encode_varint, bad)[:2] == ("exc", "TypeError"), bad
assert outcome(encode_varint, float("-inf")) == ("exc", "ValueError", ERR)


# ------------------------------------------------------------------ 2. delimited frames
@dataclass(eq=False, repr=False)
class Blob(betterproto.Message):
    data: bytes = betterproto.bytes_field(1)


@dataclass(eq=False, repr=False)
class Ints(betterproto.Message):
    a: int = betterproto.int32_field(1)
    b: int = betterproto.int64_field(2)
    c: Num = betterproto.enum_field(3)
    d: List[int] = betterproto.int32_field(4)
    e: List[int] = betterproto.int64_field(5)
    f: int = betterproto.uint64_field(6)
    g: int = betterproto.sint64_field(7)
    h: List[int] = betterproto.sint32_field(8)
    big: int = betterproto.int32_field(1 << 28)


@dataclass(eq=False, repr=False)
class Empty(betterproto.Message):
    pass


def build_google():
    F = descriptor_pb2.FieldDescriptorProto
    fd = descriptor_pb2.FileDescriptorProto(name="c10k2.proto", package="c10k2", syntax="proto3")
    en = fd.enum_type.add(name="Num")
    for n, i in (("ZERO", 0), ("NEG", -1), ("BIG", 300)):
        en.value.add(name=n, number=i)
    blob = fd.message_type.add(name="Blob")
    blob.field.add(name="data", number=1, type=F.TYPE_BYTES, label=F.LABEL_OPTIONAL)
    m = fd.message_type.add(name="Ints")
    for name, number, t, lab in (
        ("a", 1, F.TYPE_INT32, F.LABEL_OPTIONAL), ("b", 2, F.TYPE_INT64, F.LABEL_OPTIONAL),
        ("c", 3, F.TYPE_ENUM, F.LABEL_OPTIONAL), ("d", 4, F.TYPE_INT32, F.LABEL_REPEATED),
        ("e", 5, F.TYPE_INT64, F.LABEL_REPEATED), ("f", 6, F.TYPE_UINT64, F.LABEL_OPTIONAL),
        ("g", 7, F.TYPE_SINT64, F.LABEL_OPTIONAL), ("h", 8, F.TYPE_SINT32, F.LABEL_REPEATED),
        ("big", 1 << 28, F.TYPE_INT32, F.LABEL_OPTIONAL),
    ):
        f = m.field.add(name=name, number=number, type=t, label=lab)
        if t == F.TYPE_ENUM:
            f.type_name = ".c10k2.Num"
    pool = descriptor_pool.DescriptorPool()
    pool.Add(fd)
    get = lambda n: message_factory.GetMessageClass(pool.FindMessageTypeByName("c10k2." + n))
    return get("Blob"), get("Ints")


GBlob, GInts = build_google()

# prefix length boundaries: body sizes around 2**7, 2**14, 2**21
for body_len in (0, 1, 2, 125, 126, 127, 128, 129, 16381, 16382, 16383, 16384, 16385,
                 (1 << 21) - 4, (1 << 21) - 3, (1 << 21) - 2, 1 << 21):
    # the bytes field itself costs 1 tag byte + its own length varint
    payload = bytes(rnd.getrandbits(8) for _ in range(min(body_len, 64))) + b"\x00" * max(0, body_len - 64)
    msg = Blob(data=payload)
    n = len(msg)
    assert n == len(bytes(msg))
    rec = Rec()
    msg.dump(rec, SIZE_DELIMITED)
    prefix = ref_varint(n)
    assert rec.calls[: len(prefix)] == [bytes([b]) for b in prefix]
    framed = b"".join(rec.calls)
    assert framed == prefix + bytes(msg)
    gs = io.BytesIO()
    proto.serialize_length_prefixed(GBlob(data=payload), gs)
    assert gs.getvalue() == framed
    s = io.BytesIO(framed + framed)
    one = Blob().load(s, SIZE_DELIMITED)
    assert s.tell() == len(framed) and one == msg
    two = Blob().load(s, SIZE_DELIMITED)
    assert s.read() == b"" and two == msg


def rand_ints():
    def i32():
        return rnd.choice([0, 1, -1, 127, 128, -128, 2**31 - 1, -(2**31), rnd.randint(-(2**31), 2**31 - 1)])

    def i64():
        return rnd.choice([0, 1, -1, 2**63 - 1, -(2**63), -(2**32), rnd.randint(-(2**63), 2**63 - 1)])

    return dict(
        a=i32(), b=i64(), c=rnd.choice([Num.NEG, Num.ZERO, Num.BIG]),
        d=[i32() for _ in range(rnd.choice([0, 1, 3, 20]))],
        e=[i64() for _ in range(rnd.choice([0, 1, 3, 20]))],
        f=rnd.choice([0, 1, 2**63, 2**64 - 1, rnd.randint(0, 2**64 - 1)]),
        g=i64(), h=[i32() for _ in range(rnd.choice([0, 2, 9]))],
        big=rnd.choice([0, -1, 5]),
    )


for _ in range(250):
    seq = []
    for _ in range(rnd.randint(0, 5)):
        k = rnd.random()
        if k < 0.2:
            seq.append((Empty(), None))
        elif k < 0.35:
            data = bytes(rnd.getrandbits(8) for _ in range(rnd.choice([0, 1, 126, 127, 128, 300])))
            seq.append((Blob(data=data), GBlob(data=data)))
        else:
            kw = rand_ints()
            seq.append((Ints(**kw), GInts(**{**kw, "c": int(kw["c"])})))
    out = io.BytesIO()
    gout = io.BytesIO()
    for m, g in seq:
        before = out.tell()
        m.dump(out, SIZE_DELIMITED)
        body = bytes(m)
        assert len(m) == len(body)
        assert out.getvalue()[before:] == ref_varint(len(body)) + body
        if g is None:
            gout.write(b"\x00")
        else:
            proto.serialize_length_prefixed(g, gout)
    data = out.getvalue()
    assert data == gout.getvalue()  # identical framing and bodies to the reference implementation
    s = io.BytesIO(data)
    gs = io.BytesIO(data)
    for m, g in seq:
        start = s.tell()
        r = type(m)().load(s, SIZE_DELIMITED)
        assert r == m and bytes(r) == bytes(m)
        assert s.tell() - start == size_varint(len(m)) + len(m)
        if g is not None:
            assert proto.parse_length_prefixed(type(g), gs) == g
        else:
            assert gs.read(1) == b"\x00"
    assert s.read() == b""
    if len(data) <= 400:
        for cut in range(len(data) + 1):
            ts = io.BytesIO(data[:cut])
            for m, _ in seq:
                try:
                    r = type(m)().load(ts, SIZE_DELIMITED)
                except (EOFError, ValueError, struct.error):
                    break
                assert r == m and bytes(r) == bytes(m)

# values that cannot be encoded: neither the length nor the dump goes through, nothing framed
for bad in (Ints(b=-(1 << 63) - 1), Ints(e=[1, -(1 << 64)]), Ints(a=-(1 << 70))):
    assert outcome(len, bad) == ("exc", "ValueError", ERR)
    rec = Rec()
    assert outcome(bad.dump, rec, SIZE_DELIMITED) == ("exc", "ValueError", ERR)
    assert rec.calls == []
    assert outcome(bytes, bad) == ("exc", "ValueError", ERR)

print("equiv keep2 OK:", n_ok, "values,", n_err, "range errors")
