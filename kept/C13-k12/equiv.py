import importlib, itertools, os, shutil, sys, tempfile, typing
from google.protobuf import descriptor_pb2 as D
from google.protobuf.compiler import plugin_pb2

import betterproto
from betterproto.plugin import compiler as plugin_compiler
plugin_compiler.subprocess.check_output = lambda cmd, input, encoding: input
from betterproto.lib.google.protobuf.compiler import CodeGeneratorRequest
from betterproto.plugin.parser import generate_code
from betterproto.plugin.models import monkey_patch_oneof_index
monkey_patch_oneof_index()

F = D.FieldDescriptorProto


def make_target_file(pkg, fname):
    """A file of package pkg with Target, Target.Inner, Kind, Target.Mode."""
    f = D.FileDescriptorProto(name=fname, package=pkg, syntax="proto3")
    m = f.message_type.add(name="Target")
    m.field.add(name="v", number=1, type=F.TYPE_INT32, label=F.LABEL_OPTIONAL, json_name="v")
    inner = m.nested_type.add(name="Inner")
    inner.field.add(name="w", number=1, type=F.TYPE_INT32, label=F.LABEL_OPTIONAL, json_name="w")
    ne = m.enum_type.add(name="Mode")
    ne.value.add(name="MODE_ZERO", number=0)
    ne.value.add(name="MODE_ONE", number=1)
    e = f.enum_type.add(name="Kind")
    e.value.add(name="KIND_ZERO", number=0)
    e.value.add(name="KIND_ONE", number=1)
    return f


def tname(pkg, name):
    return "." + (pkg + "." if pkg else "") + name


def add_entry(msg, fname, vtype, vtname):
    entry = msg.nested_type.add(name="".join(p.capitalize() for p in fname.split("_")) + "Entry")
    entry.options.map_entry = True
    entry.field.add(name="key", number=1, type=F.TYPE_STRING, label=F.LABEL_OPTIONAL, json_name="key")
    entry.field.add(name="value", number=2, type=vtype, label=F.LABEL_OPTIONAL, type_name=vtname, json_name="value")
    return entry.name


def add_refs(f, holder_name, own_pkg, target_pkg, tag, service=True):
    """Adds message <holder_name> to file f (package own_pkg) that references the four
    kinds of target_pkg at the sites field/repeated/map/oneof, and a service."""
    m = f.message_type.add(name=holder_name)
    kinds = [("msg", F.TYPE_MESSAGE, "Target"), ("inner", F.TYPE_MESSAGE, "Target.Inner"),
             ("kind", F.TYPE_ENUM, "Kind"), ("mode", F.TYPE_ENUM, "Target.Mode")]
    n = 0
    m.oneof_decl.add(name="choice")
    for kname, ftype, t in kinds:
        full = tname(target_pkg, t)
        n += 1
        m.field.add(name=f"f_{kname}", number=n, type=ftype, label=F.LABEL_OPTIONAL, type_name=full, json_name=f"f{kname}")
        n += 1
        m.field.add(name=f"r_{kname}", number=n, type=ftype, label=F.LABEL_REPEATED, type_name=full, json_name=f"r{kname}")
        n += 1
        ename = add_entry(m, f"m_{kname}", ftype, full)
        m.field.add(name=f"m_{kname}", number=n, type=F.TYPE_MESSAGE, label=F.LABEL_REPEATED,
                    type_name=tname(own_pkg, holder_name + "." + ename), json_name=f"m{kname}")
        n += 1
        m.field.add(name=f"o_{kname}", number=n, type=ftype, label=F.LABEL_OPTIONAL, type_name=full,
                    json_name=f"o{kname}", oneof_index=0)
    if service:
        s = f.service.add(name=holder_name + "Svc")
        s.method.add(name="In", input_type=tname(target_pkg, "Target"), output_type=tname(own_pkg, holder_name))
        s.method.add(name="Out", input_type=tname(own_pkg, holder_name), output_type=tname(target_pkg, "Target.Inner"))
        s.method.add(name="Bidi", input_type=tname(target_pkg, "Target.Inner"), output_type=tname(target_pkg, "Target"),
                     client_streaming=True, server_streaming=True)
    return m


def generate(files, root, parameter=""):
    req = plugin_pb2.CodeGeneratorRequest(parameter=parameter)
    for f in files:
        req.file_to_generate.append(f.name)
        req.proto_file.append(f)
    request = CodeGeneratorRequest().parse(req.SerializeToString())
    cwd = os.getcwd()
    os.chdir(root)  # generate_code looks for existing __init__.py relative to cwd
    try:
        response = generate_code(request)
    finally:
        os.chdir(cwd)
    out = {}
    for rf in response.file:
        path = os.path.join(root, rf.name)
        os.makedirs(os.path.dirname(path), exist_ok=True)
        with open(path, "w") as fh:
            fh.write(rf.content)
        out[rf.name] = rf.content
    return out


# ---------------------------------------------------------------------------------
# Reference: generate_code as originally written (messages of ALL packages are read
# before the services of all packages; one loop renders, records the path and appends).
# ---------------------------------------------------------------------------------
import contextlib
import io
import pathlib
import random

from betterproto.lib.google.protobuf.compiler import (
    CodeGeneratorResponse,
    CodeGeneratorResponseFeature,
    CodeGeneratorResponseFile,
)
from betterproto.plugin.compiler import outputfile_compiler
from betterproto.plugin.models import OutputTemplate, PluginRequestCompiler
from betterproto.plugin.parser import read_protobuf_service, read_protobuf_type, traverse
from betterproto.plugin.typing_compiler import (
    DirectImportTypingCompiler,
    NoTyping310TypingCompiler,
    TypingImportTypingCompiler,
)


def ref_generate_code(request):
    response = CodeGeneratorResponse()
    plugin_options = request.parameter.split(",") if request.parameter else []
    response.supported_features = CodeGeneratorResponseFeature.FEATURE_PROTO3_OPTIONAL
    request_data = PluginRequestCompiler(plugin_request_obj=request)
    for proto_file in request.proto_file:
        output_package_name = proto_file.package
        if output_package_name not in request_data.output_packages:
            request_data.output_packages[output_package_name] = OutputTemplate(
                parent_request=request_data, package_proto_obj=proto_file
            )
        request_data.output_packages[output_package_name].input_files.append(proto_file)
        if proto_file.package == "google.protobuf" and "INCLUDE_GOOGLE" not in plugin_options:
            request_data.output_packages[output_package_name].output = False
        if "pydantic_dataclasses" in plugin_options:
            request_data.output_packages[output_package_name].pydantic_dataclasses = True
        typing_opts = [opt[len("typing."):] for opt in plugin_options if opt.startswith("typing.")]
        if len(typing_opts) > 1:
            raise ValueError("Multiple typing options provided")
        typing_opt = typing_opts[0] if typing_opts else "direct"
        if typing_opt == "direct":
            request_data.output_packages[output_package_name].typing_compiler = DirectImportTypingCompiler()
        elif typing_opt == "root":
            request_data.output_packages[output_package_name].typing_compiler = TypingImportTypingCompiler()
        elif typing_opt == "310":
            request_data.output_packages[output_package_name].typing_compiler = NoTyping310TypingCompiler()

    for output_package_name, output_package in request_data.output_packages.items():
        for proto_input_file in output_package.input_files:
            for item, path in traverse(proto_input_file):
                read_protobuf_type(source_file=proto_input_file, item=item, path=path, output_package=output_package)

    for output_package_name, output_package in request_data.output_packages.items():
        for proto_input_file in output_package.input_files:
            for index, service in enumerate(proto_input_file.service):
                read_protobuf_service(proto_input_file, service, index, output_package)

    output_paths = set()
    for output_package_name, output_package in request_data.output_packages.items():
        if not output_package.output:
            continue
        output_path = pathlib.Path(*output_package_name.split("."), "__init__.py")
        output_paths.add(output_path)
        response.file.append(
            CodeGeneratorResponseFile(name=str(output_path), content=outputfile_compiler(output_file=output_package))
        )

    init_files = {
        directory.joinpath("__init__.py")
        for path in output_paths
        for directory in path.parents
        if not directory.joinpath("__init__.py").exists()
    } - output_paths
    for init_file in init_files:
        response.file.append(CodeGeneratorResponseFile(name=str(init_file)))
    return response


def make_request(files, parameter=""):
    req = plugin_pb2.CodeGeneratorRequest(parameter=parameter)
    for f in files:
        req.file_to_generate.append(f.name)
        req.proto_file.append(f)
    return req.SerializeToString()


def run_both(files, parameter=""):
    """Runs the library's generate_code and the reference on fresh copies of the request
    (traverse renames the descriptors in place) in an empty working directory and
    compares the responses. Returns the library's response as {name: content}."""
    data = make_request(files, parameter)
    empty = tempfile.mkdtemp(prefix="c13_cwd_")
    cwd = os.getcwd()
    os.chdir(empty)
    try:
        with contextlib.redirect_stderr(io.StringIO()) as err:
            got = generate_code(CodeGeneratorRequest().parse(data))
        with contextlib.redirect_stderr(io.StringIO()):
            want = ref_generate_code(CodeGeneratorRequest().parse(data))
    finally:
        os.chdir(cwd)
        shutil.rmtree(empty, ignore_errors=True)
    assert got.supported_features == want.supported_features
    n_modules = sum(1 for f in want.file if f.content)
    # generated modules: same names, same order, same text
    assert [(f.name, f.content) for f in got.file[:n_modules]] == [(f.name, f.content) for f in want.file[:n_modules]]
    # empty __init__.py of intermediate directories: same set (set iteration order is not specified)
    assert sorted((f.name, f.content) for f in got.file[n_modules:]) == sorted(
        (f.name, f.content) for f in want.file[n_modules:])
    assert all(not f.content for f in got.file[n_modules:])
    names = [f.name for f in got.file]
    assert len(names) == len(set(names)), names
    assert bytes(got) == bytes(want) or n_modules != len(want.file)
    # what is announced on stderr
    assert err.getvalue().splitlines() == [f"Writing {n}" for n in sorted(pathlib.Path(n) for n in names)]
    return {f.name: f.content for f in got.file}


def write_tree(base, root_name, out):
    for name, content in out.items():
        path = os.path.join(base, root_name, name)
        os.makedirs(os.path.dirname(path), exist_ok=True)
        with open(path, "w") as fh:
            fh.write(content)


ALL_PACKAGES = [""] + [".".join(p) for n in (1, 2, 3) for p in itertools.product("ab", repeat=n)]


def random_files(rng, packages, density):
    """Target file(s) per package - the types of a package are spread over two proto
    files for some packages - plus Ref files for a random set of ordered pairs."""
    files = []
    for i, pkg in enumerate(packages):
        f = make_target_file(pkg, f"target{i}.proto")
        if rng.random() < 0.5:
            # move the enum Kind into a second file of the same package
            g = D.FileDescriptorProto(name=f"target{i}_kind.proto", package=pkg, syntax="proto3")
            g.enum_type.add().CopyFrom(f.enum_type[0])
            del f.enum_type[:]
            files.append(g)
        files.append(f)
    pairs = []
    for i, pkg in enumerate(packages):
        for j, other in enumerate(packages):
            if i != j and rng.random() < density:
                pairs.append((i, j))
                f = D.FileDescriptorProto(name=f"refs{i}_{j}.proto", package=pkg, syntax="proto3")
                add_refs(f, holder_name(other), pkg, other, "", service=rng.random() < 0.7)
                files.append(f)
    if rng.random() < 0.5:
        # a package that only has a service, on types of other packages
        f = D.FileDescriptorProto(name="only_service.proto", package="svc.only", syntax="proto3")
        s = f.service.add(name="Only")
        s.method.add(name="Call", input_type=tname(packages[0], "Target"), output_type=tname(packages[-1], "Target.Inner"),
                     server_streaming=True)
        files.append(f)
    rng.shuffle(files)
    return files, pairs


def holder_name(target_pkg):
    return "Ref" + ("".join("P" + p for p in target_pkg.split(".")) if target_pkg else "Root")


KINDS = {"msg": "Target", "inner": "TargetInner", "kind": "Kind", "mode": "TargetMode"}


def check_imported(root_name, packages, pairs, files):
    mods = {pkg: importlib.import_module(root_name + ("." + pkg if pkg else "")) for pkg in packages}
    has_service = {f.name for f in files if f.service}
    for i, j in pairs:
        pkg, other = packages[i], packages[j]
        holder = getattr(mods[pkg], holder_name(other))
        hints = holder._type_hints()
        for k, clsname in KINDS.items():
            want = getattr(mods[other], clsname)
            assert want.__module__ == mods[other].__name__
            assert hints[f"f_{k}"] is want and hints[f"o_{k}"] is want, (pkg, other, k)
            assert typing.get_args(hints[f"r_{k}"]) == (want,), (pkg, other, k)
            assert typing.get_args(hints[f"m_{k}"]) == (str, want), (pkg, other, k)
        o = mods[other]
        msg = holder(f_msg=o.Target(v=1), r_inner=[o.TargetInner(w=2)], m_kind={"k": o.Kind(1)}, o_mode=o.TargetMode(1))
        back = holder().parse(bytes(msg))
        assert back == msg and type(back.f_msg) is o.Target and type(back.r_inner[0]) is o.TargetInner
        assert type(back.m_kind["k"]) is o.Kind and type(back.o_mode) is o.TargetMode
        if f"refs{i}_{j}.proto" in has_service:
            mapping = getattr(mods[pkg], holder_name(other) + "SvcBase")().__mapping__()
            route = "/" + (pkg + "." if pkg else "") + holder_name(other) + "Svc/"
            assert (mapping[route + "In"].request_type, mapping[route + "In"].reply_type) == (o.Target, holder)
            assert (mapping[route + "Out"].request_type, mapping[route + "Out"].reply_type) == (holder, o.TargetInner)
            assert (mapping[route + "Bidi"].request_type, mapping[route + "Bidi"].reply_type) == (o.TargetInner, o.Target)
    if "only_service.proto" in has_service:
        only = importlib.import_module(root_name + ".svc.only")
        handler = only.OnlyBase().__mapping__()["/svc.only.Only/Call"]
        assert handler.request_type is mods[packages[0]].Target and handler.reply_type is mods[packages[-1]].TargetInner
    return len(pairs)


def test_random_requests(base):
    rng = random.Random(1313)
    compared = imported = 0
    parameters = ["", "", "typing.direct", "typing.root", "typing.310", "pydantic_dataclasses", "INCLUDE_GOOGLE",
                  "typing.310,pydantic_dataclasses", "unknown_option"]
    for seed in range(36):
        packages = rng.sample(ALL_PACKAGES, rng.randint(2, 6))
        files, pairs = random_files(rng, packages, density=rng.choice([0.3, 0.6, 1.0]))
        parameter = parameters[seed % len(parameters)]
        out = run_both(files, parameter)
        compared += 1
        # every package has a module; packages are listed in order of first appearance
        first_seen = list(dict.fromkeys(f.package for f in files))
        modules = [n for n, c in out.items() if c]
        assert modules == [os.path.join(*p.split("."), "__init__.py") if p else "__init__.py" for p in first_seen]
        if "pydantic" not in parameter:
            root_name = f"gen_rand{seed}"
            write_tree(base, root_name, out)
            imported += check_imported(root_name, packages, pairs, files)
    return compared, imported


def test_google_and_errors():
    # a request that carries google/protobuf/any.proto: not written unless INCLUDE_GOOGLE
    g = D.FileDescriptorProto(name="google/protobuf/any.proto", package="google.protobuf", syntax="proto3")
    any_msg = g.message_type.add(name="Any")
    any_msg.field.add(name="type_url", number=1, type=F.TYPE_STRING, label=F.LABEL_OPTIONAL, json_name="typeUrl")
    u = D.FileDescriptorProto(name="user.proto", package="a.b", syntax="proto3")
    u.dependency.append("google/protobuf/any.proto")
    m = u.message_type.add(name="Box")
    m.field.add(name="payload", number=1, type=F.TYPE_MESSAGE, label=F.LABEL_OPTIONAL,
                type_name=".google.protobuf.Any", json_name="payload")
    s = u.service.add(name="Boxes")
    s.method.add(name="Open", input_type=".a.b.Box", output_type=".google.protobuf.Any")
    for order in ([g, u], [u, g]):
        out = run_both(order)
        assert sorted(out) == ["__init__.py", "a/__init__.py", "a/b/__init__.py"], sorted(out)
        assert "betterproto_lib_google_protobuf.Any" in out["a/b/__init__.py"]
        out = run_both(order, "INCLUDE_GOOGLE")
        assert sorted(out) == ["__init__.py", "a/__init__.py", "a/b/__init__.py", "google/__init__.py",
                               "google/protobuf/__init__.py"], sorted(out)
        assert "class Any(" in out["google/protobuf/__init__.py"]
    # only google.protobuf in the request: nothing to write
    assert run_both([g]) == {}
    # an empty request
    assert run_both([]) == {}
    # error path: two typing options
    for gen in (generate_code, ref_generate_code):
        try:
            gen(CodeGeneratorRequest().parse(make_request([u], "typing.root,typing.310")))
        except ValueError as exc:
            assert str(exc) == "Multiple typing options provided"
        else:
            raise AssertionError("expected ValueError")
    # a file without any type or service still yields a module
    e = D.FileDescriptorProto(name="empty.proto", package="e", syntax="proto3")
    out = run_both([e, u])
    assert [n for n, c in out.items() if c] == ["e/__init__.py", "a/b/__init__.py"]
    return True


def test_full_circle(base):
    """All packages depend on each other circularly, in one request, and everything resolves."""
    packages = ["", "a", "a.b", "a.c", "a.b.d", "e.f"]
    files = [make_target_file(pkg, f"target{i}.proto") for i, pkg in enumerate(packages)]
    pairs = []
    for i, pkg in enumerate(packages):
        for j, other in enumerate(packages):
            if i != j:
                f = D.FileDescriptorProto(name=f"refs{i}_{j}.proto", package=pkg, syntax="proto3")
                add_refs(f, holder_name(other), pkg, other, "")
                files.append(f)
                pairs.append((i, j))
    for k, parameter in enumerate(["", "typing.root", "typing.310"]):
        out = run_both(files, parameter)
        write_tree(base, f"gen_circle{k}", out)
        assert check_imported(f"gen_circle{k}", packages, pairs, files) == 30
    return True


if __name__ == "__main__":
    base = tempfile.mkdtemp(prefix="c13_keep2_")
    sys.path.insert(0, base)
    try:
        print("random requests compared / references checked after import:", test_random_requests(base))
        print("google.protobuf, empty and error requests:", test_google_and_errors())
        print("full circle:", test_full_circle(base))
    finally:
        sys.path.remove(base)
        shutil.rmtree(base, ignore_errors=True)
    print("OK")
