"""
C03 / keep2 equivalence check.

The refactor of betterproto/casing.py compiles the two word splitting patterns once at
module level and replaces the closures of snake_case() / pascal_case() by module level
helpers with early returns (strict and non strict mode are now separate functions).

casing.py names every generated class (pascal_case via pythonize_class_name, for the
definition from the flattened `_Outer_Inner` and for references from `Outer.Inner`),
every field (safe_snake_case) and the enum member prefix (snake_case).

This script
  * embeds the ORIGINAL casing.py / naming.py functions and compares them with the
    tree's functions on: all strings over two small alphabets (letters, capitals,
    digits and the separators `_ . - space`) up to length 5 / 6, thousands of names
    built from word tokens (acronyms, digits, keywords, builtins, unicode), random
    unicode text, and every type / field / enum value name of the grammar generated
    schemas and of the tests/inputs corpus - in strict and non strict mode;
  * compares the names the plugin's compilers produce with the original rules;
  * imports every generated package and checks the C03 statement against the
    FileDescriptorSet (one class per message / enum under the expected name, fields
    under the expected names with number, proto type, cardinality, map types, oneof
    group, wrapper, resolved type hints; enum numbers).
It passes on the reference tree and on the refactored tree.
"""
import contextlib
import dataclasses
import datetime
import glob
import importlib
import io
import itertools
import keyword
import os
import random
import re
import shutil
import sys
import tempfile
import types
import typing

import grpc_tools
from google.protobuf import descriptor_pb2
from google.protobuf.compiler import plugin_pb2
from grpc_tools import protoc

import betterproto
import betterproto.lib.google.protobuf as lib_google_protobuf
import betterproto.plugin.compiler as plugin_compiler
import betterproto.plugin.models as plugin_models
import betterproto.plugin.parser as plugin_parser
from betterproto.lib.google.protobuf.compiler import CodeGeneratorRequest

# ruff (import sorter / formatter) is not installed: keep the rendered text as is
plugin_compiler.subprocess.check_output = lambda cmd, input, encoding: input
plugin_models.monkey_patch_oneof_index()

WORKTREE = os.path.dirname(os.path.dirname(os.path.dirname(betterproto.__file__)))
FD = descriptor_pb2.FieldDescriptorProto

# --------------------------------------------------------------------------------------
# reference copy of the naming rules (betterproto/casing.py + compile/naming.py as they
# are in the reference tree); used as the oracle for class / field / member names
# --------------------------------------------------------------------------------------
REF_SYMBOLS = "[^a-zA-Z0-9]*"
REF_WORD = "[A-Z]*[a-z]*[0-9]*"
REF_WORD_UPPER = "[A-Z]+(?![a-z])[0-9]*"


def ref_sanitize_name(value):
    if keyword.iskeyword(value):
        return f"{value}_"
    if not value.isidentifier():
        return f"_{value}"
    return value


def ref_snake_case(value, strict=True):
    def substitute_word(symbols, word, is_start):
        if not word:
            return ""
        if strict:
            delimiter_count = 0 if is_start else 1
        elif is_start:
            delimiter_count = len(symbols)
        elif word.isupper() or word.islower():
            delimiter_count = max(1, len(symbols))
        else:
            delimiter_count = len(symbols) + 1
        return ("_" * delimiter_count) + word.lower()

    return re.sub(
        f"(^)?({REF_SYMBOLS})({REF_WORD_UPPER}|{REF_WORD})",
        lambda groups: substitute_word(groups[2], groups[3], groups[1] is not None),
        value,
    )


def ref_pascal_case(value, strict=True):
    def substitute_word(symbols, word):
        if strict:
            return word.capitalize()
        if word.islower():
            delimiter_length = len(symbols[:-1])
        else:
            delimiter_length = len(symbols)
        return ("_" * delimiter_length) + word.capitalize()

    return re.sub(
        f"({REF_SYMBOLS})({REF_WORD_UPPER}|{REF_WORD})",
        lambda groups: substitute_word(groups[1], groups[2]),
        value,
    )


def ref_camel_case(value, strict=True):
    pascal = ref_pascal_case(value, strict=strict)
    return pascal[0:1].lower() + pascal[1:]


def ref_safe_snake_case(value):
    return ref_sanitize_name(ref_snake_case(value))


def ref_class_name(dotted):
    return ref_sanitize_name(ref_pascal_case(dotted))


def ref_enum_member_name(name, flat_enum_name):
    prefix = ref_snake_case(flat_enum_name).upper() + "_"
    if name.startswith(prefix) and name[len(prefix) :].strip("_"):
        name = name[len(prefix) :].strip("_")
    return ref_sanitize_name(name)


# --------------------------------------------------------------------------------------
# harness: protoc -> FileDescriptorSet -> plugin (in process) -> files -> import
# --------------------------------------------------------------------------------------
WKT_INCLUDE = os.path.join(os.path.dirname(grpc_tools.__file__), "_proto")


def compile_schema(files, source_info=True):
    """files: {relative path: text}.  Returns a FileDescriptorSet or None (protoc error)."""
    src = tempfile.mkdtemp(prefix="c03_src_")
    try:
        for rel, text in files.items():
            path = os.path.join(src, rel)
            os.makedirs(os.path.dirname(path), exist_ok=True)
            with open(path, "w") as fh:
                fh.write(text)
        out = os.path.join(src, "fds.bin")
        args = ["protoc", f"-I{src}", f"-I{WKT_INCLUDE}"]
        args += [f"--descriptor_set_out={out}", "--include_imports"]
        if source_info:
            args.append("--include_source_info")
        args += files
        sys.stderr.flush()
        saved = os.dup(2)
        devnull = os.open(os.devnull, os.O_WRONLY)
        try:
            os.dup2(devnull, 2)  # protoc reports errors from C++
            rc = protoc.main(args)
        finally:
            os.dup2(saved, 2)
            os.close(saved)
            os.close(devnull)
        if rc != 0:
            return None
        with open(out, "rb") as fh:
            return descriptor_pb2.FileDescriptorSet.FromString(fh.read())
    finally:
        shutil.rmtree(src)


_captured = []


class _CapturingRequestCompiler(plugin_models.PluginRequestCompiler):
    def __init__(self, *args, **kwargs):
        super().__init__(*args, **kwargs)
        _captured.append(self)


plugin_parser.PluginRequestCompiler = _CapturingRequestCompiler


def run_plugin(fds, parameter=""):
    """Returns ({file name: content}, PluginRequestCompiler built by generate_code)."""
    req = plugin_pb2.CodeGeneratorRequest()
    req.parameter = parameter
    for f in fds.file:
        req.proto_file.append(f)
        req.file_to_generate.append(f.name)
    request = CodeGeneratorRequest().parse(req.SerializeToString())
    del _captured[:]
    with contextlib.redirect_stderr(io.StringIO()):
        response = plugin_parser.generate_code(request)
    files = {}
    for f in response.file:
        assert f.name not in files, f"file {f.name} emitted twice"
        files[f.name] = f.content
    return files, _captured[-1]


_counter = itertools.count()


@contextlib.contextmanager
def imported(files):
    """Writes the response files below a fresh top-level package and yields its name."""
    root = tempfile.mkdtemp(prefix="c03_out_")
    top = f"c03gen{next(_counter)}"
    try:
        for rel, text in files.items():
            path = os.path.join(root, top, rel)
            os.makedirs(os.path.dirname(path), exist_ok=True)
            with open(path, "w") as fh:
                fh.write(text)
        sys.path.insert(0, root)
        importlib.invalidate_caches()
        yield top
    finally:
        if root in sys.path:
            sys.path.remove(root)
        for name in [n for n in sys.modules if n == top or n.startswith(top + ".")]:
            del sys.modules[name]
        shutil.rmtree(root)


# --------------------------------------------------------------------------------------
# oracle: what the FileDescriptorSet says the generated package has to contain
# --------------------------------------------------------------------------------------
SCALAR_PY = {
    FD.TYPE_DOUBLE: float, FD.TYPE_FLOAT: float,
    FD.TYPE_INT64: int, FD.TYPE_UINT64: int, FD.TYPE_INT32: int,
    FD.TYPE_FIXED64: int, FD.TYPE_FIXED32: int, FD.TYPE_UINT32: int,
    FD.TYPE_SFIXED32: int, FD.TYPE_SFIXED64: int, FD.TYPE_SINT32: int,
    FD.TYPE_SINT64: int, FD.TYPE_BOOL: bool, FD.TYPE_STRING: str,
    FD.TYPE_BYTES: bytes,
}  # fmt: skip
PROTO_TYPE_NAME = {
    number: name[len("TYPE_") :].lower() for name, number in FD.Type.items()
}
WRAPPERS = {
    ".google.protobuf.DoubleValue": ("double", float),
    ".google.protobuf.FloatValue": ("float", float),
    ".google.protobuf.Int32Value": ("int32", int),
    ".google.protobuf.Int64Value": ("int64", int),
    ".google.protobuf.UInt32Value": ("uint32", int),
    ".google.protobuf.UInt64Value": ("uint64", int),
    ".google.protobuf.BoolValue": ("bool", bool),
    ".google.protobuf.StringValue": ("string", str),
    ".google.protobuf.BytesValue": ("bytes", bytes),
}


def norm(hint):
    """Structural normal form of a resolved type hint (List/list, Optional/| agree)."""
    origin = typing.get_origin(hint)
    args = typing.get_args(hint)
    if origin is list:
        return ("list", norm(args[0]))
    if origin is dict:
        return ("dict", norm(args[0]), norm(args[1]))
    if origin is typing.Union or origin is types.UnionType:
        members = frozenset(norm(a) for a in args)
        return ("union", members) if len(members) > 1 else next(iter(members))
    return hint


def optional_of(norm_hint):
    if isinstance(norm_hint, tuple) and norm_hint[0] == "union":
        return ("union", norm_hint[1] | {type(None)})
    return ("union", frozenset({norm_hint, type(None)}))


def walk_types(file_proto):
    """Yields (kind, flattened dotted name, descriptor) for every message / enum."""

    def _walk(messages, prefix):
        for m in messages:
            dotted = f"{prefix}{m.name}"
            yield "message", dotted, m
            for e in m.enum_type:
                yield "enum", f"{dotted}.{e.name}", e
            yield from _walk(m.nested_type, dotted + ".")

    for e in file_proto.enum_type:
        yield "enum", e.name, e
    yield from _walk(file_proto.message_type, "")


def check_generated(fds, files, top, check_hints=True):
    """
    The C03 statement, checked for one generated package tree that has been written
    below the top-level package ``top``.  Returns the number of fields checked.
    """
    by_package = {}
    for f in fds.file:
        by_package.setdefault(f.package, []).append(f)
    # where does every full type name live?
    location = {}
    for f in fds.file:
        for kind, dotted, desc in walk_types(f):
            full = f".{f.package}.{dotted}" if f.package else f".{dotted}"
            location[full] = (f.package, ref_class_name(dotted), kind, desc)

    modules = {}
    for package in by_package:
        if package == "google.protobuf":
            assert not any(
                name.startswith("google/protobuf/") for name in files
            ), "well known types are not generated without INCLUDE_GOOGLE"
            continue
        rel = os.path.join(*package.split("."), "__init__.py") if package else "__init__.py"
        assert rel in files, (rel, sorted(files))
        name = f"{top}.{package}" if package else top
        modules[package] = importlib.import_module(name)
    # every directory is a package
    for rel in files:
        assert os.path.basename(rel) == "__init__.py", rel
        directory = os.path.dirname(rel)
        while directory:
            directory = os.path.dirname(directory)
            assert os.path.join(directory, "__init__.py") in files, (rel, directory)

    def resolve(type_name):
        if type_name.startswith(".google.protobuf.") and type_name not in location:
            raise AssertionError(f"unknown well known type {type_name}")
        package, cls_name, kind, desc = location[type_name]
        if package == "google.protobuf":
            return getattr(lib_google_protobuf, cls_name)
        return getattr(modules[package], cls_name)

    def value_hint(field):
        """Normalised hint of one value of the field and the expected ``wraps``."""
        if field.type in SCALAR_PY:
            return SCALAR_PY[field.type], None
        if field.type_name in WRAPPERS:
            proto_type, py = WRAPPERS[field.type_name]
            return optional_of(py), proto_type
        if field.type_name == ".google.protobuf.Timestamp":
            return datetime.datetime, None
        if field.type_name == ".google.protobuf.Duration":
            return datetime.timedelta, None
        return resolve(field.type_name), None

    checked = 0
    for package, protos in by_package.items():
        if package == "google.protobuf":
            continue
        module = modules[package]
        expected_classes = set()
        for f in protos:
            for kind, dotted, desc in walk_types(f):
                if kind == "message" and desc.options.map_entry:
                    continue
                cls_name = ref_class_name(dotted)
                assert cls_name not in expected_classes, f"oracle: {cls_name} twice"
                expected_classes.add(cls_name)
                cls = getattr(module, cls_name, None)
                assert cls is not None, f"{package}: class {cls_name} is missing"
                assert cls.__module__ == module.__name__, (cls, module)
                if kind == "enum":
                    assert issubclass(cls, betterproto.Enum), cls
                    visible = list(desc.value)
                    assert len(cls.__members__) == len(visible), (cls, desc)
                    flat = "_" + dotted.replace(".", "_")
                    names = [ref_enum_member_name(v.name, flat) for v in visible]
                    if len(set(names)) != len(names):
                        names = [ref_sanitize_name(v.name) for v in visible]
                    for v, member_name in zip(visible, names):
                        member = cls.__members__[member_name]
                        assert int(member) == v.number, (cls, member_name, v.number)
                    assert {int(m) for m in cls} == {v.number for v in visible}
                    continue
                assert issubclass(cls, betterproto.Message), cls
                assert dataclasses.is_dataclass(cls)
                dc_fields = dataclasses.fields(cls)
                assert len(dc_fields) == len(desc.field), (cls, dc_fields)
                hints = typing.get_type_hints(cls) if check_hints else None
                entries = {
                    f".{(package + '.') if package else ''}{dotted}.{n.name}": n
                    for n in desc.nested_type
                    if n.options.map_entry
                }
                for field, dc_field in zip(desc.field, dc_fields):
                    checked += 1
                    assert dc_field.name == ref_safe_snake_case(field.name), (
                        cls, dc_field.name, field.name,
                    )  # fmt: skip
                    meta = dc_field.metadata["betterproto"]
                    assert meta.number == field.number, (cls, field.name)
                    entry = entries.get(field.type_name)
                    is_repeated = field.label == FD.LABEL_REPEATED
                    if entry is not None and is_repeated:
                        key, value = entry.field
                        assert meta.proto_type == "map", (cls, field.name, meta)
                        assert meta.map_types == (
                            PROTO_TYPE_NAME[key.type], PROTO_TYPE_NAME[value.type],
                        ), (cls, field.name, meta)  # fmt: skip
                        assert not meta.optional and meta.group is None
                        assert meta.wraps is None
                        if value.type_name in WRAPPERS:
                            v_hint = resolve(value.type_name)  # wrapper message class
                        else:
                            v_hint, _ = value_hint(value)
                        expected = ("dict", SCALAR_PY[key.type], v_hint)
                    else:
                        assert meta.proto_type == PROTO_TYPE_NAME[field.type], (
                            cls, field.name, meta,
                        )  # fmt: skip
                        assert meta.map_types is None
                        expected, wraps = value_hint(field)
                        assert meta.wraps == wraps, (cls, field.name, meta, wraps)
                        in_real_oneof = (
                            field.HasField("oneof_index") and not field.proto3_optional
                        )
                        group = (
                            desc.oneof_decl[field.oneof_index].name
                            if in_real_oneof
                            else None
                        )
                        assert meta.group == group, (cls, field.name, meta, group)
                        assert bool(meta.optional) == field.proto3_optional, (
                            cls, field.name, meta,
                        )  # fmt: skip
                        if is_repeated:
                            expected = ("list", expected)
                        elif field.proto3_optional:
                            expected = optional_of(expected)
                    if check_hints:
                        got = norm(hints[dc_field.name])
                        assert got == expected, (cls, field.name, got, expected)
        defined = {
            name
            for name, obj in vars(module).items()
            if isinstance(obj, type)
            and obj.__module__ == module.__name__
            and issubclass(obj, (betterproto.Message, betterproto.Enum))
        }
        assert defined == expected_classes, (package, defined ^ expected_classes)
    return checked


# --------------------------------------------------------------------------------------
# grammar based schema generator
# --------------------------------------------------------------------------------------
SCALARS = [
    "double", "float", "int32", "int64", "uint32", "uint64", "sint32", "sint64",
    "fixed32", "fixed64", "sfixed32", "sfixed64", "bool", "string", "bytes",
]  # fmt: skip
KEY_KINDS = [s for s in SCALARS if s not in ("double", "float", "bytes")]
WELL_KNOWN = {
    "google.protobuf.Timestamp": "google/protobuf/timestamp.proto",
    "google.protobuf.Duration": "google/protobuf/duration.proto",
    "google.protobuf.Struct": "google/protobuf/struct.proto",
    "google.protobuf.Any": "google/protobuf/any.proto",
    "google.protobuf.Empty": "google/protobuf/empty.proto",
    "google.protobuf.FieldMask": "google/protobuf/field_mask.proto",
}
for _w in WRAPPERS:
    WELL_KNOWN[_w[1:]] = "google/protobuf/wrappers.proto"
PLAIN_NAMES = [
    "name", "title", "count", "total_count", "userId", "HTTPCode", "x", "y1", "a_b_c",
    "payload", "created_at", "items", "flag2", "inner_value", "Camel", "data", "kind",
    "first_name", "lastName", "v2_beta", "x_1", "ID", "url_path",
]  # fmt: skip
KEYWORD_NAMES = [
    "from", "in", "is", "class", "def", "lambda", "pass", "global", "import", "for",
    "while", "return", "yield", "not", "and", "or", "if", "else", "try", "with", "as",
    "del", "raise", "assert", "async", "await", "nonlocal", "except", "finally",
    "break", "continue", "elif",
]  # fmt: skip
BUILTIN_NAMES = [
    "str", "int", "float", "bool", "bytes", "id", "type", "map", "filter", "max",
    "min", "object", "format", "hash", "input", "range", "len", "set", "tuple", "all",
    "any", "next", "iter", "open", "print", "sum", "vars", "zip", "property",
]  # fmt: skip
MESSAGE_WORDS = [
    "Person", "Order", "Item", "HTTPRequest", "Node", "Tree", "Config", "Envelope",
    "UserV2", "Point3D", "Shape", "Leaf", "Box", "Account", "Event", "Page", "Unit",
]  # fmt: skip
ENUM_WORDS = ["Kind", "Status", "Color", "Mode", "Level", "HTTPMethod", "Phase", "Op"]
PACKAGES = [
    "", "alpha", "alpha.beta", "alpha.beta.gamma", "alpha.delta", "omega.v1",
    "omega.v1beta", "shop", "shop.cart.items", "zeta_one.sub_pkg",
]  # fmt: skip
COMMENTS = [
    "plain comment", 'quoted "word" inside', "back\\slash", "tick's and `code`",
    'triple """ quotes inside', "unicode éè ✓", "trailing spaces   ",
    "a rather long comment that certainly does not fit on a single line of the output "
    "file because it is long", "{{ jinja }} {% braces %}", "#hash and 'single'",
    'ends with a "quote"', "ends with a backslash \\", "percent %s %d {0}",
]  # fmt: skip


class SchemaGenerator:
    def __init__(self, seed, special_names=0.25, comments=0.3):
        self.rnd = random.Random(seed)
        self.special_names = special_names
        self.comments = comments

    def comment(self, indent):
        if self.rnd.random() >= self.comments:
            return ""
        pad = " " * indent
        lines = [self.rnd.choice(COMMENTS)]
        if self.rnd.random() < 0.3:
            lines.append(self.rnd.choice(COMMENTS))
        if self.rnd.random() < 0.2:
            return f"{pad}/* {lines[0]} */\n".replace("*/ */", "* / */")
        return "".join(f"{pad}// {line}\n" for line in lines)

    def field_name(self, used):
        for _ in range(100):
            r = self.rnd.random()
            if r < self.special_names / 2:
                name = self.rnd.choice(KEYWORD_NAMES)
            elif r < self.special_names:
                name = self.rnd.choice(BUILTIN_NAMES)
            else:
                name = self.rnd.choice(PLAIN_NAMES)
                if self.rnd.random() < 0.3:
                    name += str(self.rnd.randrange(10))
            key = ref_safe_snake_case(name)
            # protoc: json names / map entry names must not conflict either
            norm_key = name.replace("_", "").lower()
            if key not in used and norm_key not in used:
                used.add(key)
                used.add(norm_key)
                return name
        raise AssertionError("name pool exhausted")

    def make(self, n_packages=None):
        """
        Returns {path: text}.  Files must not import each other in a cycle, so the
        main file of a package only refers to packages that come before it; some
        packages get a second file that may refer to every main file (that also makes
        packages depend on each other in a cycle, which is legal).
        """
        rnd = self.rnd
        packages = rnd.sample(PACKAGES, n_packages or rnd.randint(1, 4))
        units = []  # (package, path, messages, enums)
        for index, package in enumerate(packages):
            words = rnd.sample(MESSAGE_WORDS, rnd.randint(2, 5))
            enum_words = rnd.sample(ENUM_WORDS, rnd.randint(0, 3))
            directory = package.replace(".", "/") or "root"
            split = rnd.random() < 0.4
            extra_words = [words.pop()] if split else []
            extra_enums = [enum_words.pop()] if split and enum_words else []
            units.append(
                (
                    package,
                    f"{directory}/schema{index}.proto",
                    [self.declare_message(w, 0) for w in words],
                    [self.declare_enum(w) for w in enum_words],
                )
            )
            if split:
                units.append(
                    (
                        package,
                        f"{directory}/extra{index}.proto",
                        [self.declare_message(w, 0) for w in extra_words],
                        [self.declare_enum(w) for w in extra_enums],
                    )
                )
        units.sort(key=lambda unit: "/extra" in unit[1])  # main files first
        self.all_messages = []
        self.all_enums = []
        self.package_values = {}
        out = {}
        declared = []
        for package, path, messages, enums in units:
            prefix = f"{package}." if package else ""
            mine_messages, mine_enums = [], []
            for e in enums:
                mine_enums.append((path, prefix + e["name"]))

            def collect(message, scope):
                full = f"{scope}{message['name']}"
                mine_messages.append((path, full))
                for e in message["enums"]:
                    mine_enums.append((path, f"{full}.{e['name']}"))
                for nested in message["nested"]:
                    collect(nested, full + ".")

            for m in messages:
                collect(m, prefix)
            declared.append((mine_messages, mine_enums))
        n_main = sum(1 for unit in units if "/extra" not in unit[1])
        for index, (package, path, messages, enums) in enumerate(units):
            # what this file may refer to
            if index < n_main:
                visible = declared[: index + 1]
            else:
                visible = declared[:n_main] + [declared[index]]
            self.all_messages = [m for ms, _ in visible for m in ms]
            self.all_enums = [e for _, es in visible for e in es]
            imports = set()
            body = []
            scope_values = self.package_values.setdefault(package, set())
            for e in enums:
                body.append(self.render_enum(e, 0, scope_values))
            for m in messages:
                body.append(self.render_message(m, 0, path, imports))
            lines = ['syntax = "proto3";']
            if package:
                lines.append(f"package {package};")
            for target in sorted(imports):
                if target != path:
                    lines.append(f'import "{target}";')
            out[path] = "\n".join(lines) + "\n\n" + "\n".join(body) + "\n"
        return out

    def declare_message(self, word, depth):
        rnd = self.rnd
        nested = []
        if depth < 2:
            for w in rnd.sample(MESSAGE_WORDS, rnd.choice([0, 0, 1, 2])):
                if w != word:
                    nested.append(self.declare_message(w, depth + 1))
        enums = [
            self.declare_enum(w) for w in rnd.sample(ENUM_WORDS, rnd.choice([0, 0, 1]))
        ]
        return {"name": word, "nested": nested, "enums": enums}

    def declare_enum(self, word):
        return {"name": word}

    def render_enum(self, enum, indent, scope_values=None):
        rnd = self.rnd
        scope_values = set() if scope_values is None else scope_values
        pad = " " * indent
        prefix = ref_snake_case(enum["name"]).upper()
        style = rnd.choice(["prefixed", "bare", "mixed"])
        words = rnd.sample(
            ["UNKNOWN", "A", "B", "ACTIVE", "DONE", "RED", "X1", "2D", "NIL", "None",
             "lower_case", "MixedCase", "OTHER_"],
            rnd.randint(1, 6),
        )  # fmt: skip
        lines = [self.comment(indent) + f"{pad}enum {enum['name']} {{"]
        numbers = [0]
        alias = rnd.random() < 0.3 and len(words) > 2
        for i in range(1, len(words)):
            if alias and i == len(words) - 1:
                numbers.append(rnd.choice(numbers))
            else:
                n = rnd.choice(
                    [i, i * 10, -i, -(2**31) + i, 2**31 - 1 - i, 1000 + i]
                )
                while n in numbers:
                    n += 1
                numbers.append(n)
        if alias:
            lines.append(f"{pad}  option allow_alias = true;")
        for word, number in zip(words, numbers):
            if word[0].isdigit() or style == "prefixed" or word in scope_values or (
                style == "mixed" and rnd.random() < 0.5
            ):
                word = f"{prefix}_{word}"
            scope_values.add(word)
            lines.append(self.comment(indent + 2) + f"{pad}  {word} = {number};")
        lines.append(f"{pad}}}")
        return "\n".join(lines)

    def pick_type(self, package, imports, allow_wkt=True):
        rnd = self.rnd
        r = rnd.random()
        if r < 0.45:
            return rnd.choice(SCALARS)
        if r < 0.6 and self.all_enums:
            pkg, full = rnd.choice(self.all_enums)
        elif r < 0.85:
            pkg, full = rnd.choice(self.all_messages)
        elif allow_wkt:
            full = rnd.choice(sorted(WELL_KNOWN))
            imports.add(WELL_KNOWN[full])
            return "." + full
        else:
            return rnd.choice(SCALARS)
        imports.add(pkg)  # the path of the defining file
        return "." + full

    def render_message(self, message, indent, package, imports):
        rnd = self.rnd
        pad = " " * indent
        lines = [self.comment(indent) + f"{pad}message {message['name']} {{"]
        scope_values = set()
        for e in message["enums"]:
            lines.append(self.render_enum(e, indent + 2, scope_values))
        for nested in message["nested"]:
            lines.append(self.render_message(nested, indent + 2, package, imports))
        used = set()
        numbers = set()

        def number():
            while True:
                n = rnd.choice(
                    [rnd.randint(1, 15), rnd.randint(16, 2047),
                     rnd.randint(20000, 536870911), 536870911, 1]
                )  # fmt: skip
                if n not in numbers and not 19000 <= n <= 19999:
                    numbers.add(n)
                    return n

        for _ in range(rnd.choice([0, 1, 2, 3, 4, 5, 6, 8])):
            kind = rnd.random()
            fpad = pad + "  "
            if kind < 0.15:
                key = rnd.choice(KEY_KINDS)
                value = self.pick_type(package, imports)
                decl = f"map<{key}, {value}> {self.field_name(used)} = {number()};"
                lines.append(self.comment(indent + 2) + fpad + decl)
            elif kind < 0.3:
                oneof_name = self.field_name(used)
                lines.append(f"{fpad}oneof {oneof_name} {{")
                for _ in range(rnd.randint(1, 3)):
                    t = self.pick_type(package, imports)
                    lines.append(
                        self.comment(indent + 4)
                        + f"{fpad}  {t} {self.field_name(used)} = {number()};"
                    )
                lines.append(f"{fpad}}}")
            else:
                label = rnd.choice(["", "", "repeated ", "optional "])
                t = self.pick_type(package, imports)
                decl = f"{label}{t} {self.field_name(used)} = {number()};"
                trailing = (
                    f"  // {rnd.choice(COMMENTS)}" if rnd.random() < 0.15 else ""
                )
                lines.append(self.comment(indent + 2) + fpad + decl + trailing)
        lines.append(f"{pad}}}")
        return "\n".join(lines)


def generated_schemas(seeds, **kwargs):
    for seed in seeds:
        gen = SchemaGenerator(seed, **kwargs)
        files = gen.make()
        fds = compile_schema(files)
        if fds is None:
            # the generator aims at valid schemas only; protoc has the last word
            continue
        yield seed, files, fds


def corpus_schemas():
    """The tests/inputs corpus: one schema per directory."""
    base = os.path.join(WORKTREE, "tests", "inputs")
    for directory in sorted(glob.glob(os.path.join(base, "*", ""))):
        protos = sorted(glob.glob(os.path.join(directory, "*.proto")))
        if not protos:
            continue
        files = {}
        for path in protos:
            with open(path) as fh:
                files[os.path.basename(path)] = fh.read()
        fds = compile_schema(files)
        if fds is not None:
            yield os.path.basename(os.path.dirname(directory)), files, fds
# --------------------------------------------------------------------------------------
# function level comparison with the embedded original implementation
# --------------------------------------------------------------------------------------
import builtins as _builtins

import betterproto.casing as casing
import betterproto.compile.naming as naming
from betterproto.plugin.models import (
    EnumDefinitionCompiler,
    MapEntryCompiler,
    MessageCompiler,
)

COUNT = {"strings": 0, "names": 0}


def ref_lowercase_first(value):
    return value[0:1].lower() + value[1:]


def ref_pythonize_enum_member_name(name, enum_name):
    prefix = ref_snake_case(enum_name).upper() + "_"
    if name.startswith(prefix) and name[len(prefix) :].strip("_"):
        name = name[len(prefix) :].strip("_")
    return ref_sanitize_name(name)


def compare(value):
    COUNT["strings"] += 1
    assert casing.snake_case(value) == ref_snake_case(value), value
    assert casing.snake_case(value, strict=False) == ref_snake_case(value, False), value
    assert casing.snake_case(value, True) == ref_snake_case(value, True), value
    assert casing.pascal_case(value) == ref_pascal_case(value), value
    assert casing.pascal_case(value, strict=False) == ref_pascal_case(value, False), value
    assert casing.pascal_case(value, True) == ref_pascal_case(value, True), value
    assert casing.camel_case(value) == ref_camel_case(value), value
    assert casing.camel_case(value, strict=False) == ref_camel_case(value, False), value
    assert casing.safe_snake_case(value) == ref_safe_snake_case(value), value
    assert casing.sanitize_name(value) == ref_sanitize_name(value), value
    assert casing.lowercase_first(value) == ref_lowercase_first(value), value
    assert naming.pythonize_class_name(value) == ref_class_name(value), value
    assert naming.pythonize_field_name(value) == ref_safe_snake_case(value), value
    assert naming.pythonize_method_name(value) == ref_safe_snake_case(value), value
    # idempotence style compositions the plugin relies on
    flat = "_" + value.replace(".", "_")
    assert naming.pythonize_class_name(flat) == ref_class_name(flat), value


def compare_member(name, enum_name):
    COUNT["names"] += 1
    got = naming.pythonize_enum_member_name(name, enum_name)
    assert got == ref_pythonize_enum_member_name(name, enum_name), (name, enum_name)


def function_level():
    # 1. exhaustive over small alphabets
    for alphabet, longest in (("abAB1_. ", 5), ("aA1_.", 6), ("xYZ09-", 5)):
        for length in range(longest + 1):
            for chars in itertools.product(alphabet, repeat=length):
                compare("".join(chars))
    # 2. names made of word tokens
    tokens = [
        "HTTP", "Server", "v2", "ID", "foo", "Bar", "_", "__", ".", "-", "2D", "x",
        "XMLHttp", "Request", "é", "ß", "İ", "ǅ", "Ω", "1", "00", " ", "class", "None",
        "str", "Entry", "A", "aB", "iOS", "π", "名前",
    ]  # fmt: skip
    for n in (1, 2, 3):
        for combo in itertools.product(tokens, repeat=n):
            compare("".join(combo))
    rnd = random.Random(20260101)
    for _ in range(4000):
        compare("".join(rnd.choice(tokens) for _ in range(rnd.randint(4, 8))))
    # 3. keywords, soft keywords, builtins, dunder names
    for word in keyword.kwlist + keyword.softkwlist + dir(_builtins):
        for variant in (word, word.upper(), word.lower(), word.capitalize(),
                        f"_{word}", f"{word}_", f"__{word}__", f"{word}.{word}",
                        f"my_{word}", f"{word}2"):  # fmt: skip
            compare(variant)
    # 4. random unicode text
    pool = "abcXYZ019_.- /\\$äÖßçñΣσςдЖ中🙂\t\n"
    for _ in range(6000):
        compare("".join(rnd.choice(pool) for _ in range(rnd.randint(0, 12))))
    # 5. enum member names: every prefix / remainder shape
    enum_names = ["Kind", "_Kind", "_Outer_Kind", "HTTPMethod", "_Msg_HTTPMethod", "E",
                  "_A_B_C", "Color2", "my_enum", "X_", ""]  # fmt: skip
    members = ["UNKNOWN", "A", "2D", "", "_", "__X__", "None", "class", "lower", "Mixed"]
    for enum_name in enum_names:
        prefix = ref_snake_case(enum_name).upper()
        for member in members:
            for name in (member, f"{prefix}_{member}", f"{prefix}{member}",
                         f"{prefix}__{member}_", f"X{prefix}_{member}",
                         f"{prefix.lower()}_{member}", prefix, f"{prefix}_"):  # fmt: skip
                compare_member(name, enum_name)
    # the runtime uses the same functions for JSON keys
    assert betterproto.Casing.CAMEL("some_field_name") == "someFieldName"
    assert betterproto.Casing.SNAKE("someFieldName") == "some_field_name"


# --------------------------------------------------------------------------------------
# plugin level: the names of every compiler object and the generated packages
# --------------------------------------------------------------------------------------
def check_names(request_data, fds):
    proto_names = set()
    for f in fds.file:
        for kind, dotted, desc in walk_types(f):
            proto_names.add(dotted)
            proto_names.add(desc.name)
            if kind == "enum":
                for v in desc.value:
                    proto_names.add(v.name)
                    compare_member(v.name, "_" + dotted.replace(".", "_"))
            else:
                proto_names.update(x.name for x in desc.field)
                proto_names.update(x.name for x in desc.oneof_decl)
        proto_names.add(f.package)
    for name in proto_names:
        compare(name)
    for package, output in request_data.output_packages.items():
        for enum in output.enums:
            assert type(enum) is EnumDefinitionCompiler
            assert enum.py_name == ref_class_name(enum.proto_name), enum.proto_name
            names = [
                ref_enum_member_name(v.name, enum.proto_name)
                for v in enum.proto_obj.value
            ]
            if len(set(names)) != len(names):
                names = [ref_sanitize_name(v.name) for v in enum.proto_obj.value]
            assert [e.name for e in enum.entries] == names, enum.proto_name
        for message in output.messages:
            assert type(message) is MessageCompiler
            assert message.py_name == ref_class_name(message.proto_name)
            assert message.proto_name.startswith("_")  # flattened by traverse()
            for fc in message.fields:
                COUNT["names"] += 1
                assert fc.py_name == ref_safe_snake_case(fc.proto_name), fc.proto_name
                assert fc.get_field_string().startswith(f"{fc.py_name}: ")
                if not isinstance(fc, MapEntryCompiler) and fc.proto_obj.type_name:
                    type_name = fc.proto_obj.type_name
                    if not type_name.startswith(".google.protobuf."):
                        # reference and definition agree on the class name
                        local = type_name.rsplit(".", 1)[-1]
                        assert ref_pascal_case(local) in fc.py_type, (type_name, fc.py_type)


def check_schema(label, fds, flavours, e2e=True):
    total = 0
    for parameter in flavours:
        files, request_data = run_plugin(fds, parameter)
        check_names(request_data, fds)
        if e2e:
            with imported(files) as top:
                total += check_generated(fds, files, top)
    return total


NAMING_SCHEMA = '''
syntax = "proto3";
package naming.Check2.v1;

enum HTTPMethod { HTTP_METHOD_GET = 0; HTTP_METHOD_2XX = 1; POST = 2; HTTP_METHOD_ = 3; }
enum lower_enum { lower_enum_zero = 0; LOWER_ENUM_ONE = 1; LOWER_ENUM_TWO_ = 2; }
message XMLHttpRequest {
  message inner_lower { int32 aValue = 1; }
  message UPPER { int32 A = 1; int32 b_B = 2; }
  message Mixed_Case9 { enum Kind2D { KIND2_D_X = 0; KIND_2D_Y = 1; Z = -1; } Kind2D k = 1; }
  inner_lower innerLower = 1;
  UPPER UPPER_FIELD = 2;
  Mixed_Case9 mixed_case9 = 3;
  repeated Mixed_Case9.Kind2D kinds2D = 4;
  map<string, UPPER> upperByName = 5;
  map<int32, Mixed_Case9.Kind2D> Kind_Map = 6;
  HTTPMethod HTTPMethod = 7;
  oneof someChoice { string URLPath = 8; XMLHttpRequest parentRequest = 9; }
  optional lower_enum lowerEnum1 = 10;
  int32 x_1_y_2 = 11;
  int32 __dunder__ = 12;
  int32 trailing_ = 13;
  int32 class = 14;
  int32 None = 15;
  int32 not = 16;
}
message None { None self = 1; True other = 2; }
message True { }
message a { a a1 = 1; }
'''


def main():
    import time

    started = time.time()
    function_level()
    print(f"function level: {COUNT} ({time.time() - started:.0f}s)")

    flavours = ("", "typing.310")
    fds = compile_schema({"naming.proto": NAMING_SCHEMA})
    assert fds is not None
    n_fields = check_schema("naming", fds, flavours, e2e=False)
    # (packages with capitals are a known limitation of type references: names only)
    fds = compile_schema(
        {"naming.proto": NAMING_SCHEMA.replace("naming.Check2.v1", "naming.check2.v1")}
    )
    n_fields += check_schema("naming", fds, flavours)

    n_schemas = 0
    for seed, files, fds in generated_schemas(range(2000, 2010), special_names=0.4):
        n_fields += check_schema(f"seed{seed}", fds, flavours)
        n_schemas += 1
    assert n_schemas >= 8, n_schemas
    print(f"generated: {n_schemas} schemas, {n_fields} fields ({time.time() - started:.0f}s)")

    n_corpus = 0
    for name, files, fds in corpus_schemas():
        e2e = name != "import_capitalized_package"  # xfail in tests/inputs/config.py
        n_fields += check_schema(name, fds, ("",), e2e=e2e)
        n_corpus += 1
    assert n_corpus >= 60, n_corpus
    assert COUNT["strings"] > 100000 and COUNT["names"] > 3000, COUNT
    print(f"corpus: {n_corpus} cases; total {n_fields} fields; {COUNT}")
    print(f"OK ({time.time() - started:.0f}s)")


main()
