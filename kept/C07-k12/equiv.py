"""C07 keep2: the byte-level decoding underneath Message.load / parse / FromString
(load_varint, load_fields) - what "parse bytes containing 0..n members in any
order" and the pickle round trip rest on.

Compares load_varint and load_fields with an independent decoder written here
(values, raw bytes, errors, and the exact sequence of stream reads), compares
what betterproto selects after parsing random field sequences with what
google.protobuf selects, and runs random operation histories with the oneof
exclusivity checks after every step.
"""

import copy
import io
import pickle
import random
import struct
from dataclasses import dataclass

import betterproto
from google.protobuf import descriptor_pb2, descriptor_pool, message_factory


# --------------------------------------------------------------------------
# independent helpers
def enc_varint(n):
    assert 0 <= n
    out = bytearray()
    while True:
        b = n & 0x7F
        n >>= 7
        if n:
            out.append(b | 0x80)
        else:
            out.append(b)
            return bytes(out)


def ref_varint(data, pos=0):
    """-> ("ok", value, length) | ("eof",) | ("toolong",) for the varint at data[pos:]"""
    value = 0
    for i in range(10):
        if pos + i >= len(data):
            return ("eof",)
        byte = data[pos + i]
        value |= (byte & 0x7F) << (7 * i)
        if byte < 128:
            return ("ok", value, i + 1)
    return ("toolong",)


class Recorder(io.BytesIO):
    """A stream that remembers the size of every read."""

    def __init__(self, data):
        super().__init__(data)
        self.reads = []

    def read(self, size=-1):
        self.reads.append(size)
        return super().read(size)


def outcome(fn):
    try:
        return ("ok", fn())
    except (ValueError, EOFError) as exc:
        return (type(exc).__name__, str(exc))


# --------------------------------------------------------------------------
def check_load_varint():
    values = [0, 1, 2, 127, 128, 129, 255, 256, 300, 16383, 16384, 2**21 - 1, 2**21, 2**28 - 1,
              2**28, 2**31 - 1, 2**31, 2**32 - 1, 2**32, 2**35, 2**42 - 1, 2**49, 2**56 - 1, 2**56,
              2**63 - 1, 2**63, 2**64 - 1]
    rng = random.Random(1)
    values += [rng.getrandbits(rng.randrange(1, 65)) for _ in range(500)]
    for value in values:
        data = enc_varint(value)
        assert 1 <= len(data) <= 10
        for trailer in (b"", b"\x00", b"\xff\xff"):
            stream = Recorder(data + trailer)
            assert betterproto.load_varint(stream) == (value, data)
            assert stream.reads == [1] * len(data)
            assert stream.tell() == len(data)
            # first byte handed over by the caller
            stream = Recorder(data[1:] + trailer)
            assert betterproto.load_varint(stream, data[:1]) == (value, data)
            assert stream.reads == [1] * (len(data) - 1)
        assert betterproto.decode_varint(b"\x01" + data + b"\x05", 1) == (value, 1 + len(data))
        assert betterproto.encode_varint(value) == data
        # every proper prefix is a truncated varint
        for cut in range(len(data)):
            stream = Recorder(data[:cut])
            res = outcome(lambda: betterproto.load_varint(stream))
            assert res == ("EOFError", "Stream ended unexpectedly while attempting to load varint."), res
            assert stream.reads == [1] * (cut + 1)

    # arbitrary byte strings: overlong encodings, ten and eleven bytes, junk
    samples = [
        b"\x80\x00", b"\x80\x80\x00", b"\xff\x00", b"\x80" * 9 + b"\x00", b"\x80" * 9 + b"\x01",
        b"\xff" * 9 + b"\x01", b"\xff" * 9 + b"\x7f", b"\xff" * 9 + b"\x02", b"\x80" * 10,
        b"\x80" * 10 + b"\x00", b"\xff" * 10 + b"\x01", b"\xff" * 11, b"\xff" * 30, b"\x80" * 9, b"\xff" * 9, b"",
    ]
    for _ in range(3000):
        n = rng.randrange(0, 14)
        samples.append(bytes(rng.choice([rng.randrange(256), rng.randrange(128, 256)]) for _ in range(n)))
    for data in samples:
        want = ref_varint(data)
        for use_first in (False, True):
            if use_first and not data:
                continue
            stream = Recorder(data[1:] if use_first else data)
            got = outcome(lambda: betterproto.load_varint(stream, data[:1] if use_first else b""))
            consumed = len(stream.reads) + (1 if use_first else 0)
            if want[0] == "ok":
                assert got == ("ok", (want[1], data[: want[2]])), (data, got, want)
                assert consumed == want[2]
            elif want[0] == "eof":
                assert got == ("EOFError", "Stream ended unexpectedly while attempting to load varint."), (data, got)
                assert consumed == len(data) + 1
            else:
                assert got == ("ValueError", "Too many bytes when decoding varint."), (data, got)
                # the eleventh byte is never read
                assert consumed == 10 and stream.tell() == (9 if use_first else 10)
            assert all(size == 1 for size in stream.reads)


def ref_fields(data):
    """Independent field splitter -> (list of (number, wire, value, raw), error or None, reads)"""
    pos, out, reads = 0, [], []

    def varint():
        nonlocal pos
        res = ref_varint(data, pos)
        if res[0] == "ok":
            reads.extend([1] * res[2])
            pos += res[2]
            return res[1]
        if res[0] == "eof":
            reads.extend([1] * (len(data) - pos + 1))
            raise EOFError("Stream ended unexpectedly while attempting to load varint.")
        reads.extend([1] * 10)
        raise ValueError("Too many bytes when decoding varint.")

    def exact(size):
        nonlocal pos
        reads.append(size)
        chunk = data[pos : pos + size]
        pos += len(chunk)
        if len(chunk) != size:
            raise EOFError(f"Stream ended unexpectedly: expected {size} bytes but got {len(chunk)}.")
        return chunk

    try:
        while True:
            if pos >= len(data):
                reads.append(1)
                return out, None, reads
            start = pos
            key = varint()
            number, wire = key >> 3, key & 7
            if number == 0:
                raise ValueError("Invalid field number 0.")
            if wire == 0:
                value = varint()
            elif wire == 1:
                value = exact(8)
            elif wire == 2:
                value = exact(varint())
            elif wire == 5:
                value = exact(4)
            else:
                raise ValueError(f"Unsupported wire type {wire} in field {number}.")
            out.append((number, wire, value, data[start:pos]))
    except (ValueError, EOFError) as exc:
        return out, (type(exc).__name__, str(exc)), reads


def run_load_fields(data):
    stream = Recorder(data)
    got, error = [], None
    try:
        for parsed in betterproto.load_fields(stream):
            assert type(parsed) is betterproto.ParsedField
            assert type(parsed.raw) is bytes and type(parsed.number) is int and type(parsed.wire_type) is int
            assert type(parsed.value) is (int if parsed.wire_type == 0 else bytes)
            got.append((parsed.number, parsed.wire_type, parsed.value, parsed.raw))
    except (ValueError, EOFError) as exc:
        error = (type(exc).__name__, str(exc))
    return got, error, stream.reads


def random_field(rng):
    number = rng.choice([1, 2, 3, 15, 16, 17, 2047, 2048, 2**28, 2**29 - 1, rng.randrange(1, 400)])
    wire = rng.choice([0, 0, 1, 2, 2, 5])
    key = enc_varint(number << 3 | wire)
    if wire == 0:
        return key + enc_varint(rng.choice([0, 1, 127, 128, 2**32, 2**64 - 1, rng.getrandbits(40)]))
    if wire == 1:
        return key + bytes(rng.randrange(256) for _ in range(8))
    if wire == 5:
        return key + bytes(rng.randrange(256) for _ in range(4))
    size = rng.choice([0, 0, 1, 2, 127, 128, 300, rng.randrange(0, 40)])
    return key + enc_varint(size) + bytes(rng.randrange(256) for _ in range(size))


def check_load_fields():
    rng = random.Random(2)
    samples = [
        b"", b"\x08\x00", b"\x08", b"\x00\x00", b"\x00", b"\x07\x00", b"\x0b", b"\x0c", b"\x0e\x01", b"\x0f",
        b"\x0b\x08\x01\x0c", b"\x0d\x00\x00\x00", b"\x0d\x00\x00\x00\x00", b"\x09" + b"\x01" * 7, b"\x09" + b"\x01" * 8,
        b"\x0a\x00", b"\x0a\x01", b"\x0a\x02\x00", b"\x0a\x80", b"\x0a" + b"\xff" * 10 + b"\x01", b"\x80" * 10 + b"\x00",
        b"\x80\x00\x00", b"\x88\x80\x00\x05", b"\x08\x01\x08", b"\x08\x01\x00\x01", b"\xff" * 9 + b"\x7f\x01",
    ]
    for _ in range(1500):
        data = b"".join(random_field(rng) for _ in range(rng.randrange(0, 6)))
        samples.append(data)
        if data:
            samples.append(data[: rng.randrange(len(data))])  # truncated somewhere
            junk = bytearray(data)
            junk[rng.randrange(len(junk))] = rng.randrange(256)  # one byte corrupted
            samples.append(bytes(junk))
    for _ in range(1500):
        samples.append(bytes(rng.randrange(256) for _ in range(rng.randrange(0, 12))))
    complete = 0
    for data in samples:
        want = ref_fields(data)
        got = run_load_fields(data)
        assert got == want, (data, got, want)
        if want[1] is None:
            complete += 1
            assert b"".join(raw for *_, raw in got[0]) == data
    assert complete > 1000


# --------------------------------------------------------------------------
class Color(betterproto.Enum):
    NONE = 0
    RED = 1
    BLUE = 2


@dataclass(eq=False, repr=False)
class Sub(betterproto.Message):
    v: int = betterproto.int32_field(1)


@dataclass(eq=False, repr=False)
class Msg(betterproto.Message):
    a_int: int = betterproto.int32_field(1, group="a")
    a_zig: int = betterproto.sint64_field(2, group="a")
    a_flag: bool = betterproto.bool_field(3, group="a")
    a_color: Color = betterproto.enum_field(4, group="a")
    b_str: str = betterproto.string_field(5, group="b")
    b_bytes: bytes = betterproto.bytes_field(6, group="b")
    b_sub: Sub = betterproto.message_field(7, group="b")
    c_fixed: int = betterproto.fixed32_field(8, group="c")
    c_double: float = betterproto.double_field(9, group="c")
    c_sfixed: int = betterproto.sfixed64_field(10, group="c")
    c_float: float = betterproto.float_field(11, group="c")
    plain: int = betterproto.int32_field(12)
    far: str = betterproto.string_field(2000, group="d")
    farther: int = betterproto.uint64_field(70000, group="d")


GROUPS = {
    "a": ["a_int", "a_zig", "a_flag", "a_color"],
    "b": ["b_str", "b_bytes", "b_sub"],
    "c": ["c_fixed", "c_double", "c_sfixed", "c_float"],
    "d": ["far", "farther"],
}
GROUP_OF = {n: g for g, ns in GROUPS.items() for n in ns}
NUMBER = {name: meta.number for name, meta in Msg._betterproto.meta_by_field_name.items()}
NAME_OF = {v: k for k, v in NUMBER.items()}
VALUES = {
    "a_int": [0, 1, -1, 2**31 - 1, -(2**31)],
    "a_zig": [0, -1, 1, 2**62, -(2**63)],
    "a_flag": [False, True],
    "a_color": [Color.NONE, Color.RED, Color.BLUE],
    "b_str": ["", "x", "héllo" * 30],
    "b_bytes": [b"", b"\x00", b"\xff" * 200],
    "b_sub": [lambda: Sub(), lambda: Sub(v=3), lambda: Sub(v=-1)],
    "c_fixed": [0, 1, 2**32 - 1],
    "c_double": [0.0, -1.5, 1e300],
    "c_sfixed": [0, -1, 2**63 - 1],
    "c_float": [0.0, 0.5, -2.0],
    "plain": [0, 5, -7],
    "far": ["", "away"],
    "farther": [0, 2**64 - 1],
}
VARINT_NAMES = {"a_int", "a_zig", "a_flag", "a_color", "plain", "farther"}


def encode_member(name, value):
    number = NUMBER[name]
    if name == "a_zig":
        return enc_varint(number << 3) + enc_varint((value << 1) ^ (value >> 63))
    if name in VARINT_NAMES:
        return enc_varint(number << 3) + enc_varint(int(value) & (2**64 - 1))
    if name == "c_fixed":
        return enc_varint(number << 3 | 5) + struct.pack("<I", value)
    if name == "c_float":
        return enc_varint(number << 3 | 5) + struct.pack("<f", value)
    if name == "c_double":
        return enc_varint(number << 3 | 1) + struct.pack("<d", value)
    if name == "c_sfixed":
        return enc_varint(number << 3 | 1) + struct.pack("<q", value)
    if name in ("b_str", "far"):
        raw = value.encode("utf-8")
    elif name == "b_bytes":
        raw = value
    else:
        raw = (enc_varint(1 << 3) + enc_varint(value.v & (2**64 - 1))) if value.v else b""
    return enc_varint(number << 3 | 2) + enc_varint(len(raw)) + raw


def unknown_field(rng):
    number = rng.choice([13, 14, 100, 1999, 2001, 69999, 2**29 - 1])
    wire = rng.choice([0, 1, 2, 5])
    key = enc_varint(number << 3 | wire)
    if wire == 0:
        return key + enc_varint(rng.getrandbits(rng.randrange(1, 64)))
    if wire == 2:
        size = rng.randrange(0, 5)
        return key + enc_varint(size) + bytes(size)
    return key + bytes(8 if wire == 1 else 4)


def pick(rng, name):
    value = rng.choice(VALUES[name])
    return value() if callable(value) else value


def reference_class():
    F = descriptor_pb2.FieldDescriptorProto
    fd = descriptor_pb2.FileDescriptorProto(name="c07_keep2.proto", package="c07k2", syntax="proto3")
    color = fd.enum_type.add(name="Color")
    for name, number in [("NONE", 0), ("RED", 1), ("BLUE", 2)]:
        color.value.add(name=name, number=number)
    sub = fd.message_type.add(name="Sub")
    sub.field.add(name="v", number=1, type=F.TYPE_INT32, label=F.LABEL_OPTIONAL)
    msg = fd.message_type.add(name="Msg")
    for name in "abcd":
        msg.oneof_decl.add(name=name)
    spec = [
        ("a_int", F.TYPE_INT32, 0, None), ("a_zig", F.TYPE_SINT64, 0, None), ("a_flag", F.TYPE_BOOL, 0, None),
        ("a_color", F.TYPE_ENUM, 0, ".c07k2.Color"), ("b_str", F.TYPE_STRING, 1, None), ("b_bytes", F.TYPE_BYTES, 1, None),
        ("b_sub", F.TYPE_MESSAGE, 1, ".c07k2.Sub"), ("c_fixed", F.TYPE_FIXED32, 2, None), ("c_double", F.TYPE_DOUBLE, 2, None),
        ("c_sfixed", F.TYPE_SFIXED64, 2, None), ("c_float", F.TYPE_FLOAT, 2, None), ("plain", F.TYPE_INT32, None, None),
        ("far", F.TYPE_STRING, 3, None), ("farther", F.TYPE_UINT64, 3, None),
    ]
    for name, ftype, oneof, type_name in spec:
        field = msg.field.add(name=name, number=NUMBER[name], type=ftype, label=F.LABEL_OPTIONAL)
        if oneof is not None:
            field.oneof_index = oneof
        if type_name:
            field.type_name = type_name
    pool = descriptor_pool.DescriptorPool()
    pool.Add(fd)
    return message_factory.GetMessageClass(pool.FindMessageTypeByName("c07k2.Msg"))


def top_level(data):
    fields, error, _ = ref_fields(data)
    assert error is None, error
    return fields


def check_against_reference():
    Ref = reference_class()
    rng = random.Random(3)
    for round_ in range(1500):
        parts, last_sub_repeated, seen_sub = [], False, 0
        for _ in range(rng.randrange(0, 9)):
            if rng.random() < 0.2:
                parts.append(unknown_field(rng))
            else:
                name = rng.choice(list(NUMBER))
                seen_sub += name == "b_sub"
                parts.append(encode_member(name, pick(rng, name)))
        data = b"".join(parts)
        ref = Ref()
        ref.ParseFromString(data)
        for make in (lambda: Msg().parse(data), lambda: Msg.FromString(data), lambda: Msg().load(io.BytesIO(data)),
                     lambda: Msg().load(io.BytesIO(data + b"\x08\x63"), len(data))):
            m = make()
            for group in GROUPS:
                want = ref.WhichOneof(group) or ""
                name, value = betterproto.which_one_of(m, group)
                assert name == want, (data, group, name, want)
                if want and want != "b_sub":
                    assert value == getattr(ref, want), (data, want, value)
                elif want and seen_sub == 1:
                    assert value.v == ref.b_sub.v
            assert m.plain == ref.plain
            # the encoding holds exactly the selected members (plus what was unknown)
            known = [n for n, *_ in top_level(bytes(m)) if n in NAME_OF]
            want_known = sorted(
                NUMBER[n] for n in [ref.WhichOneof(g) for g in GROUPS] + (["plain"] if ref.plain else []) if n
            )
            assert known == want_known, (data, known, want_known)
            again = Ref()
            again.ParseFromString(bytes(m))
            for group in GROUPS:
                assert again.WhichOneof(group) == ref.WhichOneof(group)


# --------------------------------------------------------------------------
def camel(name):
    head, *rest = name.split("_")
    return head + "".join(p.title() for p in rest)


def check_state(m, model, trail):
    numbers = [n for n, *_ in top_level(bytes(m))]
    as_dict = m.to_dict()
    for group, members in GROUPS.items():
        selected = model[group]
        name, value = betterproto.which_one_of(m, group)
        assert name == (selected[0] if selected else ""), (trail, group, name)
        if selected and selected[0] != "b_sub":
            assert value == selected[1] and getattr(m, name) == selected[1], (trail, name, value)
        for other in members:
            if selected and other == selected[0]:
                continue
            try:
                getattr(m, other)
            except AttributeError:
                pass
            else:
                raise AssertionError((trail, f"reading {other} did not raise"))
        want_numbers = [NUMBER[selected[0]]] if selected else []
        assert [n for n in numbers if NAME_OF.get(n) in members] == want_numbers, (trail, group, numbers)
        want_keys = [camel(selected[0])] if selected else []
        assert [k for k in as_dict if k in {camel(x) for x in members}] == want_keys, (trail, as_dict)
    assert m.plain == model["plain"], trail


def histories():
    rng = random.Random(4)
    for _ in range(300):
        model = {g: None for g in GROUPS}
        model["plain"] = 0

        def note(name, value):
            if name == "plain":
                model["plain"] = value
            else:
                model[GROUP_OF[name]] = (name, value)

        kwargs = {}
        for members in GROUPS.values():
            if rng.random() < 0.5:
                name = rng.choice(members)
                kwargs[name] = pick(rng, name)
        m = Msg(**kwargs)
        for k, v in kwargs.items():
            note(k, v)
        trail = [f"Msg({sorted(kwargs)})"]
        check_state(m, model, trail)
        for _ in range(rng.randrange(1, 10)):
            op = rng.choice(["set", "plain", "parse", "parse", "parse", "load", "copy", "deepcopy", "pickle"])
            if op == "set":
                name = rng.choice(list(GROUP_OF))
                value = pick(rng, name)
                setattr(m, name, value)
                note(name, value)
                trail.append(f"{name}={value!r}")
            elif op == "plain":
                value = pick(rng, "plain")
                m.plain = value
                note("plain", value)
                trail.append(f"plain={value}")
            elif op in ("parse", "load"):
                parts, names = [], []
                for _ in range(rng.randrange(0, 7)):
                    if rng.random() < 0.15:
                        parts.append(unknown_field(rng))
                        continue
                    name = rng.choice(list(NUMBER))
                    value = pick(rng, name)
                    parts.append(encode_member(name, value))
                    note(name, value)
                    names.append(name)
                data = b"".join(parts)
                if op == "parse":
                    assert m.parse(data) is m
                else:
                    stream = io.BytesIO(enc_varint(len(data)) + data + b"\x08\x01")
                    assert m.load(stream, betterproto.SIZE_DELIMITED) is m
                    assert stream.read() == b"\x08\x01"
                trail.append(f"{op}({names})")
            else:
                m = {"copy": copy.copy, "deepcopy": copy.deepcopy, "pickle": lambda x: pickle.loads(pickle.dumps(x))}[op](m)
                trail.append(op)
            check_state(m, model, trail)


def check_message_errors():
    """Malformed input reaches the caller of parse with the same exception."""
    cases = [
        (b"\x08", "EOFError"), (b"\x2a\x05abc", "EOFError"), (b"\x45\x00\x00", "EOFError"), (b"\x49" + b"\x00" * 7, "EOFError"),
        (b"\x00\x01", "ValueError"), (b"\x0b", "ValueError"), (b"\x0c", "ValueError"), (b"\x2e", "ValueError"), (b"\x2f", "ValueError"),
        (b"\x08" + b"\xff" * 10 + b"\x01", "ValueError"), (b"\xff" * 10 + b"\x01", "ValueError"),
    ]
    for data, exc in cases:
        m = Msg(a_flag=True)
        res = outcome(lambda: m.parse(b"\x2a\x01z" + data))
        assert res[0] == exc, (data, res)
        # what came before the malformed part was applied, the selection is intact
        assert betterproto.which_one_of(m, "b") == ("b_str", "z")
        assert betterproto.which_one_of(m, "a") == ("a_flag", True)


def main():
    check_load_varint()
    check_load_fields()
    check_against_reference()
    histories()
    check_message_errors()
    print("ok")


if __name__ == "__main__":
    main()
