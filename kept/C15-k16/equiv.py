"""Equivalence check for the refactoring of the class-metadata helpers that decide, from a
field's annotation, (a) the zero value factory of the field (epoch for `datetime`,
timedelta(0) for `timedelta`, None / [] / {} for optional / repeated / map fields) and
(b) the class the decoders and the JSON mapping dispatch on (`cls_by_field[...] == datetime`
-> _Timestamp, `== timedelta` -> _Duration, the synthetic map `Entry` message):
Message._get_field_default_gen, Message._cls_for, ProtoClassMetadata._get_cls_by_field,
datetime_default_gen / DATETIME_ZERO.

Everything asserted here is spelled out literally, so the script is its own oracle and must
pass unchanged before and after the refactoring.
"""
import dataclasses
import random
from dataclasses import dataclass
from datetime import datetime, timedelta, timezone
from typing import Dict, List, Optional

from google.protobuf import descriptor_pb2, descriptor_pool, message_factory
from google.protobuf import duration_pb2, timestamp_pb2  # noqa: F401 (registers the files)

import betterproto
from betterproto import FieldMetadata, encode_varint

EPOCH = datetime(1970, 1, 1, tzinfo=timezone.utc)
US = timedelta(microseconds=1)
NoneType = type(None)


class Colour(betterproto.Enum):
    RED = 0
    GREEN = 1


@dataclass(eq=False, repr=False)
class Leaf(betterproto.Message):
    when: datetime = betterproto.message_field(1)
    span: timedelta = betterproto.message_field(2)


@dataclass(eq=False, repr=False)
class Everything(betterproto.Message):
    ts: datetime = betterproto.message_field(1)
    d: timedelta = betterproto.message_field(2)
    opt_ts: Optional[datetime] = betterproto.message_field(3, optional=True)
    opt_d: Optional[timedelta] = betterproto.message_field(4, optional=True)
    new_opt_ts: "datetime | None" = betterproto.message_field(5, optional=True)
    new_opt_d: "timedelta | None" = betterproto.message_field(6, optional=True)
    tss: List[datetime] = betterproto.message_field(7)
    ds: List[timedelta] = betterproto.message_field(8)
    new_tss: "list[datetime]" = betterproto.message_field(9)
    new_ds: "list[timedelta]" = betterproto.message_field(10)
    ts_by_name: Dict[str, datetime] = betterproto.map_field(
        11, betterproto.TYPE_STRING, betterproto.TYPE_MESSAGE
    )
    d_by_id: Dict[int, timedelta] = betterproto.map_field(
        12, betterproto.TYPE_SINT64, betterproto.TYPE_MESSAGE
    )
    new_ts_by_flag: "dict[bool, datetime]" = betterproto.map_field(
        13, betterproto.TYPE_BOOL, betterproto.TYPE_MESSAGE
    )
    one_ts: datetime = betterproto.message_field(14, group="pick")
    one_d: timedelta = betterproto.message_field(15, group="pick")
    one_n: int = betterproto.int64_field(16, group="pick")
    leaf: Leaf = betterproto.message_field(17)
    opt_leaf: Optional[Leaf] = betterproto.message_field(18, optional=True)
    leaves: List[Leaf] = betterproto.message_field(19)
    leaf_by_name: Dict[str, Leaf] = betterproto.map_field(
        20, betterproto.TYPE_STRING, betterproto.TYPE_MESSAGE
    )
    colour: Colour = betterproto.enum_field(21)
    colours: List[Colour] = betterproto.enum_field(22)
    colour_by_name: Dict[str, Colour] = betterproto.map_field(
        23, betterproto.TYPE_STRING, betterproto.TYPE_ENUM
    )
    wrapped: Optional[int] = betterproto.message_field(24, wraps=betterproto.TYPE_INT64)
    n: int = betterproto.int64_field(25)
    x: float = betterproto.double_field(26)
    s: str = betterproto.string_field(27)
    b: bytes = betterproto.bytes_field(28)
    flag: bool = betterproto.bool_field(29)
    ns: List[int] = betterproto.sint32_field(30)
    n_by_s: Dict[str, int] = betterproto.map_field(
        31, betterproto.TYPE_STRING, betterproto.TYPE_INT32
    )
    again: "Everything" = betterproto.message_field(32)
    opt_n: Optional[int] = betterproto.int32_field(33, optional=True)


# --------------------------------------------------------------- 1. the module constants
assert betterproto.DATETIME_ZERO == EPOCH
assert betterproto.DATETIME_ZERO.tzinfo is timezone.utc
assert betterproto.DATETIME_ZERO.utcoffset() == timedelta(0)
made = betterproto.datetime_default_gen()
assert type(made) is datetime and made == EPOCH and made.tzinfo is timezone.utc
assert (made.year, made.month, made.day, made.hour, made.minute, made.second, made.microsecond) == (1970, 1, 1, 0, 0, 0, 0)
assert made.isoformat() == "1970-01-01T00:00:00+00:00"

# --------------------------------------------------------------- 2. zero value factories
meta = Everything._betterproto
gen = meta.default_gen
assert list(gen) == [f.name for f in dataclasses.fields(Everything)]
expected_gen = {
    "ts": betterproto.datetime_default_gen,
    "d": timedelta,
    "opt_ts": NoneType,
    "opt_d": NoneType,
    "new_opt_ts": NoneType,
    "new_opt_d": NoneType,
    "tss": list,
    "ds": list,
    "new_tss": list,
    "new_ds": list,
    "ts_by_name": dict,
    "d_by_id": dict,
    "new_ts_by_flag": dict,
    "one_ts": betterproto.datetime_default_gen,
    "one_d": timedelta,
    "one_n": int,
    "leaf": Leaf,
    "opt_leaf": NoneType,
    "leaves": list,
    "leaf_by_name": dict,
    "colours": list,
    "colour_by_name": dict,
    "wrapped": NoneType,
    "n": int,
    "x": float,
    "s": str,
    "b": bytes,
    "flag": bool,
    "ns": list,
    "n_by_s": dict,
    "again": Everything,
    "opt_n": NoneType,
}
for name, factory in expected_gen.items():
    assert gen[name] is factory, (name, gen[name])
assert gen["colour"] == Colour.try_value and gen["colour"]() is Colour.RED
assert set(gen) == set(expected_gen) | {"colour"}

expected_zero = {
    "ts": EPOCH,
    "d": timedelta(0),
    "opt_ts": None,
    "opt_d": None,
    "new_opt_ts": None,
    "new_opt_d": None,
    "tss": [],
    "ds": [],
    "new_tss": [],
    "new_ds": [],
    "ts_by_name": {},
    "d_by_id": {},
    "new_ts_by_flag": {},
    "one_ts": EPOCH,
    "one_d": timedelta(0),
    "one_n": 0,
    "leaf": Leaf(),
    "opt_leaf": None,
    "leaves": [],
    "leaf_by_name": {},
    "colour": Colour.RED,
    "colours": [],
    "colour_by_name": {},
    "wrapped": None,
    "n": 0,
    "x": 0.0,
    "s": "",
    "b": b"",
    "flag": False,
    "ns": [],
    "n_by_s": {},
    "again": Everything(),
    "opt_n": None,
}
probe = Everything()
for name, zero in expected_zero.items():
    got = probe._get_field_default(name)
    assert type(got) is type(zero) and got == zero, (name, got)
    if isinstance(zero, datetime):
        assert got.tzinfo is timezone.utc
# mutable defaults are fresh objects for every message
for name in ("tss", "ds", "ts_by_name", "d_by_id", "leaf", "leaves"):
    assert probe._get_field_default(name) is not probe._get_field_default(name)
    assert getattr(Everything(), name) is not getattr(Everything(), name)

# --------------------------------------------------------------- 3. dispatch classes
by_field = meta.cls_by_field
expected_cls = {
    "ts": datetime,
    "d": timedelta,
    "opt_ts": datetime,
    "opt_d": timedelta,
    "new_opt_ts": datetime,
    "new_opt_d": timedelta,
    "tss": datetime,
    "ds": timedelta,
    "new_tss": datetime,
    "new_ds": timedelta,
    "ts_by_name.value": datetime,
    "d_by_id.value": timedelta,
    "new_ts_by_flag.value": datetime,
    "one_ts": datetime,
    "one_d": timedelta,
    "one_n": int,
    "leaf": Leaf,
    "opt_leaf": Leaf,
    "leaves": Leaf,
    "leaf_by_name.value": Leaf,
    "colour": Colour,
    "colours": Colour,
    "colour_by_name.value": Colour,
    "wrapped": int,
    "n": int,
    "x": float,
    "s": str,
    "b": bytes,
    "flag": bool,
    "ns": int,
    "n_by_s.value": int,
    "again": Everything,
    "opt_n": int,
}
for name, klass in expected_cls.items():
    assert by_field[name] is klass, (name, by_field[name])
expected_entries = {
    "ts_by_name": (str, betterproto.TYPE_STRING, datetime, betterproto.TYPE_MESSAGE),
    "d_by_id": (int, betterproto.TYPE_SINT64, timedelta, betterproto.TYPE_MESSAGE),
    "new_ts_by_flag": (bool, betterproto.TYPE_BOOL, datetime, betterproto.TYPE_MESSAGE),
    "leaf_by_name": (str, betterproto.TYPE_STRING, Leaf, betterproto.TYPE_MESSAGE),
    "colour_by_name": (str, betterproto.TYPE_STRING, Colour, betterproto.TYPE_ENUM),
    "n_by_s": (str, betterproto.TYPE_STRING, int, betterproto.TYPE_INT32),
}
assert set(by_field) == set(expected_cls) | set(expected_entries)
assert list(by_field) == [
    key
    for f in dataclasses.fields(Everything)
    for key in ((f.name, f"{f.name}.value") if f.name in expected_entries else (f.name,))
]
for name, (kt, kproto, vt, vproto) in expected_entries.items():
    entry = by_field[name]
    assert entry.__name__ == "Entry" and entry.__bases__ == (betterproto.Message,)
    assert issubclass(entry, betterproto.Message) and dataclasses.is_dataclass(entry)
    key_f, value_f = dataclasses.fields(entry)
    assert (key_f.name, key_f.type) == ("key", kt), (name, key_f)
    assert (value_f.name, value_f.type) == ("value", vt), (name, value_f)
    km, vm = FieldMetadata.get(key_f), FieldMetadata.get(value_f)
    assert (km.number, km.proto_type, km.map_types, km.group, km.wraps, km.optional) == (1, kproto, None, None, None, False)
    assert (vm.number, vm.proto_type, vm.map_types, vm.group, vm.wraps, vm.optional) == (2, vproto, None, None, None, False)
    em = entry._betterproto
    assert em.cls_by_field == {"key": kt, "value": vt}
    assert list(em.default_gen) == ["key", "value"]
    assert em.default_gen["key"] is kt
    if vt is datetime:
        assert em.default_gen["value"] is betterproto.datetime_default_gen
        assert entry().value == EPOCH
    elif vt is Colour:
        assert em.default_gen["value"]() is Colour.RED
    else:
        assert em.default_gen["value"] is vt
    if vt is timedelta:
        assert entry().value == timedelta(0)
    # the entry is built once per class and reused
    assert Everything._betterproto.cls_by_field[name] is entry

# _cls_for itself: index selects the type argument, a negative index the raw annotation
fields = {f.name: f for f in dataclasses.fields(Everything)}
hints = Everything._type_hints()
assert Everything._cls_for(fields["ts"]) is datetime
assert Everything._cls_for(fields["ts"], index=-1) is datetime
assert Everything._cls_for(fields["opt_d"]) is timedelta
assert Everything._cls_for(fields["opt_d"], index=1) is NoneType
assert Everything._cls_for(fields["opt_d"], index=-1) == hints["opt_d"]
assert Everything._cls_for(fields["new_opt_ts"], index=0) is datetime
assert Everything._cls_for(fields["new_opt_ts"], index=1) is NoneType
assert Everything._cls_for(fields["new_opt_ts"], index=-1) == hints["new_opt_ts"]
assert Everything._cls_for(fields["d_by_id"], index=0) is int
assert Everything._cls_for(fields["d_by_id"], index=1) is timedelta
assert Everything._cls_for(fields["d_by_id"], index=-1) == hints["d_by_id"]
assert Everything._cls_for(fields["new_tss"], index=-1) == hints["new_tss"]
try:
    Everything._cls_for(fields["tss"], index=1)
except IndexError:
    pass
else:
    raise AssertionError("List[datetime] has a single type argument")

# --------------------------------------------------------------- 4. a fresh message
m = Everything()
assert bytes(m) == b"" and len(m) == 0 and not m
assert m.to_dict() == {} and m.to_pydict() == {}
assert m.ts == EPOCH and m.ts.tzinfo is timezone.utc and m.d == timedelta(0)
assert m.opt_ts is None and m.new_opt_d is None and m.tss == [] and m.ts_by_name == {}
assert not m.is_set("ts") and not m.is_set("d") and not m.is_set("opt_ts")
assert m.leaf.when == EPOCH and m.leaf.span == timedelta(0)


@dataclass(eq=False, repr=False)
class Flat(betterproto.Message):  # (Everything is recursive: no include_default_values there)
    ts: datetime = betterproto.message_field(1)
    d: timedelta = betterproto.message_field(2)
    opt_ts: Optional[datetime] = betterproto.message_field(3, optional=True)
    new_opt_d: "timedelta | None" = betterproto.message_field(4, optional=True)
    tss: "list[datetime]" = betterproto.message_field(5)
    ts_by_name: Dict[str, datetime] = betterproto.map_field(
        6, betterproto.TYPE_STRING, betterproto.TYPE_MESSAGE
    )
    leaf: Leaf = betterproto.message_field(7)


full = Flat().to_dict(include_default_values=True)
assert full == {
    "ts": "1970-01-01T00:00:00Z",
    "d": "0.000s",
    "optTs": None,
    "newOptD": None,
    "tss": [],
    "tsByName": {},
    "leaf": {"when": "1970-01-01T00:00:00Z", "span": "0.000s"},
}, full
full = Flat().to_pydict(include_default_values=True)
assert full == {
    "ts": EPOCH,
    "d": timedelta(0),
    "optTs": None,
    "newOptD": None,
    "tss": [],
    "tsByName": {},
    "leaf": {"when": EPOCH, "span": timedelta(0)},
}, full
assert Everything().parse(b"") == m

# --------------------------------------------------------------- 5. reference round trips


def build_reference():
    fd = descriptor_pb2.FileDescriptorProto(name="c15_keep2.proto", package="c15k2", syntax="proto3")
    fd.dependency.append("google/protobuf/timestamp.proto")
    fd.dependency.append("google/protobuf/duration.proto")
    msg = fd.message_type.add(name="Everything")
    F = descriptor_pb2.FieldDescriptorProto
    TS, DU = ".google.protobuf.Timestamp", ".google.protobuf.Duration"

    def add(name, number, type_name, label=F.LABEL_OPTIONAL, optional=False, oneof=None):
        f = msg.field.add(name=name, number=number, type=F.TYPE_MESSAGE, label=label, type_name=type_name)
        if optional:
            msg.oneof_decl.add(name="_" + name)
            f.oneof_index = len(msg.oneof_decl) - 1
            f.proto3_optional = True
        if oneof is not None:
            f.oneof_index = oneof
        return f

    def add_map(name, number, key_type, value_type_name):
        entry = msg.nested_type.add(name="".join(p.capitalize() for p in name.split("_")) + "Entry")
        entry.options.map_entry = True
        entry.field.add(name="key", number=1, type=key_type, label=F.LABEL_OPTIONAL)
        entry.field.add(name="value", number=2, type=F.TYPE_MESSAGE, label=F.LABEL_OPTIONAL, type_name=value_type_name)
        add(name, number, f".c15k2.Everything.{entry.name}", F.LABEL_REPEATED)

    msg.oneof_decl.add(name="pick")  # index 0, real oneofs come before synthetic ones
    add("ts", 1, TS)
    add("d", 2, DU)
    add("opt_ts", 3, TS, optional=True)
    add("opt_d", 4, DU, optional=True)
    add("new_opt_ts", 5, TS, optional=True)
    add("new_opt_d", 6, DU, optional=True)
    add("tss", 7, TS, F.LABEL_REPEATED)
    add("ds", 8, DU, F.LABEL_REPEATED)
    add("new_tss", 9, TS, F.LABEL_REPEATED)
    add("new_ds", 10, DU, F.LABEL_REPEATED)
    add_map("ts_by_name", 11, F.TYPE_STRING, TS)
    add_map("d_by_id", 12, F.TYPE_SINT64, DU)
    add_map("new_ts_by_flag", 13, F.TYPE_BOOL, TS)
    add("one_ts", 14, TS, oneof=0)
    add("one_d", 15, DU, oneof=0)
    f = msg.field.add(name="one_n", number=16, type=F.TYPE_INT64, label=F.LABEL_OPTIONAL)
    f.oneof_index = 0
    pool = descriptor_pool.Default()
    pool.Add(fd)
    return message_factory.GetMessageClass(pool.FindMessageTypeByName("c15k2.Everything"))


Ref = build_reference()

MIN_US = (datetime(1, 1, 1, tzinfo=timezone.utc) - EPOCH) // US
MAX_US = (datetime(9999, 12, 31, 23, 59, 59, 999999, tzinfo=timezone.utc) - EPOCH) // US
MAX_D_US = 315_576_000_000 * 10**6


def ts_pair(dt):
    s, us = divmod((dt - EPOCH) // US, 10**6)
    return s, us * 1000


def d_pair(td):
    total = td // US
    s, us = divmod(abs(total), 10**6)
    return (-s, -us * 1000) if total < 0 else (s, us * 1000)


def rand_dt(rng):
    us = rng.choice(
        [
            rng.randint(MIN_US, MAX_US),
            rng.randint(-2 * 10**6, 2 * 10**6),
            rng.randint(MIN_US // 10**6, MAX_US // 10**6) * 10**6,
            rng.choice([0, 1, -1, MIN_US, MAX_US, 2**53 + 1, -(2**53) - 1]),
        ]
    )
    dt = EPOCH + us * US
    if rng.random() < 0.6:
        try:
            dt = dt.astimezone(timezone(timedelta(minutes=rng.randint(-1079, 1079))))
        except OverflowError:
            pass
    return dt


def rand_td(rng):
    return US * rng.choice(
        [
            rng.randint(-MAX_D_US, MAX_D_US),
            rng.randint(-2 * 10**6, 2 * 10**6),
            rng.randint(-315_576_000_000, 315_576_000_000) * 10**6,
            rng.choice([0, 1, -1, -500000, -1500000, MAX_D_US, -MAX_D_US, 2**53 + 1]),
        ]
    )


def pairs(items, fn):
    return [fn(i) for i in items]


rng = random.Random(2015)
for round_no in range(1200):
    m = Everything()
    if rng.random() < 0.7:
        m.ts = rand_dt(rng)
    if rng.random() < 0.7:
        m.d = rand_td(rng)
    if rng.random() < 0.5:
        m.opt_ts = rng.choice([EPOCH, rand_dt(rng)])
    if rng.random() < 0.5:
        m.opt_d = rng.choice([timedelta(0), rand_td(rng)])
    if rng.random() < 0.5:
        m.new_opt_ts = rng.choice([EPOCH, rand_dt(rng)])
    if rng.random() < 0.5:
        m.new_opt_d = rng.choice([timedelta(0), rand_td(rng)])
    m.tss = [rng.choice([EPOCH, rand_dt(rng)]) for _ in range(rng.randrange(3))]
    m.ds = [rng.choice([timedelta(0), rand_td(rng)]) for _ in range(rng.randrange(3))]
    m.new_tss = [rng.choice([EPOCH, rand_dt(rng)]) for _ in range(rng.randrange(3))]
    m.new_ds = [rng.choice([timedelta(0), rand_td(rng)]) for _ in range(rng.randrange(3))]
    m.ts_by_name = {rng.choice(["", "a", "b"]): rng.choice([EPOCH, rand_dt(rng)]) for _ in range(rng.randrange(3))}
    m.d_by_id = {rng.choice([0, -1, 7]): rng.choice([timedelta(0), rand_td(rng)]) for _ in range(rng.randrange(3))}
    m.new_ts_by_flag = {rng.choice([False, True]): rng.choice([EPOCH, rand_dt(rng)]) for _ in range(rng.randrange(3))}
    pick = rng.randrange(4)
    if pick == 1:
        m.one_ts = rng.choice([EPOCH, rand_dt(rng)])
    elif pick == 2:
        m.one_d = rng.choice([timedelta(0), rand_td(rng)])
    elif pick == 3:
        m.one_n = rng.choice([0, 5])

    data = bytes(m)
    assert len(m) == len(data)
    ref = Ref.FromString(data)
    assert (ref.ts.seconds, ref.ts.nanos) == ts_pair(m.ts)
    assert (ref.d.seconds, ref.d.nanos) == d_pair(m.d)
    for name, fn in (("opt_ts", ts_pair), ("opt_d", d_pair), ("new_opt_ts", ts_pair), ("new_opt_d", d_pair)):
        value = getattr(m, name)
        assert ref.HasField(name) == (value is not None), (name, value)
        if value is not None:
            sub = getattr(ref, name)
            assert (sub.seconds, sub.nanos) == fn(value), (name, value)
    for name, fn in (("tss", ts_pair), ("ds", d_pair), ("new_tss", ts_pair), ("new_ds", d_pair)):
        assert [(i.seconds, i.nanos) for i in getattr(ref, name)] == pairs(getattr(m, name), fn), name
    for name, fn in (("ts_by_name", ts_pair), ("d_by_id", d_pair), ("new_ts_by_flag", ts_pair)):
        assert {k: (v.seconds, v.nanos) for k, v in getattr(ref, name).items()} == {
            k: fn(v) for k, v in getattr(m, name).items()
        }, name
    which = ref.WhichOneof("pick")
    assert which == [None, "one_ts", "one_d", "one_n"][pick]
    assert betterproto.which_one_of(m, "pick")[0] == (which or "")
    if pick == 1:
        assert (ref.one_ts.seconds, ref.one_ts.nanos) == ts_pair(m.one_ts)
    if pick == 2:
        assert (ref.one_d.seconds, ref.one_d.nanos) == d_pair(m.one_d)

    for source in (data, ref.SerializeToString()):
        back = Everything().parse(source)
        assert back == m, round_no
        for name in ("ts", "opt_ts", "new_opt_ts"):
            value = getattr(back, name)
            assert value is None or value.utcoffset() == timedelta(0)
        assert all(v.utcoffset() == timedelta(0) for v in back.tss + back.new_tss)
        assert all(v.utcoffset() == timedelta(0) for v in back.ts_by_name.values())
        assert betterproto.which_one_of(back, "pick") == betterproto.which_one_of(m, "pick")
        assert back._unknown_fields == b""

    # JSON mapping dispatches on the same classes
    as_dict = m.to_dict()
    again = Everything().from_dict(as_dict)
    assert again == m, round_no
    assert Everything.from_dict(as_dict) == m
    assert Everything().from_json(m.to_json()) == m
    assert bytes(again) == data
    if m.opt_ts is not None:
        assert isinstance(as_dict["optTs"], str) and as_dict["optTs"].endswith("Z")
    if m.new_opt_d is not None:
        assert isinstance(as_dict["newOptD"], str) and as_dict["newOptD"].endswith("s")
    for key_name, name in (("tsByName", "ts_by_name"), ("newTsByFlag", "new_ts_by_flag"), ("dById", "d_by_id")):
        if getattr(m, name):
            assert all(isinstance(v, str) for v in as_dict[key_name].values())

# nested message with Timestamp / Duration members, and the recursive member
t = datetime(2001, 2, 3, 4, 5, 6, 789000, tzinfo=timezone(timedelta(hours=-7)))
m = Everything(
    leaf=Leaf(when=t, span=timedelta(microseconds=-1)),
    opt_leaf=Leaf(),
    leaves=[Leaf(), Leaf(when=t)],
    leaf_by_name={"x": Leaf(span=timedelta(days=1))},
    again=Everything(ts=t, again=Everything(d=timedelta(seconds=-2))),
    colour=Colour.GREEN,
    colours=[Colour.RED, Colour.GREEN],
    colour_by_name={"g": Colour.GREEN},
    wrapped=0,
    opt_n=0,
)
back = Everything().parse(bytes(m))
assert back == m and back.leaf.when == t and back.again.again.d == timedelta(seconds=-2)
assert back.leaves[0].when == EPOCH and back.opt_leaf == Leaf() and back.wrapped == 0 and back.opt_n == 0
assert Everything().from_dict(m.to_dict()) == m
assert m.to_dict()["leaf"] == {"when": "2001-02-03T11:05:06.789Z", "span": "-0.000001s"}
assert m.to_dict()["again"] == {"ts": "2001-02-03T11:05:06.789Z", "again": {"d": "-2.000s"}}


# a class declared later gets its own metadata, built the same way
@dataclass(eq=False, repr=False)
class Late(betterproto.Message):
    at: Optional[datetime] = betterproto.message_field(2, optional=True)
    spans: Dict[str, timedelta] = betterproto.map_field(3, betterproto.TYPE_STRING, betterproto.TYPE_MESSAGE)


late = Late(at=EPOCH, spans={"": timedelta(0), "neg": timedelta(seconds=-1, microseconds=-5)})
assert Late._betterproto.default_gen == {"at": NoneType, "spans": dict}
assert Late._betterproto.cls_by_field["at"] is datetime and Late._betterproto.cls_by_field["spans.value"] is timedelta
expected = (
    b"\x12\x00"
    + b"\x1a\x00"  # entry with default key and default value
    + b"\x1a\x1d\x0a\x03neg\x12\x16\x08" + encode_varint(-1) + b"\x10" + encode_varint(-5000)
)
assert bytes(late) == expected, bytes(late)
assert Late().parse(expected) == late
assert Late().parse(expected).spans == {"": timedelta(0), "neg": timedelta(microseconds=-1000005)}

print("ok")
