"""C19 / keep1: the word splitting behind snake_case, pascal_case and camel_case.

The library functions are compared, for every string of a large exhaustive domain, with
a frozen copy of the reference (regular expression) implementation, and the derived
name mappings and the to_dict -> from_dict key round trip are checked on top."""
import builtins
import dataclasses
import itertools
import keyword
import random
import re

import betterproto
from betterproto import Casing
from betterproto.casing import (
    camel_case,
    pascal_case,
    safe_snake_case,
    sanitize_name,
    snake_case,
)
from betterproto.compile.naming import (
    pythonize_class_name,
    pythonize_enum_member_name,
    pythonize_field_name,
    pythonize_method_name,
)

# ---------------------------------------------------------------- frozen reference
SYMBOLS = "[^a-zA-Z0-9]*"
WORD = "[A-Z]*[a-z]*[0-9]*"
WORD_UPPER = "[A-Z]+(?![a-z])[0-9]*"


def ref_snake_case(value, strict=True):
    def substitute_word(symbols, word, is_start):
        if not word:
            return ""
        if strict:
            delimiter_count = 0 if is_start else 1
        elif is_start:
            delimiter_count = len(symbols)
        elif word.isupper() or word.islower():
            delimiter_count = max(1, len(symbols))
        else:
            delimiter_count = len(symbols) + 1
        return ("_" * delimiter_count) + word.lower()

    return re.sub(
        f"(^)?({SYMBOLS})({WORD_UPPER}|{WORD})",
        lambda groups: substitute_word(groups[2], groups[3], groups[1] is not None),
        value,
    )


def ref_pascal_case(value, strict=True):
    def substitute_word(symbols, word):
        if strict:
            return word.capitalize()
        if word.islower():
            delimiter_length = len(symbols[:-1])
        else:
            delimiter_length = len(symbols)
        return ("_" * delimiter_length) + word.capitalize()

    return re.sub(
        f"({SYMBOLS})({WORD_UPPER}|{WORD})",
        lambda groups: substitute_word(groups[1], groups[2]),
        value,
    )


def ref_camel_case(value, strict=True):
    value = ref_pascal_case(value, strict=strict)
    return value[0:1].lower() + value[1:]


def ref_sanitize_name(value):
    if keyword.iskeyword(value):
        return f"{value}_"
    if not value.isidentifier():
        return f"_{value}"
    return value


def ref_safe_snake_case(value):
    return ref_sanitize_name(ref_snake_case(value))


def compare(value, names=True):
    for strict in (True, False):
        assert snake_case(value, strict=strict) == ref_snake_case(value, strict), (
            "snake_case", value, strict)
        assert pascal_case(value, strict=strict) == ref_pascal_case(value, strict), (
            "pascal_case", value, strict)
    if not names:
        return
    for strict in (True, False):
        assert camel_case(value, strict=strict) == ref_camel_case(value, strict), (
            "camel_case", value, strict)
    assert snake_case(value) == ref_snake_case(value)
    assert pascal_case(value) == ref_pascal_case(value)
    assert camel_case(value) == ref_camel_case(value)
    assert safe_snake_case(value) == ref_safe_snake_case(value), value
    assert pythonize_field_name(value) == ref_safe_snake_case(value), value
    assert pythonize_method_name(value) == ref_safe_snake_case(value), value
    assert pythonize_class_name(value) == ref_sanitize_name(ref_pascal_case(value)), value


# ---------------------------------------------------------------- pinned examples
PINNED_SNAKE = {
    "": "", "a": "a", "foobar": "foobar", "fooBar": "foo_bar", "FooBar": "foo_bar",
    "foo.bar": "foo_bar", "foo_bar": "foo_bar", "foo_Bar": "foo_bar", "FOOBAR": "foobar",
    "FOOBar": "foo_bar", "UInt32": "u_int32", "FOO_BAR": "foo_bar", "FOOBAR1": "foobar1",
    "FOOBAR_1": "foobar_1", "FOOBAR_123": "foobar_123", "FOO1BAR2": "foo1_bar2",
    "foo__bar": "foo_bar", "_foobar": "foobar", "foobaR": "fooba_r", "foo~bar": "foo_bar",
    "foo:bar": "foo_bar", "1foobar": "1_foobar", "GetUInt64": "get_u_int64",
    "HTTP2xx": "http2_xx", "HTTPStatus": "http_status", "address_line_1": "address_line_1",
    "ipv4_address": "ipv4_address", "x_y_z": "x_y_z", "type_": "type",
}
for value, expected in PINNED_SNAKE.items():
    assert snake_case(value) == expected, (value, snake_case(value), expected)
PINNED_SNAKE_LOOSE = {
    "fooBar": "foo_bar", "FooBar": "foo_bar", "foo_Bar": "foo__bar", "foo__bar": "foo__bar",
    "FOOBar": "foo_bar", "__foo": "__foo", "GetUInt64": "get_u_int64",
}
for value, expected in PINNED_SNAKE_LOOSE.items():
    assert snake_case(value, strict=False) == expected, (value, expected)
PINNED_PASCAL = {
    "": "", "a": "A", "foobar": "Foobar", "fooBar": "FooBar", "FooBar": "FooBar",
    "foo.bar": "FooBar", "foo_bar": "FooBar", "FOOBAR": "Foobar", "FOOBar": "FooBar",
    "UInt32": "UInt32", "FOO_BAR": "FooBar", "FOOBAR1": "Foobar1", "FOOBAR_1": "Foobar1",
    "FOO1BAR2": "Foo1Bar2", "foo__bar": "FooBar", "_foobar": "Foobar", "foobaR": "FoobaR",
    "foo~bar": "FooBar", "foo:bar": "FooBar", "1foobar": "1Foobar", "x_y_z": "XYZ",
    "address_line_1": "AddressLine1", "HTTPStatus": "HttpStatus",
}
for value, expected in PINNED_PASCAL.items():
    assert pascal_case(value) == expected, (value, pascal_case(value), expected)
    assert camel_case(value) == expected[:1].lower() + expected[1:], value
PINNED_CAMEL_LOOSE = {
    "foo_bar": "fooBar", "FooBar": "fooBar", "foo__bar": "foo_Bar", "foo__Bar": "foo__Bar",
    "foo_": "foo_", "__foo": "_Foo",
}
for value, expected in PINNED_CAMEL_LOOSE.items():
    assert camel_case(value, strict=False) == expected, (value, camel_case(value, strict=False))

# ---------------------------------------------------------------- exhaustive domains
count = 0
# the property's alphabet: lower, upper, digit, underscore (two letters of each case)
for length in range(0, 7):
    for chars in itertools.product("abAB1_", repeat=length):
        compare("".join(chars))
        count += 1
# one character of every class the patterns distinguish, other symbols and non-ASCII
# letters (which are symbols for the ASCII-only patterns) included
for length in range(0, 8):
    for chars in itertools.product("aZ7_.É", repeat=length):
        compare("".join(chars), names=length < 6)
        count += 1

# ---------------------------------------------------------------- words and corpus
CORPUS = [
    "address_line_1", "ipv4_address", "x_y_z", "HTTPStatus", "httpStatus", "HTTP2xx",
    "user_id", "userId", "UserID", "User_Id", "USER_ID", "Content_Type", "ETag",
    "sha256_sum", "SHA256Sum", "utf8", "a1b2", "A1B2", "_private", "__dunder",
    "trailing_", "trailing__", "foo__bar", "Foo__Bar", "FOO__BAR", "_", "__", "_1",
    "SearchRequest", "GetUInt64", "UInt32Value", "google.protobuf.Timestamp",
    "foo bar", "foo\nbar", "foo\tBar", " leading", "trailing ", "été", "naïve_Name",
    "Δelta", "x²", "١٢", "a\U0001f600b", "Straße", "ＡＢ", "ǅx",
]
for word in keyword.kwlist + keyword.softkwlist + dir(builtins):
    for variant in (word, word.lower(), word.capitalize(), word.upper()):
        CORPUS += [variant, "_" + variant, variant + "_", variant + "1", "get" + variant]
for value in CORPUS:
    compare(value)
    count += 1

rng = random.Random(19)
ALPHABET = "abcxyzABCXYZ0189__..-~: \néÉßΔ"
for _ in range(60000):
    value = "".join(rng.choice(ALPHABET) for _ in range(rng.randint(0, 24)))
    compare(value)
    count += 1

# enum member names use snake_case(enum_name) for the prefix
for enum_name, member, expected in [
    ("HTTPStatus", "HTTP_STATUS_OK", "OK"), ("E", "ZERO", "ZERO"), ("E", "E_None", "None_"),
    ("FooBar", "FOO_BAR_", "FOO_BAR_"), ("Foo2Bar", "FOO2_BAR_X", "X"),
    ("foo", "FOO_1", "_1"), ("Color", "COLOR_RED", "RED"), ("Color", "RED", "RED"),
]:
    assert pythonize_enum_member_name(member, enum_name) == expected, (enum_name, member)
    prefix = ref_snake_case(enum_name).upper() + "_"
    rest = member[len(prefix):].strip("_") if member.startswith(prefix) else ""
    assert pythonize_enum_member_name(member, enum_name) == ref_sanitize_name(rest or member)


# ---------------------------------------------------------------- JSON key round trip
def make_message(field_names):
    return dataclasses.make_dataclass(
        "M",
        [(name, int, betterproto.int32_field(i)) for i, name in enumerate(field_names, 1)],
        bases=(betterproto.Message,), eq=False, repr=False,
    )


proto_names = [n for n in dict.fromkeys(CORPUS) if re.fullmatch("[A-Za-z_][A-Za-z0-9_]*", n)]
for length in range(1, 5):
    proto_names += ["".join(c) for c in itertools.product("aB1_", repeat=length) if c[0] != "1"]
for proto_name in dict.fromkeys(proto_names):
    field = pythonize_field_name(proto_name)
    assert field.isidentifier() and not keyword.iskeyword(field), (proto_name, field)
    assert pythonize_field_name(field) == field, (proto_name, field)
    cls = make_message([field])
    msg = cls(**{field: 7})
    for casing in (Casing.CAMEL, Casing.SNAKE):
        emitted = msg.to_dict(casing=casing)
        assert list(emitted) == [ref_camel_case(field).rstrip("_") if casing is Casing.CAMEL
                                 else ref_snake_case(field).rstrip("_")], (field, emitted)
        assert getattr(cls.from_dict(emitted), field) == 7, (proto_name, field, emitted)
        assert getattr(cls().from_pydict(msg.to_pydict(casing=casing)), field) == 7
    assert getattr(cls.from_dict({proto_name: 7}), field) == 7, (proto_name, field)
    assert getattr(cls().from_pydict({proto_name: 7}), field) == 7, (proto_name, field)

Several = make_message(["address_line_1", "x_y_z", "x_yz", "class_", "ipv4_address"])
msg = Several(1, 2, 3, 4, 5)
assert msg.to_dict() == {
    "addressLine1": 1, "xYZ": 2, "xYz": 3, "class": 4, "ipv4Address": 5}
assert msg.to_dict(casing=Casing.SNAKE) == {
    "address_line_1": 1, "x_y_z": 2, "x_yz": 3, "class": 4, "ipv4_address": 5}
for casing in (Casing.CAMEL, Casing.SNAKE):
    back = Several.from_dict(msg.to_dict(casing=casing))
    assert [getattr(back, f.name) for f in dataclasses.fields(back)] == [1, 2, 3, 4, 5]

print(f"C19 keep1 ok: {count} strings compared with the reference implementation")
